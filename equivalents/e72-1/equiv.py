"""Equivalence check for refactoring 1 (ceos_alos2.array.parse_data).

Run as a script (``python equiv.py``) or through pytest.  ``python equiv.py
--record`` prints the observations instead of comparing them; EXPECTED below
was recorded that way from the unchanged code (HEAD).
"""

import pprint
import sys

import numpy as np

from ceos_alos2 import array


def describe_exception(exc):
    return (
        f"{type(exc).__qualname__}{exc.args!r}"
        f" cause={exc.__cause__!r} context={type(exc.__context__).__name__}"
        f" suppress_context={exc.__suppress_context__}"
    )


def describe_array(arr):
    return (
        f"{type(arr).__name__} {arr.dtype.str} {arr.shape} {arr.tolist()!r}"
        f" writeable={bool(arr.flags.writeable)} owndata={bool(arr.flags.owndata)}"
        f" has_base={arr.base is not None}"
    )


def run(content, type_code):
    try:
        result = array.parse_data(content, type_code)
    except BaseException as exc:  # noqa: BLE001
        return "raised " + describe_exception(exc)
    return "returned " + describe_array(result)


class Formatted:
    """hashable, formats differently from str / repr"""

    def __format__(self, spec):
        return f"FORMAT[{spec}]"

    def __str__(self):
        return "STR"

    def __repr__(self):
        return "REPR"


class StrSubclass(str):
    def __format__(self, spec):
        return "subclass-format"


class EqualsEverything:
    """hashes / compares like "C*8" but is not a str"""

    def __hash__(self):
        return hash("C*8")

    def __eq__(self, other):
        return other == "C*8"

    def __format__(self, spec):
        return "equals-c8"


class BadFormat:
    def __format__(self, spec):
        raise RuntimeError("cannot format")


def observe():
    obs = {}

    complex_bytes = np.array([1 + 2j, -3.5 + 0.25j, 0j], dtype=">c8").tobytes()
    uint_bytes = np.array([0, 1, 258, 65535], dtype=">u2").tobytes()

    contents = {
        "empty": b"",
        "uint": uint_bytes,
        "uint-bytearray": bytearray(uint_bytes),
        "uint-memoryview": memoryview(uint_bytes),
        "uint-slice": memoryview(uint_bytes)[2:6],
        "complex": complex_bytes,
        "complex-one": complex_bytes[:8],
        "odd-length": b"\x00\x01\x02",
        "four": b"\x00\x01\x02\x03",
        "none": None,
        "text": "abcd",
        "ndarray": np.arange(4, dtype="u1"),
    }
    type_codes = {
        "IU2": "IU2",
        "C*8": "C*8",
        "F*8": "F*8",
        "lower": "iu2",
        "blank": "",
        "padded": "IU2 ",
        "none": None,
        "int": 1,
        "bytes": b"IU2",
        "tuple": ("IU2", "C*8"),
        "tuple1": ("IU2",),
        "formatted": Formatted(),
        "str-subclass-known": StrSubclass("C*8"),
        "str-subclass-unknown": StrSubclass("C*9"),
        "equals-c8": EqualsEverything(),
        "unhashable-list": ["IU2"],
        "unhashable-dict": {},
        "bad-format": BadFormat(),
        "float-nan": float("nan"),
        "braces": "{0!r} {} %s %d",
    }

    for content_name, content in contents.items():
        for code_name, type_code in type_codes.items():
            obs[f"grid/{content_name}/{code_name}"] = run(content, type_code)

    # results never alias the table or each other
    first = array.parse_data(uint_bytes, "IU2")
    second = array.parse_data(uint_bytes, "IU2")
    obs["alias/raw-shares-buffer"] = bool(np.shares_memory(first, second))
    c1 = array.parse_data(complex_bytes, "C*8")
    obs["alias/complex-shares-buffer"] = bool(
        np.shares_memory(c1, np.frombuffer(complex_bytes, "u1"))
    )

    # the table is looked up at call time, in the module namespace
    original = array.raw_dtypes
    try:
        array.raw_dtypes["IU1"] = np.dtype("u1")
        array.raw_dtypes["NUL"] = None
        array.raw_dtypes["STR"] = ">i4"
        obs["table/added"] = run(b"\x01\x02\x03", "IU1")
        obs["table/none-entry"] = run(b"\x01\x02\x03", "NUL")
        obs["table/string-entry"] = run(b"\x00\x00\x00\x07", "STR")
        del array.raw_dtypes["IU1"], array.raw_dtypes["NUL"], array.raw_dtypes["STR"]
        obs["table/removed"] = run(b"\x01\x02\x03", "IU1")

        array.raw_dtypes = {"C*8": np.dtype(">u4"), "XYZ": np.dtype("<i2")}
        obs["table/replaced-c8"] = run(complex_bytes[:8], "C*8")
        obs["table/replaced-new"] = run(b"\x01\x00\x02\x00", "XYZ")
        obs["table/replaced-old"] = run(b"\x01\x00\x02\x00", "IU2")

        class Table(dict):
            calls = []

            def get(self, key, default=None):
                self.calls.append(("get", key, default))
                return super().get(key, default)

            def __getitem__(self, key):
                self.calls.append(("getitem", key))
                return super().__getitem__(key)

            def __contains__(self, key):
                self.calls.append(("contains", key))
                return super().__contains__(key)

        array.raw_dtypes = Table(original)
        obs["table/spy-known"] = run(uint_bytes, "IU2")
        obs["table/spy-unknown"] = run(uint_bytes, "nope")
        obs["table/spy-calls"] = repr(Table.calls)
    finally:
        array.raw_dtypes = original

    obs["table/restored"] = sorted(array.raw_dtypes)
    obs["public-names"] = [
        name for name in ("raw_dtypes", "parse_data", "Array") if hasattr(array, name)
    ]
    return obs


EXPECTED = {'alias/complex-shares-buffer': False,
 'alias/raw-shares-buffer': True,
 'grid/complex-one/C*8': 'returned ndarray <c8 (1,) [(1+2j)] writeable=True owndata=True '
                         'has_base=False',
 'grid/complex-one/F*8': "raised ValueError('unknown type code: F*8',) cause=None context=NoneType "
                         'suppress_context=False',
 'grid/complex-one/IU2': 'returned ndarray >u2 (4,) [16256, 0, 16384, 0] writeable=False '
                         'owndata=False has_base=True',
 'grid/complex-one/bad-format': "raised RuntimeError('cannot format',) cause=None context=NoneType "
                                'suppress_context=False',
 'grid/complex-one/blank': "raised ValueError('unknown type code: ',) cause=None context=NoneType "
                           'suppress_context=False',
 'grid/complex-one/braces': "raised ValueError('unknown type code: {0!r} {} %s %d',) cause=None "
                            'context=NoneType suppress_context=False',
 'grid/complex-one/bytes': 'raised ValueError("unknown type code: b\'IU2\'",) cause=None '
                           'context=NoneType suppress_context=False',
 'grid/complex-one/equals-c8': 'returned ndarray <c8 (1,) [(1+2j)] writeable=True owndata=True '
                               'has_base=False',
 'grid/complex-one/float-nan': "raised ValueError('unknown type code: nan',) cause=None "
                               'context=NoneType suppress_context=False',
 'grid/complex-one/formatted': "raised ValueError('unknown type code: FORMAT[]',) cause=None "
                               'context=NoneType suppress_context=False',
 'grid/complex-one/int': "raised ValueError('unknown type code: 1',) cause=None context=NoneType "
                         'suppress_context=False',
 'grid/complex-one/lower': "raised ValueError('unknown type code: iu2',) cause=None "
                           'context=NoneType suppress_context=False',
 'grid/complex-one/none': "raised ValueError('unknown type code: None',) cause=None "
                          'context=NoneType suppress_context=False',
 'grid/complex-one/padded': "raised ValueError('unknown type code: IU2 ',) cause=None "
                            'context=NoneType suppress_context=False',
 'grid/complex-one/str-subclass-known': 'returned ndarray <c8 (1,) [(1+2j)] writeable=True '
                                        'owndata=True has_base=False',
 'grid/complex-one/str-subclass-unknown': "raised ValueError('unknown type code: "
                                          "subclass-format',) cause=None context=NoneType "
                                          'suppress_context=False',
 'grid/complex-one/tuple': 'raised ValueError("unknown type code: (\'IU2\', \'C*8\')",) cause=None '
                           'context=NoneType suppress_context=False',
 'grid/complex-one/tuple1': 'raised ValueError("unknown type code: (\'IU2\',)",) cause=None '
                            'context=NoneType suppress_context=False',
 'grid/complex-one/unhashable-dict': 'raised TypeError("unhashable type: \'dict\'",) cause=None '
                                     'context=NoneType suppress_context=False',
 'grid/complex-one/unhashable-list': 'raised TypeError("unhashable type: \'list\'",) cause=None '
                                     'context=NoneType suppress_context=False',
 'grid/complex/C*8': 'returned ndarray <c8 (3,) [(1+2j), (-3.5+0.25j), 0j] writeable=True '
                     'owndata=True has_base=False',
 'grid/complex/F*8': "raised ValueError('unknown type code: F*8',) cause=None context=NoneType "
                     'suppress_context=False',
 'grid/complex/IU2': 'returned ndarray >u2 (12,) [16256, 0, 16384, 0, 49248, 0, 16000, 0, 0, 0, 0, '
                     '0] writeable=False owndata=False has_base=True',
 'grid/complex/bad-format': "raised RuntimeError('cannot format',) cause=None context=NoneType "
                            'suppress_context=False',
 'grid/complex/blank': "raised ValueError('unknown type code: ',) cause=None context=NoneType "
                       'suppress_context=False',
 'grid/complex/braces': "raised ValueError('unknown type code: {0!r} {} %s %d',) cause=None "
                        'context=NoneType suppress_context=False',
 'grid/complex/bytes': 'raised ValueError("unknown type code: b\'IU2\'",) cause=None '
                       'context=NoneType suppress_context=False',
 'grid/complex/equals-c8': 'returned ndarray <c8 (3,) [(1+2j), (-3.5+0.25j), 0j] writeable=True '
                           'owndata=True has_base=False',
 'grid/complex/float-nan': "raised ValueError('unknown type code: nan',) cause=None "
                           'context=NoneType suppress_context=False',
 'grid/complex/formatted': "raised ValueError('unknown type code: FORMAT[]',) cause=None "
                           'context=NoneType suppress_context=False',
 'grid/complex/int': "raised ValueError('unknown type code: 1',) cause=None context=NoneType "
                     'suppress_context=False',
 'grid/complex/lower': "raised ValueError('unknown type code: iu2',) cause=None context=NoneType "
                       'suppress_context=False',
 'grid/complex/none': "raised ValueError('unknown type code: None',) cause=None context=NoneType "
                      'suppress_context=False',
 'grid/complex/padded': "raised ValueError('unknown type code: IU2 ',) cause=None context=NoneType "
                        'suppress_context=False',
 'grid/complex/str-subclass-known': 'returned ndarray <c8 (3,) [(1+2j), (-3.5+0.25j), 0j] '
                                    'writeable=True owndata=True has_base=False',
 'grid/complex/str-subclass-unknown': "raised ValueError('unknown type code: subclass-format',) "
                                      'cause=None context=NoneType suppress_context=False',
 'grid/complex/tuple': 'raised ValueError("unknown type code: (\'IU2\', \'C*8\')",) cause=None '
                       'context=NoneType suppress_context=False',
 'grid/complex/tuple1': 'raised ValueError("unknown type code: (\'IU2\',)",) cause=None '
                        'context=NoneType suppress_context=False',
 'grid/complex/unhashable-dict': 'raised TypeError("unhashable type: \'dict\'",) cause=None '
                                 'context=NoneType suppress_context=False',
 'grid/complex/unhashable-list': 'raised TypeError("unhashable type: \'list\'",) cause=None '
                                 'context=NoneType suppress_context=False',
 'grid/empty/C*8': 'returned ndarray <c8 (0,) [] writeable=True owndata=True has_base=False',
 'grid/empty/F*8': "raised ValueError('unknown type code: F*8',) cause=None context=NoneType "
                   'suppress_context=False',
 'grid/empty/IU2': 'returned ndarray >u2 (0,) [] writeable=False owndata=False has_base=True',
 'grid/empty/bad-format': "raised RuntimeError('cannot format',) cause=None context=NoneType "
                          'suppress_context=False',
 'grid/empty/blank': "raised ValueError('unknown type code: ',) cause=None context=NoneType "
                     'suppress_context=False',
 'grid/empty/braces': "raised ValueError('unknown type code: {0!r} {} %s %d',) cause=None "
                      'context=NoneType suppress_context=False',
 'grid/empty/bytes': 'raised ValueError("unknown type code: b\'IU2\'",) cause=None '
                     'context=NoneType suppress_context=False',
 'grid/empty/equals-c8': 'returned ndarray <c8 (0,) [] writeable=True owndata=True has_base=False',
 'grid/empty/float-nan': "raised ValueError('unknown type code: nan',) cause=None context=NoneType "
                         'suppress_context=False',
 'grid/empty/formatted': "raised ValueError('unknown type code: FORMAT[]',) cause=None "
                         'context=NoneType suppress_context=False',
 'grid/empty/int': "raised ValueError('unknown type code: 1',) cause=None context=NoneType "
                   'suppress_context=False',
 'grid/empty/lower': "raised ValueError('unknown type code: iu2',) cause=None context=NoneType "
                     'suppress_context=False',
 'grid/empty/none': "raised ValueError('unknown type code: None',) cause=None context=NoneType "
                    'suppress_context=False',
 'grid/empty/padded': "raised ValueError('unknown type code: IU2 ',) cause=None context=NoneType "
                      'suppress_context=False',
 'grid/empty/str-subclass-known': 'returned ndarray <c8 (0,) [] writeable=True owndata=True '
                                  'has_base=False',
 'grid/empty/str-subclass-unknown': "raised ValueError('unknown type code: subclass-format',) "
                                    'cause=None context=NoneType suppress_context=False',
 'grid/empty/tuple': 'raised ValueError("unknown type code: (\'IU2\', \'C*8\')",) cause=None '
                     'context=NoneType suppress_context=False',
 'grid/empty/tuple1': 'raised ValueError("unknown type code: (\'IU2\',)",) cause=None '
                      'context=NoneType suppress_context=False',
 'grid/empty/unhashable-dict': 'raised TypeError("unhashable type: \'dict\'",) cause=None '
                               'context=NoneType suppress_context=False',
 'grid/empty/unhashable-list': 'raised TypeError("unhashable type: \'list\'",) cause=None '
                               'context=NoneType suppress_context=False',
 'grid/four/C*8': "raised ValueError('buffer size must be a multiple of element size',) cause=None "
                  'context=NoneType suppress_context=False',
 'grid/four/F*8': "raised ValueError('unknown type code: F*8',) cause=None context=NoneType "
                  'suppress_context=False',
 'grid/four/IU2': 'returned ndarray >u2 (2,) [1, 515] writeable=False owndata=False has_base=True',
 'grid/four/bad-format': "raised RuntimeError('cannot format',) cause=None context=NoneType "
                         'suppress_context=False',
 'grid/four/blank': "raised ValueError('unknown type code: ',) cause=None context=NoneType "
                    'suppress_context=False',
 'grid/four/braces': "raised ValueError('unknown type code: {0!r} {} %s %d',) cause=None "
                     'context=NoneType suppress_context=False',
 'grid/four/bytes': 'raised ValueError("unknown type code: b\'IU2\'",) cause=None context=NoneType '
                    'suppress_context=False',
 'grid/four/equals-c8': "raised ValueError('buffer size must be a multiple of element size',) "
                        'cause=None context=NoneType suppress_context=False',
 'grid/four/float-nan': "raised ValueError('unknown type code: nan',) cause=None context=NoneType "
                        'suppress_context=False',
 'grid/four/formatted': "raised ValueError('unknown type code: FORMAT[]',) cause=None "
                        'context=NoneType suppress_context=False',
 'grid/four/int': "raised ValueError('unknown type code: 1',) cause=None context=NoneType "
                  'suppress_context=False',
 'grid/four/lower': "raised ValueError('unknown type code: iu2',) cause=None context=NoneType "
                    'suppress_context=False',
 'grid/four/none': "raised ValueError('unknown type code: None',) cause=None context=NoneType "
                   'suppress_context=False',
 'grid/four/padded': "raised ValueError('unknown type code: IU2 ',) cause=None context=NoneType "
                     'suppress_context=False',
 'grid/four/str-subclass-known': "raised ValueError('buffer size must be a multiple of element "
                                 "size',) cause=None context=NoneType suppress_context=False",
 'grid/four/str-subclass-unknown': "raised ValueError('unknown type code: subclass-format',) "
                                   'cause=None context=NoneType suppress_context=False',
 'grid/four/tuple': 'raised ValueError("unknown type code: (\'IU2\', \'C*8\')",) cause=None '
                    'context=NoneType suppress_context=False',
 'grid/four/tuple1': 'raised ValueError("unknown type code: (\'IU2\',)",) cause=None '
                     'context=NoneType suppress_context=False',
 'grid/four/unhashable-dict': 'raised TypeError("unhashable type: \'dict\'",) cause=None '
                              'context=NoneType suppress_context=False',
 'grid/four/unhashable-list': 'raised TypeError("unhashable type: \'list\'",) cause=None '
                              'context=NoneType suppress_context=False',
 'grid/ndarray/C*8': "raised ValueError('buffer size must be a multiple of element size',) "
                     'cause=None context=NoneType suppress_context=False',
 'grid/ndarray/F*8': "raised ValueError('unknown type code: F*8',) cause=None context=NoneType "
                     'suppress_context=False',
 'grid/ndarray/IU2': 'returned ndarray >u2 (2,) [1, 515] writeable=True owndata=False '
                     'has_base=True',
 'grid/ndarray/bad-format': "raised RuntimeError('cannot format',) cause=None context=NoneType "
                            'suppress_context=False',
 'grid/ndarray/blank': "raised ValueError('unknown type code: ',) cause=None context=NoneType "
                       'suppress_context=False',
 'grid/ndarray/braces': "raised ValueError('unknown type code: {0!r} {} %s %d',) cause=None "
                        'context=NoneType suppress_context=False',
 'grid/ndarray/bytes': 'raised ValueError("unknown type code: b\'IU2\'",) cause=None '
                       'context=NoneType suppress_context=False',
 'grid/ndarray/equals-c8': "raised ValueError('buffer size must be a multiple of element size',) "
                           'cause=None context=NoneType suppress_context=False',
 'grid/ndarray/float-nan': "raised ValueError('unknown type code: nan',) cause=None "
                           'context=NoneType suppress_context=False',
 'grid/ndarray/formatted': "raised ValueError('unknown type code: FORMAT[]',) cause=None "
                           'context=NoneType suppress_context=False',
 'grid/ndarray/int': "raised ValueError('unknown type code: 1',) cause=None context=NoneType "
                     'suppress_context=False',
 'grid/ndarray/lower': "raised ValueError('unknown type code: iu2',) cause=None context=NoneType "
                       'suppress_context=False',
 'grid/ndarray/none': "raised ValueError('unknown type code: None',) cause=None context=NoneType "
                      'suppress_context=False',
 'grid/ndarray/padded': "raised ValueError('unknown type code: IU2 ',) cause=None context=NoneType "
                        'suppress_context=False',
 'grid/ndarray/str-subclass-known': "raised ValueError('buffer size must be a multiple of element "
                                    "size',) cause=None context=NoneType suppress_context=False",
 'grid/ndarray/str-subclass-unknown': "raised ValueError('unknown type code: subclass-format',) "
                                      'cause=None context=NoneType suppress_context=False',
 'grid/ndarray/tuple': 'raised ValueError("unknown type code: (\'IU2\', \'C*8\')",) cause=None '
                       'context=NoneType suppress_context=False',
 'grid/ndarray/tuple1': 'raised ValueError("unknown type code: (\'IU2\',)",) cause=None '
                        'context=NoneType suppress_context=False',
 'grid/ndarray/unhashable-dict': 'raised TypeError("unhashable type: \'dict\'",) cause=None '
                                 'context=NoneType suppress_context=False',
 'grid/ndarray/unhashable-list': 'raised TypeError("unhashable type: \'list\'",) cause=None '
                                 'context=NoneType suppress_context=False',
 'grid/none/C*8': 'raised TypeError("a bytes-like object is required, not \'NoneType\'",) '
                  'cause=None context=NoneType suppress_context=False',
 'grid/none/F*8': "raised ValueError('unknown type code: F*8',) cause=None context=NoneType "
                  'suppress_context=False',
 'grid/none/IU2': 'raised TypeError("a bytes-like object is required, not \'NoneType\'",) '
                  'cause=None context=NoneType suppress_context=False',
 'grid/none/bad-format': "raised RuntimeError('cannot format',) cause=None context=NoneType "
                         'suppress_context=False',
 'grid/none/blank': "raised ValueError('unknown type code: ',) cause=None context=NoneType "
                    'suppress_context=False',
 'grid/none/braces': "raised ValueError('unknown type code: {0!r} {} %s %d',) cause=None "
                     'context=NoneType suppress_context=False',
 'grid/none/bytes': 'raised ValueError("unknown type code: b\'IU2\'",) cause=None context=NoneType '
                    'suppress_context=False',
 'grid/none/equals-c8': 'raised TypeError("a bytes-like object is required, not \'NoneType\'",) '
                        'cause=None context=NoneType suppress_context=False',
 'grid/none/float-nan': "raised ValueError('unknown type code: nan',) cause=None context=NoneType "
                        'suppress_context=False',
 'grid/none/formatted': "raised ValueError('unknown type code: FORMAT[]',) cause=None "
                        'context=NoneType suppress_context=False',
 'grid/none/int': "raised ValueError('unknown type code: 1',) cause=None context=NoneType "
                  'suppress_context=False',
 'grid/none/lower': "raised ValueError('unknown type code: iu2',) cause=None context=NoneType "
                    'suppress_context=False',
 'grid/none/none': "raised ValueError('unknown type code: None',) cause=None context=NoneType "
                   'suppress_context=False',
 'grid/none/padded': "raised ValueError('unknown type code: IU2 ',) cause=None context=NoneType "
                     'suppress_context=False',
 'grid/none/str-subclass-known': 'raised TypeError("a bytes-like object is required, not '
                                 '\'NoneType\'",) cause=None context=NoneType '
                                 'suppress_context=False',
 'grid/none/str-subclass-unknown': "raised ValueError('unknown type code: subclass-format',) "
                                   'cause=None context=NoneType suppress_context=False',
 'grid/none/tuple': 'raised ValueError("unknown type code: (\'IU2\', \'C*8\')",) cause=None '
                    'context=NoneType suppress_context=False',
 'grid/none/tuple1': 'raised ValueError("unknown type code: (\'IU2\',)",) cause=None '
                     'context=NoneType suppress_context=False',
 'grid/none/unhashable-dict': 'raised TypeError("unhashable type: \'dict\'",) cause=None '
                              'context=NoneType suppress_context=False',
 'grid/none/unhashable-list': 'raised TypeError("unhashable type: \'list\'",) cause=None '
                              'context=NoneType suppress_context=False',
 'grid/odd-length/C*8': "raised ValueError('buffer size must be a multiple of element size',) "
                        'cause=None context=NoneType suppress_context=False',
 'grid/odd-length/F*8': "raised ValueError('unknown type code: F*8',) cause=None context=NoneType "
                        'suppress_context=False',
 'grid/odd-length/IU2': "raised ValueError('buffer size must be a multiple of element size',) "
                        'cause=None context=NoneType suppress_context=False',
 'grid/odd-length/bad-format': "raised RuntimeError('cannot format',) cause=None context=NoneType "
                               'suppress_context=False',
 'grid/odd-length/blank': "raised ValueError('unknown type code: ',) cause=None context=NoneType "
                          'suppress_context=False',
 'grid/odd-length/braces': "raised ValueError('unknown type code: {0!r} {} %s %d',) cause=None "
                           'context=NoneType suppress_context=False',
 'grid/odd-length/bytes': 'raised ValueError("unknown type code: b\'IU2\'",) cause=None '
                          'context=NoneType suppress_context=False',
 'grid/odd-length/equals-c8': "raised ValueError('buffer size must be a multiple of element "
                              "size',) cause=None context=NoneType suppress_context=False",
 'grid/odd-length/float-nan': "raised ValueError('unknown type code: nan',) cause=None "
                              'context=NoneType suppress_context=False',
 'grid/odd-length/formatted': "raised ValueError('unknown type code: FORMAT[]',) cause=None "
                              'context=NoneType suppress_context=False',
 'grid/odd-length/int': "raised ValueError('unknown type code: 1',) cause=None context=NoneType "
                        'suppress_context=False',
 'grid/odd-length/lower': "raised ValueError('unknown type code: iu2',) cause=None "
                          'context=NoneType suppress_context=False',
 'grid/odd-length/none': "raised ValueError('unknown type code: None',) cause=None "
                         'context=NoneType suppress_context=False',
 'grid/odd-length/padded': "raised ValueError('unknown type code: IU2 ',) cause=None "
                           'context=NoneType suppress_context=False',
 'grid/odd-length/str-subclass-known': "raised ValueError('buffer size must be a multiple of "
                                       "element size',) cause=None context=NoneType "
                                       'suppress_context=False',
 'grid/odd-length/str-subclass-unknown': "raised ValueError('unknown type code: subclass-format',) "
                                         'cause=None context=NoneType suppress_context=False',
 'grid/odd-length/tuple': 'raised ValueError("unknown type code: (\'IU2\', \'C*8\')",) cause=None '
                          'context=NoneType suppress_context=False',
 'grid/odd-length/tuple1': 'raised ValueError("unknown type code: (\'IU2\',)",) cause=None '
                           'context=NoneType suppress_context=False',
 'grid/odd-length/unhashable-dict': 'raised TypeError("unhashable type: \'dict\'",) cause=None '
                                    'context=NoneType suppress_context=False',
 'grid/odd-length/unhashable-list': 'raised TypeError("unhashable type: \'list\'",) cause=None '
                                    'context=NoneType suppress_context=False',
 'grid/text/C*8': 'raised TypeError("a bytes-like object is required, not \'str\'",) cause=None '
                  'context=NoneType suppress_context=False',
 'grid/text/F*8': "raised ValueError('unknown type code: F*8',) cause=None context=NoneType "
                  'suppress_context=False',
 'grid/text/IU2': 'raised TypeError("a bytes-like object is required, not \'str\'",) cause=None '
                  'context=NoneType suppress_context=False',
 'grid/text/bad-format': "raised RuntimeError('cannot format',) cause=None context=NoneType "
                         'suppress_context=False',
 'grid/text/blank': "raised ValueError('unknown type code: ',) cause=None context=NoneType "
                    'suppress_context=False',
 'grid/text/braces': "raised ValueError('unknown type code: {0!r} {} %s %d',) cause=None "
                     'context=NoneType suppress_context=False',
 'grid/text/bytes': 'raised ValueError("unknown type code: b\'IU2\'",) cause=None context=NoneType '
                    'suppress_context=False',
 'grid/text/equals-c8': 'raised TypeError("a bytes-like object is required, not \'str\'",) '
                        'cause=None context=NoneType suppress_context=False',
 'grid/text/float-nan': "raised ValueError('unknown type code: nan',) cause=None context=NoneType "
                        'suppress_context=False',
 'grid/text/formatted': "raised ValueError('unknown type code: FORMAT[]',) cause=None "
                        'context=NoneType suppress_context=False',
 'grid/text/int': "raised ValueError('unknown type code: 1',) cause=None context=NoneType "
                  'suppress_context=False',
 'grid/text/lower': "raised ValueError('unknown type code: iu2',) cause=None context=NoneType "
                    'suppress_context=False',
 'grid/text/none': "raised ValueError('unknown type code: None',) cause=None context=NoneType "
                   'suppress_context=False',
 'grid/text/padded': "raised ValueError('unknown type code: IU2 ',) cause=None context=NoneType "
                     'suppress_context=False',
 'grid/text/str-subclass-known': 'raised TypeError("a bytes-like object is required, not '
                                 '\'str\'",) cause=None context=NoneType suppress_context=False',
 'grid/text/str-subclass-unknown': "raised ValueError('unknown type code: subclass-format',) "
                                   'cause=None context=NoneType suppress_context=False',
 'grid/text/tuple': 'raised ValueError("unknown type code: (\'IU2\', \'C*8\')",) cause=None '
                    'context=NoneType suppress_context=False',
 'grid/text/tuple1': 'raised ValueError("unknown type code: (\'IU2\',)",) cause=None '
                     'context=NoneType suppress_context=False',
 'grid/text/unhashable-dict': 'raised TypeError("unhashable type: \'dict\'",) cause=None '
                              'context=NoneType suppress_context=False',
 'grid/text/unhashable-list': 'raised TypeError("unhashable type: \'list\'",) cause=None '
                              'context=NoneType suppress_context=False',
 'grid/uint-bytearray/C*8': 'returned ndarray <c8 (1,) '
                            '[(1.401298464324817e-45+2.406089719079677e-38j)] writeable=True '
                            'owndata=True has_base=False',
 'grid/uint-bytearray/F*8': "raised ValueError('unknown type code: F*8',) cause=None "
                            'context=NoneType suppress_context=False',
 'grid/uint-bytearray/IU2': 'returned ndarray >u2 (4,) [0, 1, 258, 65535] writeable=True '
                            'owndata=False has_base=True',
 'grid/uint-bytearray/bad-format': "raised RuntimeError('cannot format',) cause=None "
                                   'context=NoneType suppress_context=False',
 'grid/uint-bytearray/blank': "raised ValueError('unknown type code: ',) cause=None "
                              'context=NoneType suppress_context=False',
 'grid/uint-bytearray/braces': "raised ValueError('unknown type code: {0!r} {} %s %d',) cause=None "
                               'context=NoneType suppress_context=False',
 'grid/uint-bytearray/bytes': 'raised ValueError("unknown type code: b\'IU2\'",) cause=None '
                              'context=NoneType suppress_context=False',
 'grid/uint-bytearray/equals-c8': 'returned ndarray <c8 (1,) '
                                  '[(1.401298464324817e-45+2.406089719079677e-38j)] writeable=True '
                                  'owndata=True has_base=False',
 'grid/uint-bytearray/float-nan': "raised ValueError('unknown type code: nan',) cause=None "
                                  'context=NoneType suppress_context=False',
 'grid/uint-bytearray/formatted': "raised ValueError('unknown type code: FORMAT[]',) cause=None "
                                  'context=NoneType suppress_context=False',
 'grid/uint-bytearray/int': "raised ValueError('unknown type code: 1',) cause=None "
                            'context=NoneType suppress_context=False',
 'grid/uint-bytearray/lower': "raised ValueError('unknown type code: iu2',) cause=None "
                              'context=NoneType suppress_context=False',
 'grid/uint-bytearray/none': "raised ValueError('unknown type code: None',) cause=None "
                             'context=NoneType suppress_context=False',
 'grid/uint-bytearray/padded': "raised ValueError('unknown type code: IU2 ',) cause=None "
                               'context=NoneType suppress_context=False',
 'grid/uint-bytearray/str-subclass-known': 'returned ndarray <c8 (1,) '
                                           '[(1.401298464324817e-45+2.406089719079677e-38j)] '
                                           'writeable=True owndata=True has_base=False',
 'grid/uint-bytearray/str-subclass-unknown': "raised ValueError('unknown type code: "
                                             "subclass-format',) cause=None context=NoneType "
                                             'suppress_context=False',
 'grid/uint-bytearray/tuple': 'raised ValueError("unknown type code: (\'IU2\', \'C*8\')",) '
                              'cause=None context=NoneType suppress_context=False',
 'grid/uint-bytearray/tuple1': 'raised ValueError("unknown type code: (\'IU2\',)",) cause=None '
                               'context=NoneType suppress_context=False',
 'grid/uint-bytearray/unhashable-dict': 'raised TypeError("unhashable type: \'dict\'",) cause=None '
                                        'context=NoneType suppress_context=False',
 'grid/uint-bytearray/unhashable-list': 'raised TypeError("unhashable type: \'list\'",) cause=None '
                                        'context=NoneType suppress_context=False',
 'grid/uint-memoryview/C*8': 'returned ndarray <c8 (1,) '
                             '[(1.401298464324817e-45+2.406089719079677e-38j)] writeable=True '
                             'owndata=True has_base=False',
 'grid/uint-memoryview/F*8': "raised ValueError('unknown type code: F*8',) cause=None "
                             'context=NoneType suppress_context=False',
 'grid/uint-memoryview/IU2': 'returned ndarray >u2 (4,) [0, 1, 258, 65535] writeable=False '
                             'owndata=False has_base=True',
 'grid/uint-memoryview/bad-format': "raised RuntimeError('cannot format',) cause=None "
                                    'context=NoneType suppress_context=False',
 'grid/uint-memoryview/blank': "raised ValueError('unknown type code: ',) cause=None "
                               'context=NoneType suppress_context=False',
 'grid/uint-memoryview/braces': "raised ValueError('unknown type code: {0!r} {} %s %d',) "
                                'cause=None context=NoneType suppress_context=False',
 'grid/uint-memoryview/bytes': 'raised ValueError("unknown type code: b\'IU2\'",) cause=None '
                               'context=NoneType suppress_context=False',
 'grid/uint-memoryview/equals-c8': 'returned ndarray <c8 (1,) '
                                   '[(1.401298464324817e-45+2.406089719079677e-38j)] '
                                   'writeable=True owndata=True has_base=False',
 'grid/uint-memoryview/float-nan': "raised ValueError('unknown type code: nan',) cause=None "
                                   'context=NoneType suppress_context=False',
 'grid/uint-memoryview/formatted': "raised ValueError('unknown type code: FORMAT[]',) cause=None "
                                   'context=NoneType suppress_context=False',
 'grid/uint-memoryview/int': "raised ValueError('unknown type code: 1',) cause=None "
                             'context=NoneType suppress_context=False',
 'grid/uint-memoryview/lower': "raised ValueError('unknown type code: iu2',) cause=None "
                               'context=NoneType suppress_context=False',
 'grid/uint-memoryview/none': "raised ValueError('unknown type code: None',) cause=None "
                              'context=NoneType suppress_context=False',
 'grid/uint-memoryview/padded': "raised ValueError('unknown type code: IU2 ',) cause=None "
                                'context=NoneType suppress_context=False',
 'grid/uint-memoryview/str-subclass-known': 'returned ndarray <c8 (1,) '
                                            '[(1.401298464324817e-45+2.406089719079677e-38j)] '
                                            'writeable=True owndata=True has_base=False',
 'grid/uint-memoryview/str-subclass-unknown': "raised ValueError('unknown type code: "
                                              "subclass-format',) cause=None context=NoneType "
                                              'suppress_context=False',
 'grid/uint-memoryview/tuple': 'raised ValueError("unknown type code: (\'IU2\', \'C*8\')",) '
                               'cause=None context=NoneType suppress_context=False',
 'grid/uint-memoryview/tuple1': 'raised ValueError("unknown type code: (\'IU2\',)",) cause=None '
                                'context=NoneType suppress_context=False',
 'grid/uint-memoryview/unhashable-dict': 'raised TypeError("unhashable type: \'dict\'",) '
                                         'cause=None context=NoneType suppress_context=False',
 'grid/uint-memoryview/unhashable-list': 'raised TypeError("unhashable type: \'list\'",) '
                                         'cause=None context=NoneType suppress_context=False',
 'grid/uint-slice/C*8': "raised ValueError('buffer size must be a multiple of element size',) "
                        'cause=None context=NoneType suppress_context=False',
 'grid/uint-slice/F*8': "raised ValueError('unknown type code: F*8',) cause=None context=NoneType "
                        'suppress_context=False',
 'grid/uint-slice/IU2': 'returned ndarray >u2 (2,) [1, 258] writeable=False owndata=False '
                        'has_base=True',
 'grid/uint-slice/bad-format': "raised RuntimeError('cannot format',) cause=None context=NoneType "
                               'suppress_context=False',
 'grid/uint-slice/blank': "raised ValueError('unknown type code: ',) cause=None context=NoneType "
                          'suppress_context=False',
 'grid/uint-slice/braces': "raised ValueError('unknown type code: {0!r} {} %s %d',) cause=None "
                           'context=NoneType suppress_context=False',
 'grid/uint-slice/bytes': 'raised ValueError("unknown type code: b\'IU2\'",) cause=None '
                          'context=NoneType suppress_context=False',
 'grid/uint-slice/equals-c8': "raised ValueError('buffer size must be a multiple of element "
                              "size',) cause=None context=NoneType suppress_context=False",
 'grid/uint-slice/float-nan': "raised ValueError('unknown type code: nan',) cause=None "
                              'context=NoneType suppress_context=False',
 'grid/uint-slice/formatted': "raised ValueError('unknown type code: FORMAT[]',) cause=None "
                              'context=NoneType suppress_context=False',
 'grid/uint-slice/int': "raised ValueError('unknown type code: 1',) cause=None context=NoneType "
                        'suppress_context=False',
 'grid/uint-slice/lower': "raised ValueError('unknown type code: iu2',) cause=None "
                          'context=NoneType suppress_context=False',
 'grid/uint-slice/none': "raised ValueError('unknown type code: None',) cause=None "
                         'context=NoneType suppress_context=False',
 'grid/uint-slice/padded': "raised ValueError('unknown type code: IU2 ',) cause=None "
                           'context=NoneType suppress_context=False',
 'grid/uint-slice/str-subclass-known': "raised ValueError('buffer size must be a multiple of "
                                       "element size',) cause=None context=NoneType "
                                       'suppress_context=False',
 'grid/uint-slice/str-subclass-unknown': "raised ValueError('unknown type code: subclass-format',) "
                                         'cause=None context=NoneType suppress_context=False',
 'grid/uint-slice/tuple': 'raised ValueError("unknown type code: (\'IU2\', \'C*8\')",) cause=None '
                          'context=NoneType suppress_context=False',
 'grid/uint-slice/tuple1': 'raised ValueError("unknown type code: (\'IU2\',)",) cause=None '
                           'context=NoneType suppress_context=False',
 'grid/uint-slice/unhashable-dict': 'raised TypeError("unhashable type: \'dict\'",) cause=None '
                                    'context=NoneType suppress_context=False',
 'grid/uint-slice/unhashable-list': 'raised TypeError("unhashable type: \'list\'",) cause=None '
                                    'context=NoneType suppress_context=False',
 'grid/uint/C*8': 'returned ndarray <c8 (1,) [(1.401298464324817e-45+2.406089719079677e-38j)] '
                  'writeable=True owndata=True has_base=False',
 'grid/uint/F*8': "raised ValueError('unknown type code: F*8',) cause=None context=NoneType "
                  'suppress_context=False',
 'grid/uint/IU2': 'returned ndarray >u2 (4,) [0, 1, 258, 65535] writeable=False owndata=False '
                  'has_base=True',
 'grid/uint/bad-format': "raised RuntimeError('cannot format',) cause=None context=NoneType "
                         'suppress_context=False',
 'grid/uint/blank': "raised ValueError('unknown type code: ',) cause=None context=NoneType "
                    'suppress_context=False',
 'grid/uint/braces': "raised ValueError('unknown type code: {0!r} {} %s %d',) cause=None "
                     'context=NoneType suppress_context=False',
 'grid/uint/bytes': 'raised ValueError("unknown type code: b\'IU2\'",) cause=None context=NoneType '
                    'suppress_context=False',
 'grid/uint/equals-c8': 'returned ndarray <c8 (1,) '
                        '[(1.401298464324817e-45+2.406089719079677e-38j)] writeable=True '
                        'owndata=True has_base=False',
 'grid/uint/float-nan': "raised ValueError('unknown type code: nan',) cause=None context=NoneType "
                        'suppress_context=False',
 'grid/uint/formatted': "raised ValueError('unknown type code: FORMAT[]',) cause=None "
                        'context=NoneType suppress_context=False',
 'grid/uint/int': "raised ValueError('unknown type code: 1',) cause=None context=NoneType "
                  'suppress_context=False',
 'grid/uint/lower': "raised ValueError('unknown type code: iu2',) cause=None context=NoneType "
                    'suppress_context=False',
 'grid/uint/none': "raised ValueError('unknown type code: None',) cause=None context=NoneType "
                   'suppress_context=False',
 'grid/uint/padded': "raised ValueError('unknown type code: IU2 ',) cause=None context=NoneType "
                     'suppress_context=False',
 'grid/uint/str-subclass-known': 'returned ndarray <c8 (1,) '
                                 '[(1.401298464324817e-45+2.406089719079677e-38j)] writeable=True '
                                 'owndata=True has_base=False',
 'grid/uint/str-subclass-unknown': "raised ValueError('unknown type code: subclass-format',) "
                                   'cause=None context=NoneType suppress_context=False',
 'grid/uint/tuple': 'raised ValueError("unknown type code: (\'IU2\', \'C*8\')",) cause=None '
                    'context=NoneType suppress_context=False',
 'grid/uint/tuple1': 'raised ValueError("unknown type code: (\'IU2\',)",) cause=None '
                     'context=NoneType suppress_context=False',
 'grid/uint/unhashable-dict': 'raised TypeError("unhashable type: \'dict\'",) cause=None '
                              'context=NoneType suppress_context=False',
 'grid/uint/unhashable-list': 'raised TypeError("unhashable type: \'list\'",) cause=None '
                              'context=NoneType suppress_context=False',
 'public-names': ['raw_dtypes', 'parse_data', 'Array'],
 'table/added': 'returned ndarray |u1 (3,) [1, 2, 3] writeable=False owndata=False has_base=True',
 'table/none-entry': "raised ValueError('unknown type code: NUL',) cause=None context=NoneType "
                     'suppress_context=False',
 'table/removed': "raised ValueError('unknown type code: IU1',) cause=None context=NoneType "
                  'suppress_context=False',
 'table/replaced-c8': 'returned ndarray <c8 (1,) [(1+2j)] writeable=True owndata=True '
                      'has_base=False',
 'table/replaced-new': 'returned ndarray <i2 (2,) [1, 2] writeable=False owndata=False '
                       'has_base=True',
 'table/replaced-old': "raised ValueError('unknown type code: IU2',) cause=None context=NoneType "
                       'suppress_context=False',
 'table/restored': ['C*8', 'IU2'],
 'table/spy-calls': "[('get', 'IU2', None), ('get', 'nope', None)]",
 'table/spy-known': 'returned ndarray >u2 (4,) [0, 1, 258, 65535] writeable=False owndata=False '
                    'has_base=True',
 'table/spy-unknown': "raised ValueError('unknown type code: nope',) cause=None context=NoneType "
                      'suppress_context=False',
 'table/string-entry': 'returned ndarray >i4 (1,) [7] writeable=False owndata=False has_base=True'}


def test_equiv():
    assert EXPECTED is not None, "expected values have not been recorded"
    observed = observe()
    assert sorted(observed) == sorted(EXPECTED)
    for key in EXPECTED:
        assert observed[key] == EXPECTED[key], key


if __name__ == "__main__":
    if "--record" in sys.argv:
        print("EXPECTED = " + pprint.pformat(observe(), width=100, sort_dicts=True))
    else:
        test_equiv()
        print(f"ok: {len(EXPECTED)} observations identical ({array.__file__})")
