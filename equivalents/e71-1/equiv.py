"""Equivalence check for refactoring 1: ``ceos_alos2.sar_image.io.parse_chunk``.

Run as::

    cd /tmp/wt9/e71 && PYTHONPATH=/tmp/wt9/e71 /venv/bin/python _eq/1/equiv.py

(or through pytest). ``EXPECTED`` was recorded from the unchanged code with
``python _eq/1/equiv.py --record``; the script has to pass with and without the patch.
"""

import hashlib
import pprint
import struct
import sys

import numpy as np
from construct import Int8ub, Int16ub, Struct

import ceos_alos2.sar_image.io as sio
from ceos_alos2.utils import to_dict


# --------------------------------------------------------------------------- helpers
def describe_exception(exc):
    if exc is None:
        return None
    return {
        "type": f"{type(exc).__module__}.{type(exc).__qualname__}",
        "bases": [c.__name__ for c in type(exc).__mro__],
        "message": str(exc),
        "args": repr(exc.args),
        "cause": describe_exception(exc.__cause__),
        "context": describe_exception(exc.__context__),
        "suppress_context": exc.__suppress_context__,
    }


def compact(value):
    text = repr(value)
    if len(text) <= 400:
        return text
    return f"sha256:{hashlib.sha256(text.encode()).hexdigest()} len={len(text)}"


def outcome(func, *args, **kwargs):
    try:
        result = func(*args, **kwargs)
    except BaseException as e:  # noqa: B902
        return {"raised": describe_exception(e)}
    return {
        "returned": compact(to_dict(result)),
        "type": type(result).__name__,
        "item_types": sorted({type(item).__name__ for item in result}),
    }


def make_record(kind, seq, length, *, line=1, year=2020, day=170, ms=1234, type_code=None):
    """a data record of the real ALOS-2 layouts: ``kind`` 10 (signal) or 11 (processed)"""
    prefix = {10: 544, 11: 192}[kind]
    buf = bytearray(max(length, prefix))
    buf[0:4] = struct.pack(">I", seq)
    buf[4] = 50
    buf[5] = kind if type_code is None else type_code
    buf[6] = 18
    buf[7] = 20
    buf[8:12] = struct.pack(">I", length)
    buf[12:16] = struct.pack(">I", line)
    buf[16:20] = struct.pack(">I", 1)
    buf[24:28] = struct.pack(">I", (length - prefix) // 2 if length > prefix else 0)
    buf[36:48] = struct.pack(">III", year, day, ms)
    buf[48:50] = struct.pack(">H", 2)
    buf[52:56] = struct.pack(">HH", 0, 1)
    buf[56:60] = struct.pack(">I", 2_000_000 + seq)
    buf[60:64] = struct.pack(">I", 3)
    if kind == 10:
        buf[84:92] = struct.pack(">Q", 1_000_000 * seq + 17)
        buf[132:136] = struct.pack(">I", 35_123_456)
        buf[284:288] = struct.pack(">I", 700)
        buf[288:292] = b"aux\x00"
    else:
        buf[64:68] = struct.pack(">I", 750_000 + seq)
        buf[132:136] = struct.pack(">I", 35_123_456)
    for index in range(prefix, len(buf)):
        buf[index] = (index * 7 + seq) % 251
    return bytes(buf[:length]) if length >= prefix else bytes(buf)


dummy_record_types = {
    10: Struct("preamble" / sio.record_preamble, "a" / Int8ub, "b" / Int8ub, "c" / Int16ub),
    11: Struct("preamble" / sio.record_preamble, "x" / Int8ub, "y" / Int8ub),
}


class Swapped:
    """temporarily replace a module global, like the test-suite's monkeypatch"""

    def __init__(self, name, value):
        self.name = name
        self.value = value

    def __enter__(self):
        self.old = getattr(sio, self.name)
        setattr(sio, self.name, self.value)

    def __exit__(self, *exc_info):
        setattr(sio, self.name, self.old)
        return False


# --------------------------------------------------------------------------- cases
def real_cases():
    sig = [make_record(10, n, 600, line=n) for n in range(1, 4)]
    proc = [make_record(11, n, 240, line=n) for n in range(1, 6)]

    yield "signal-1", (sig[0], 600)
    yield "signal-3", (b"".join(sig), 600)
    yield "signal-3-bytearray", (bytearray(b"".join(sig)), 600)
    yield "signal-3-memoryview", (memoryview(b"".join(sig)), 600)
    yield "processed-1", (proc[0], 240)
    yield "processed-5", (b"".join(proc), 240)
    yield "signal-no-data", (make_record(10, 1, 544), 544)
    yield "processed-no-data", (make_record(11, 1, 192), 192)

    # size validation
    yield "empty-content", (b"", 600)
    yield "one-byte-short", (b"".join(sig)[:-1], 600)
    yield "one-byte-long", (b"".join(sig) + b"\x00", 600)
    yield "shorter-than-element", (sig[0][:100], 600)
    yield "element-size-1", (sig[0], 1)
    yield "element-size-divisor", (sig[0], 300)
    yield "element-size-zero", (sig[0], 0)
    yield "element-size-negative-divisor", (sig[0], -600)
    yield "element-size-negative", (sig[0], -7)
    yield "element-size-float", (sig[0], 600.0)
    yield "element-size-float-mismatch", (sig[0], 7.5)
    yield "element-size-nan", (sig[0], float("nan"))
    yield "element-size-none", (sig[0], None)
    yield "element-size-str", (sig[0], "600")
    yield "element-size-numpy", (sig[0], np.int64(600))
    yield "element-size-numpy-mismatch", (sig[0], np.int64(7))
    yield "element-size-bool", (sig[0], True)
    yield "content-none", (None, 600)
    yield "content-str", ("a" * 24, 12)
    yield "content-list", ([0] * 24, 12)

    # size check happens before anything is parsed
    yield "size-before-type", (make_record(10, 1, 600, type_code=77) + b"\x00", 600)
    yield "size-before-preamble", (b"\x00" * 7, 2)

    # record type lookup
    yield "type-0", (b"\x00" * 12, 2)
    yield "type-0-one-element", (b"\x00" * 12, 12)
    yield "type-77", (make_record(10, 1, 600, type_code=77), 600)
    yield "type-255", (make_record(11, 1, 240, type_code=255) * 2, 240)
    yield "type-of-first-record-only", (sig[0] + make_record(10, 2, 600, type_code=99), 600)
    yield "mixed-10-then-11", (make_record(10, 1, 600) + make_record(11, 2, 600), 600)

    # preamble too short / inconsistent with element size
    yield "short-preamble", (b"\x00\x00\x00\x01\x00\x0a", 2)
    yield "short-preamble-3", (b"\x00\x00\x00\x01\x00\x0a\x00\x00\x00", 3)
    yield "record-length-larger", (make_record(10, 1, 600)[:560], 560)
    yield "record-length-smaller", (make_record(10, 1, 560) + bytes(40), 600)
    yield "element-size-splits-records", (b"".join(sig[:2]), 400)
    yield "bad-year", (make_record(10, 1, 600, year=0), 600)
    yield "bad-year-second", (sig[0] + make_record(10, 2, 600, year=10000), 600)
    yield "truncated-signal-prefix", (make_record(10, 1, 600)[:300], 300)


def dummy_cases():
    two_signal = (
        b"\x00\x00\x00\x01\x00\x0a\x00\x00\x00\x00\x00\x10\x02\x03\x00\x1f"
        + b"\x00\x00\x00\x02\x00\x0a\x00\x00\x00\x00\x00\x10\x04\x05\x00\x2f"
    )
    two_processed = (
        b"\x00\x00\x00\x01\x00\x0b\x00\x00\x00\x00\x00\x0e\x03\x04"
        + b"\x00\x00\x00\x02\x00\x0b\x00\x00\x00\x00\x00\x0e\x04\x05"
    )
    yield "dummy-wrong-element-size", (b"\x00\x00\x00", 2)
    yield "dummy-unknown", (b"\x00" * 12, 2)
    yield "dummy-signal-2", (two_signal, 16)
    yield "dummy-processed-2", (two_processed, 14)
    yield "dummy-signal-as-8", (two_signal, 8)
    yield "dummy-signal-as-32", (two_signal, 32)
    yield "dummy-processed-as-7", (two_processed, 7)
    yield "dummy-type-12", (two_signal.replace(b"\x00\x0a", b"\x00\x0c"), 16)


def run():
    results = {}
    for name, args in real_cases():
        results[name] = outcome(sio.parse_chunk, *args)

    with Swapped("record_types", dummy_record_types):
        for name, args in dummy_cases():
            results[name] = outcome(sio.parse_chunk, *args)

    # the registry is looked up at call time (the test-suite monkeypatches it)
    with Swapped("record_types", {}):
        results["empty-registry"] = outcome(sio.parse_chunk, make_record(10, 1, 600), 600)
    with Swapped("record_types", {10: None, 11: dummy_record_types[11]}):
        results["registry-none-entry"] = outcome(sio.parse_chunk, make_record(10, 1, 600), 600)
    with Swapped("record_types", None):
        results["registry-none"] = outcome(sio.parse_chunk, make_record(10, 1, 600), 600)
        results["registry-none-size-first"] = outcome(sio.parse_chunk, b"\x00" * 3, 2)
    with Swapped("record_types", {10: [1, 2, 3]}):
        results["registry-list-entry"] = outcome(sio.parse_chunk, make_record(10, 1, 600), 600)

    # the preamble definition is a module global as well
    with Swapped("record_preamble", Struct("record_type" / Int8ub)):
        results["short-preamble-definition"] = outcome(sio.parse_chunk, b"\x0b" * 14, 14)

    # public names stay where they were
    results["names"] = sorted(
        name
        for name in (
            "parse_chunk",
            "record_types",
            "record_preamble",
            "adjust_offsets",
            "read_file_descriptor",
            "read_metadata",
            "concat",
            "to_dict",
            "itertools",
            "math",
            "signal_data_record",
            "processed_data_record",
            "file_descriptor_record",
        )
        if hasattr(sio, name)
    )
    results["registry"] = {
        key: value is getattr(sio, name)
        for (key, value), name in zip(
            sorted(sio.record_types.items()), ["signal_data_record", "processed_data_record"]
        )
    }

    return results


EXPECTED = None  # filled in below by --record


def test_equivalence():
    assert sio.__file__.startswith("/tmp/wt9/e71/"), sio.__file__
    actual = run()
    assert sorted(actual) == sorted(EXPECTED)
    for name in EXPECTED:
        assert actual[name] == EXPECTED[name], (
            f"{name}:\n{pprint.pformat(actual[name])}\n!=\n{pprint.pformat(EXPECTED[name])}"
        )


# EXPECTED-BEGIN
EXPECTED = {'bad-year': {'raised': {'args': "('year 0 is out of range',)",
                         'bases': ['ValueError', 'Exception', 'BaseException', 'object'],
                         'cause': None,
                         'context': None,
                         'message': 'year 0 is out of range',
                         'suppress_context': False,
                         'type': 'builtins.ValueError'}},
 'bad-year-second': {'raised': {'args': "('year 10000 is out of range',)",
                                'bases': ['ValueError', 'Exception', 'BaseException', 'object'],
                                'cause': None,
                                'context': None,
                                'message': 'year 10000 is out of range',
                                'suppress_context': False,
                                'type': 'builtins.ValueError'}},
 'content-list': {'raised': {'args': '("a bytes-like object is required, not \'list\'",)',
                             'bases': ['TypeError', 'Exception', 'BaseException', 'object'],
                             'cause': None,
                             'context': None,
                             'message': "a bytes-like object is required, not 'list'",
                             'suppress_context': False,
                             'type': 'builtins.TypeError'}},
 'content-none': {'raised': {'args': '("object of type \'NoneType\' has no len()",)',
                             'bases': ['TypeError', 'Exception', 'BaseException', 'object'],
                             'cause': None,
                             'context': None,
                             'message': "object of type 'NoneType' has no len()",
                             'suppress_context': False,
                             'type': 'builtins.TypeError'}},
 'content-str': {'raised': {'args': '("a bytes-like object is required, not \'str\'",)',
                            'bases': ['TypeError', 'Exception', 'BaseException', 'object'],
                            'cause': None,
                            'context': None,
                            'message': "a bytes-like object is required, not 'str'",
                            'suppress_context': False,
                            'type': 'builtins.TypeError'}},
 'dummy-processed-2': {'item_types': ['Container'],
                       'returned': "[{'preamble': {'record_sequence_number': 1, "
                                   "'first_record_subtype': 0, 'record_type': 11, "
                                   "'second_record_subtype': 0, 'third_record_subtype': 0, "
                                   "'record_length': 14}, 'x': 3, 'y': 4}, {'preamble': "
                                   "{'record_sequence_number': 2, 'first_record_subtype': 0, "
                                   "'record_type': 11, 'second_record_subtype': 0, "
                                   "'third_record_subtype': 0, 'record_length': 14}, 'x': 4, 'y': "
                                   '5}]',
                       'type': 'list'},
 'dummy-processed-as-7': {'raised': {'args': "('Error in path (parsing) -> preamble -> "
                                             'record_sequence_number\\nstream read less than '
                                             "specified amount, expected 4, found 0',)",
                                     'bases': ['StreamError',
                                               'ConstructError',
                                               'Exception',
                                               'BaseException',
                                               'object'],
                                     'cause': None,
                                     'context': None,
                                     'message': 'Error in path (parsing) -> preamble -> '
                                                'record_sequence_number\n'
                                                'stream read less than specified amount, expected '
                                                '4, found 0',
                                     'suppress_context': False,
                                     'type': 'construct.core.StreamError'}},
 'dummy-signal-2': {'item_types': ['Container'],
                    'returned': "[{'preamble': {'record_sequence_number': 1, "
                                "'first_record_subtype': 0, 'record_type': 10, "
                                "'second_record_subtype': 0, 'third_record_subtype': 0, "
                                "'record_length': 16}, 'a': 2, 'b': 3, 'c': 31}, {'preamble': "
                                "{'record_sequence_number': 2, 'first_record_subtype': 0, "
                                "'record_type': 10, 'second_record_subtype': 0, "
                                "'third_record_subtype': 0, 'record_length': 16}, 'a': 4, 'b': 5, "
                                "'c': 47}]",
                    'type': 'list'},
 'dummy-signal-as-32': {'item_types': ['Container'],
                        'returned': "[{'preamble': {'record_sequence_number': 1, "
                                    "'first_record_subtype': 0, 'record_type': 10, "
                                    "'second_record_subtype': 0, 'third_record_subtype': 0, "
                                    "'record_length': 16}, 'a': 2, 'b': 3, 'c': 31}]",
                        'type': 'list'},
 'dummy-signal-as-8': {'raised': {'args': "('Error in path (parsing) -> preamble -> "
                                          'record_sequence_number\\nstream read less than '
                                          "specified amount, expected 4, found 0',)",
                                  'bases': ['StreamError',
                                            'ConstructError',
                                            'Exception',
                                            'BaseException',
                                            'object'],
                                  'cause': None,
                                  'context': None,
                                  'message': 'Error in path (parsing) -> preamble -> '
                                             'record_sequence_number\n'
                                             'stream read less than specified amount, expected 4, '
                                             'found 0',
                                  'suppress_context': False,
                                  'type': 'construct.core.StreamError'}},
 'dummy-type-12': {'raised': {'args': "('unknown record type code: 12',)",
                              'bases': ['ValueError', 'Exception', 'BaseException', 'object'],
                              'cause': None,
                              'context': None,
                              'message': 'unknown record type code: 12',
                              'suppress_context': False,
                              'type': 'builtins.ValueError'}},
 'dummy-unknown': {'raised': {'args': "('unknown record type code: 0',)",
                              'bases': ['ValueError', 'Exception', 'BaseException', 'object'],
                              'cause': None,
                              'context': None,
                              'message': 'unknown record type code: 0',
                              'suppress_context': False,
                              'type': 'builtins.ValueError'}},
 'dummy-wrong-element-size': {'raised': {'args': "('sizes mismatch: chunksize is 2 but got 3 "
                                                 "bytes',)",
                                         'bases': ['ValueError',
                                                   'Exception',
                                                   'BaseException',
                                                   'object'],
                                         'cause': None,
                                         'context': None,
                                         'message': 'sizes mismatch: chunksize is 2 but got 3 '
                                                    'bytes',
                                         'suppress_context': False,
                                         'type': 'builtins.ValueError'}},
 'element-size-1': {'raised': {'args': "('Error in path (parsing) -> preamble -> "
                                       'record_sequence_number\\nstream read less than specified '
                                       "amount, expected 4, found 0',)",
                               'bases': ['StreamError',
                                         'ConstructError',
                                         'Exception',
                                         'BaseException',
                                         'object'],
                               'cause': None,
                               'context': None,
                               'message': 'Error in path (parsing) -> preamble -> '
                                          'record_sequence_number\n'
                                          'stream read less than specified amount, expected 4, '
                                          'found 0',
                               'suppress_context': False,
                               'type': 'construct.core.StreamError'}},
 'element-size-bool': {'raised': {'args': "('Error in path (parsing) -> preamble -> "
                                          'record_sequence_number\\nstream read less than '
                                          "specified amount, expected 4, found 0',)",
                                  'bases': ['StreamError',
                                            'ConstructError',
                                            'Exception',
                                            'BaseException',
                                            'object'],
                                  'cause': None,
                                  'context': None,
                                  'message': 'Error in path (parsing) -> preamble -> '
                                             'record_sequence_number\n'
                                             'stream read less than specified amount, expected 4, '
                                             'found 0',
                                  'suppress_context': False,
                                  'type': 'construct.core.StreamError'}},
 'element-size-divisor': {'raised': {'args': "('Error in path (parsing) -> preamble -> "
                                             'record_sequence_number\\nstream read less than '
                                             "specified amount, expected 4, found 0',)",
                                     'bases': ['StreamError',
                                               'ConstructError',
                                               'Exception',
                                               'BaseException',
                                               'object'],
                                     'cause': None,
                                     'context': None,
                                     'message': 'Error in path (parsing) -> preamble -> '
                                                'record_sequence_number\n'
                                                'stream read less than specified amount, expected '
                                                '4, found 0',
                                     'suppress_context': False,
                                     'type': 'construct.core.StreamError'}},
 'element-size-float': {'raised': {'args': "('subcon[N] syntax expects integer or context "
                                           "lambda',)",
                                   'bases': ['ConstructError',
                                             'Exception',
                                             'BaseException',
                                             'object'],
                                   'cause': None,
                                   'context': None,
                                   'message': 'subcon[N] syntax expects integer or context lambda',
                                   'suppress_context': False,
                                   'type': 'construct.core.ConstructError'}},
 'element-size-float-mismatch': {'raised': {'args': "('subcon[N] syntax expects integer or context "
                                                    "lambda',)",
                                            'bases': ['ConstructError',
                                                      'Exception',
                                                      'BaseException',
                                                      'object'],
                                            'cause': None,
                                            'context': None,
                                            'message': 'subcon[N] syntax expects integer or '
                                                       'context lambda',
                                            'suppress_context': False,
                                            'type': 'construct.core.ConstructError'}},
 'element-size-nan': {'raised': {'args': "('sizes mismatch: chunksize is nan but got 600 bytes',)",
                                 'bases': ['ValueError', 'Exception', 'BaseException', 'object'],
                                 'cause': None,
                                 'context': None,
                                 'message': 'sizes mismatch: chunksize is nan but got 600 bytes',
                                 'suppress_context': False,
                                 'type': 'builtins.ValueError'}},
 'element-size-negative': {'raised': {'args': "('sizes mismatch: chunksize is 602 but got 600 "
                                              "bytes',)",
                                      'bases': ['ValueError',
                                                'Exception',
                                                'BaseException',
                                                'object'],
                                      'cause': None,
                                      'context': None,
                                      'message': 'sizes mismatch: chunksize is 602 but got 600 '
                                                 'bytes',
                                      'suppress_context': False,
                                      'type': 'builtins.ValueError'}},
 'element-size-negative-divisor': {'raised': {'args': "('Error in path (parsing)\\ninvalid count "
                                                      "-1',)",
                                              'bases': ['RangeError',
                                                        'ConstructError',
                                                        'Exception',
                                                        'BaseException',
                                                        'object'],
                                              'cause': None,
                                              'context': None,
                                              'message': 'Error in path (parsing)\n'
                                                         'invalid count -1',
                                              'suppress_context': False,
                                              'type': 'construct.core.RangeError'}},
 'element-size-none': {'raised': {'args': '("unsupported operand type(s) for //: \'int\' and '
                                          '\'NoneType\'",)',
                                  'bases': ['TypeError', 'Exception', 'BaseException', 'object'],
                                  'cause': None,
                                  'context': None,
                                  'message': "unsupported operand type(s) for //: 'int' and "
                                             "'NoneType'",
                                  'suppress_context': False,
                                  'type': 'builtins.TypeError'}},
 'element-size-numpy': {'raised': {'args': "('subcon[N] syntax expects integer or context "
                                           "lambda',)",
                                   'bases': ['ConstructError',
                                             'Exception',
                                             'BaseException',
                                             'object'],
                                   'cause': None,
                                   'context': None,
                                   'message': 'subcon[N] syntax expects integer or context lambda',
                                   'suppress_context': False,
                                   'type': 'construct.core.ConstructError'}},
 'element-size-numpy-mismatch': {'raised': {'args': "('sizes mismatch: chunksize is 595 but got "
                                                    "600 bytes',)",
                                            'bases': ['ValueError',
                                                      'Exception',
                                                      'BaseException',
                                                      'object'],
                                            'cause': None,
                                            'context': None,
                                            'message': 'sizes mismatch: chunksize is 595 but got '
                                                       '600 bytes',
                                            'suppress_context': False,
                                            'type': 'builtins.ValueError'}},
 'element-size-splits-records': {'raised': {'args': "('Error in path (parsing) -> preamble -> "
                                                    'record_sequence_number\\nstream read less '
                                                    "than specified amount, expected 4, found 0',)",
                                            'bases': ['StreamError',
                                                      'ConstructError',
                                                      'Exception',
                                                      'BaseException',
                                                      'object'],
                                            'cause': None,
                                            'context': None,
                                            'message': 'Error in path (parsing) -> preamble -> '
                                                       'record_sequence_number\n'
                                                       'stream read less than specified amount, '
                                                       'expected 4, found 0',
                                            'suppress_context': False,
                                            'type': 'construct.core.StreamError'}},
 'element-size-str': {'raised': {'args': '("unsupported operand type(s) for //: \'int\' and '
                                         '\'str\'",)',
                                 'bases': ['TypeError', 'Exception', 'BaseException', 'object'],
                                 'cause': None,
                                 'context': None,
                                 'message': "unsupported operand type(s) for //: 'int' and 'str'",
                                 'suppress_context': False,
                                 'type': 'builtins.TypeError'}},
 'element-size-zero': {'raised': {'args': "('integer division or modulo by zero',)",
                                  'bases': ['ZeroDivisionError',
                                            'ArithmeticError',
                                            'Exception',
                                            'BaseException',
                                            'object'],
                                  'cause': None,
                                  'context': None,
                                  'message': 'integer division or modulo by zero',
                                  'suppress_context': False,
                                  'type': 'builtins.ZeroDivisionError'}},
 'empty-content': {'raised': {'args': "('Error in path (parsing) -> "
                                      'record_sequence_number\\nstream read less than specified '
                                      "amount, expected 4, found 0',)",
                              'bases': ['StreamError',
                                        'ConstructError',
                                        'Exception',
                                        'BaseException',
                                        'object'],
                              'cause': None,
                              'context': None,
                              'message': 'Error in path (parsing) -> record_sequence_number\n'
                                         'stream read less than specified amount, expected 4, '
                                         'found 0',
                              'suppress_context': False,
                              'type': 'construct.core.StreamError'}},
 'empty-registry': {'raised': {'args': "('unknown record type code: 10',)",
                               'bases': ['ValueError', 'Exception', 'BaseException', 'object'],
                               'cause': None,
                               'context': None,
                               'message': 'unknown record type code: 10',
                               'suppress_context': False,
                               'type': 'builtins.ValueError'}},
 'mixed-10-then-11': {'item_types': ['Container'],
                      'returned': 'sha256:d818b908fd94817b2719b5823a35b53598c93a680ec7c075046ad65b5d164f1d '
                                  'len=6281',
                      'type': 'list'},
 'names': ['adjust_offsets',
           'concat',
           'file_descriptor_record',
           'itertools',
           'math',
           'parse_chunk',
           'processed_data_record',
           'read_file_descriptor',
           'read_metadata',
           'record_preamble',
           'record_types',
           'signal_data_record',
           'to_dict'],
 'one-byte-long': {'raised': {'args': "('sizes mismatch: chunksize is 1800 but got 1801 bytes',)",
                              'bases': ['ValueError', 'Exception', 'BaseException', 'object'],
                              'cause': None,
                              'context': None,
                              'message': 'sizes mismatch: chunksize is 1800 but got 1801 bytes',
                              'suppress_context': False,
                              'type': 'builtins.ValueError'}},
 'one-byte-short': {'raised': {'args': "('sizes mismatch: chunksize is 1200 but got 1799 bytes',)",
                               'bases': ['ValueError', 'Exception', 'BaseException', 'object'],
                               'cause': None,
                               'context': None,
                               'message': 'sizes mismatch: chunksize is 1200 but got 1799 bytes',
                               'suppress_context': False,
                               'type': 'builtins.ValueError'}},
 'processed-1': {'item_types': ['Container'],
                 'returned': 'sha256:103175199f0bd946a783518f4c27d873ffd8601a7f767ed5025551eb59a65760 '
                             'len=2018',
                 'type': 'list'},
 'processed-5': {'item_types': ['Container'],
                 'returned': 'sha256:58fc09ac0f8e91badf4be8f2ff9ec1987a07596cc812b148481f69f369f69ba6 '
                             'len=10100',
                 'type': 'list'},
 'processed-no-data': {'item_types': ['Container'],
                       'returned': 'sha256:bca7ba21e12b6b26c4dce5c7ea8450ec44259022188fc456237dc58da403a18a '
                                   'len=2016',
                       'type': 'list'},
 'record-length-larger': {'item_types': ['Container'],
                          'returned': 'sha256:409f76517a2c43e64c06c0cb0c8cb9be37e4b78c1f3e8af5e41b087ab90d6c17 '
                                      'len=2652',
                          'type': 'list'},
 'record-length-smaller': {'item_types': ['Container'],
                           'returned': 'sha256:75d7c904fde70ab9e1e3c2498cb0f904550085fc83677ea12d56f5b8b136f3d5 '
                                       'len=2651',
                           'type': 'list'},
 'registry': {10: True, 11: True},
 'registry-list-entry': {'raised': {'args': '("\'int\' object has no attribute \'parse\'",)',
                                    'bases': ['AttributeError',
                                              'Exception',
                                              'BaseException',
                                              'object'],
                                    'cause': None,
                                    'context': None,
                                    'message': "'int' object has no attribute 'parse'",
                                    'suppress_context': False,
                                    'type': 'builtins.AttributeError'}},
 'registry-none': {'raised': {'args': '("\'NoneType\' object has no attribute \'get\'",)',
                              'bases': ['AttributeError', 'Exception', 'BaseException', 'object'],
                              'cause': None,
                              'context': None,
                              'message': "'NoneType' object has no attribute 'get'",
                              'suppress_context': False,
                              'type': 'builtins.AttributeError'}},
 'registry-none-entry': {'raised': {'args': "('unknown record type code: 10',)",
                                    'bases': ['ValueError', 'Exception', 'BaseException', 'object'],
                                    'cause': None,
                                    'context': None,
                                    'message': 'unknown record type code: 10',
                                    'suppress_context': False,
                                    'type': 'builtins.ValueError'}},
 'registry-none-size-first': {'raised': {'args': "('sizes mismatch: chunksize is 2 but got 3 "
                                                 "bytes',)",
                                         'bases': ['ValueError',
                                                   'Exception',
                                                   'BaseException',
                                                   'object'],
                                         'cause': None,
                                         'context': None,
                                         'message': 'sizes mismatch: chunksize is 2 but got 3 '
                                                    'bytes',
                                         'suppress_context': False,
                                         'type': 'builtins.ValueError'}},
 'short-preamble': {'raised': {'args': "('Error in path (parsing) -> "
                                       'second_record_subtype\\nstream read less than specified '
                                       "amount, expected 1, found 0',)",
                               'bases': ['StreamError',
                                         'ConstructError',
                                         'Exception',
                                         'BaseException',
                                         'object'],
                               'cause': None,
                               'context': None,
                               'message': 'Error in path (parsing) -> second_record_subtype\n'
                                          'stream read less than specified amount, expected 1, '
                                          'found 0',
                               'suppress_context': False,
                               'type': 'construct.core.StreamError'}},
 'short-preamble-3': {'raised': {'args': "('Error in path (parsing) -> record_length\\nstream read "
                                         "less than specified amount, expected 4, found 1',)",
                                 'bases': ['StreamError',
                                           'ConstructError',
                                           'Exception',
                                           'BaseException',
                                           'object'],
                                 'cause': None,
                                 'context': None,
                                 'message': 'Error in path (parsing) -> record_length\n'
                                            'stream read less than specified amount, expected 4, '
                                            'found 1',
                                 'suppress_context': False,
                                 'type': 'construct.core.StreamError'}},
 'short-preamble-definition': {'raised': {'args': "('Error in path (parsing) -> "
                                                  'sar_image_data_line_number\\nstream read less '
                                                  "than specified amount, expected 4, found 2',)",
                                          'bases': ['StreamError',
                                                    'ConstructError',
                                                    'Exception',
                                                    'BaseException',
                                                    'object'],
                                          'cause': None,
                                          'context': None,
                                          'message': 'Error in path (parsing) -> '
                                                     'sar_image_data_line_number\n'
                                                     'stream read less than specified amount, '
                                                     'expected 4, found 2',
                                          'suppress_context': False,
                                          'type': 'construct.core.StreamError'}},
 'shorter-than-element': {'raised': {'args': "('sizes mismatch: chunksize is 0 but got 100 "
                                             "bytes',)",
                                     'bases': ['ValueError',
                                               'Exception',
                                               'BaseException',
                                               'object'],
                                     'cause': None,
                                     'context': None,
                                     'message': 'sizes mismatch: chunksize is 0 but got 100 bytes',
                                     'suppress_context': False,
                                     'type': 'builtins.ValueError'}},
 'signal-1': {'item_types': ['Container'],
              'returned': 'sha256:409f76517a2c43e64c06c0cb0c8cb9be37e4b78c1f3e8af5e41b087ab90d6c17 '
                          'len=2652',
              'type': 'list'},
 'signal-3': {'item_types': ['Container'],
              'returned': 'sha256:014b3b44ac4a0a66684b52fc840ebb8f4571592f4db0c8d4bc9a52fd5f9241d0 '
                          'len=7965',
              'type': 'list'},
 'signal-3-bytearray': {'item_types': ['Container'],
                        'returned': 'sha256:014b3b44ac4a0a66684b52fc840ebb8f4571592f4db0c8d4bc9a52fd5f9241d0 '
                                    'len=7965',
                        'type': 'list'},
 'signal-3-memoryview': {'item_types': ['Container'],
                         'returned': 'sha256:014b3b44ac4a0a66684b52fc840ebb8f4571592f4db0c8d4bc9a52fd5f9241d0 '
                                     'len=7965',
                         'type': 'list'},
 'signal-no-data': {'item_types': ['Container'],
                    'returned': 'sha256:b3fa23fe4fc788ded2e022613ab257e0235698768dffd6a85aa712f4745cff4e '
                                'len=2650',
                    'type': 'list'},
 'size-before-preamble': {'raised': {'args': "('sizes mismatch: chunksize is 6 but got 7 bytes',)",
                                     'bases': ['ValueError',
                                               'Exception',
                                               'BaseException',
                                               'object'],
                                     'cause': None,
                                     'context': None,
                                     'message': 'sizes mismatch: chunksize is 6 but got 7 bytes',
                                     'suppress_context': False,
                                     'type': 'builtins.ValueError'}},
 'size-before-type': {'raised': {'args': "('sizes mismatch: chunksize is 600 but got 601 bytes',)",
                                 'bases': ['ValueError', 'Exception', 'BaseException', 'object'],
                                 'cause': None,
                                 'context': None,
                                 'message': 'sizes mismatch: chunksize is 600 but got 601 bytes',
                                 'suppress_context': False,
                                 'type': 'builtins.ValueError'}},
 'truncated-signal-prefix': {'raised': {'args': "('Error in path (parsing) -> "
                                                'palsar_auxiliary_data\\nstream read less than '
                                                "specified amount, expected 256, found 12',)",
                                        'bases': ['StreamError',
                                                  'ConstructError',
                                                  'Exception',
                                                  'BaseException',
                                                  'object'],
                                        'cause': None,
                                        'context': None,
                                        'message': 'Error in path (parsing) -> '
                                                   'palsar_auxiliary_data\n'
                                                   'stream read less than specified amount, '
                                                   'expected 256, found 12',
                                        'suppress_context': False,
                                        'type': 'construct.core.StreamError'}},
 'type-0': {'raised': {'args': "('unknown record type code: 0',)",
                       'bases': ['ValueError', 'Exception', 'BaseException', 'object'],
                       'cause': None,
                       'context': None,
                       'message': 'unknown record type code: 0',
                       'suppress_context': False,
                       'type': 'builtins.ValueError'}},
 'type-0-one-element': {'raised': {'args': "('unknown record type code: 0',)",
                                   'bases': ['ValueError', 'Exception', 'BaseException', 'object'],
                                   'cause': None,
                                   'context': None,
                                   'message': 'unknown record type code: 0',
                                   'suppress_context': False,
                                   'type': 'builtins.ValueError'}},
 'type-255': {'raised': {'args': "('unknown record type code: 255',)",
                         'bases': ['ValueError', 'Exception', 'BaseException', 'object'],
                         'cause': None,
                         'context': None,
                         'message': 'unknown record type code: 255',
                         'suppress_context': False,
                         'type': 'builtins.ValueError'}},
 'type-77': {'raised': {'args': "('unknown record type code: 77',)",
                        'bases': ['ValueError', 'Exception', 'BaseException', 'object'],
                        'cause': None,
                        'context': None,
                        'message': 'unknown record type code: 77',
                        'suppress_context': False,
                        'type': 'builtins.ValueError'}},
 'type-of-first-record-only': {'item_types': ['Container'],
                               'returned': 'sha256:ff2768f5ad09a9bc906436e6b8cae4975e0fb08d6615051f23365e99123f11b7 '
                                           'len=5308',
                               'type': 'list'}}
# EXPECTED-END

if __name__ == "__main__":
    if "--record" in sys.argv:
        source = open(__file__).read()
        head, rest = source.split("# EXPECTED-BEGIN\n", 1)
        _, tail = rest.split("# EXPECTED-END\n", 1)
        body = "EXPECTED = " + pprint.pformat(run(), width=100, sort_dicts=True) + "\n"
        open(__file__, "w").write(head + "# EXPECTED-BEGIN\n" + body + "# EXPECTED-END\n" + tail)
        print("recorded")
    else:
        test_equivalence()
        print(f"OK: {len(EXPECTED)} cases identical")
