"""Equivalence check for refactoring 3 (``ceos_alos2.xarray.extract_encoding``).

Run as ``python equiv.py`` (or through pytest).  ``python equiv.py --record``
prints the observations as JSON; the ``EXPECTED`` literal at the bottom has been
recorded that way from the UNCHANGED code at HEAD.

Cases: real ``hierarchy.Variable`` objects (numpy backed and ``Array`` backed, with the
chunk size normalised by ``Array`` and with chunk sizes forced to ``None`` / ``-1``
afterwards), duck-typed variables with arbitrary ``chunks`` / ``sizes`` mappings, and the
encoding of the ``xarray.Variable`` built by ``to_variable``.
"""

import json
import sys
import warnings
from types import SimpleNamespace

import numpy as np

from ceos_alos2 import xarray as xarray_module
from ceos_alos2.array import Array
from ceos_alos2.hierarchy import Variable


def show(value):
    if isinstance(value, dict):
        # insertion order matters: keep it
        return ["dict", *([show(k), show(v)] for k, v in value.items())]
    if isinstance(value, (list, tuple)):
        return [type(value).__name__, *map(show, value)]
    return f"{type(value).__qualname__}:{value!r}"


def describe_error(e):
    return {
        "error": type(e).__name__,
        "message": str(e),
        "cause": type(e.__cause__).__name__ if e.__cause__ is not None else None,
        "context": type(e.__context__).__name__ if e.__context__ is not None else None,
    }


def observe(var):
    try:
        result = xarray_module.extract_encoding(var)
    except BaseException as e:  # noqa: B902
        return describe_error(e)

    observation = {"ok": show(result)}
    # a fresh dict on every call, not an alias of anything owned by `var`
    again = xarray_module.extract_encoding(var)
    observation["fresh"] = again is not result and again == result
    inner = result.get("preferred_chunksizes")
    if inner is not None:
        observation["inner-fresh"] = inner is not again["preferred_chunksizes"]
        chunks = getattr(var, "chunks", None)
        sizes = getattr(var, "sizes", None)
        observation["inner-is-chunks"] = inner is chunks
        observation["inner-is-sizes"] = inner is sizes
    return observation


class FS:
    pass


def make_array(shape, records_per_chunk, n_ranges=None):
    n_ranges = shape[0] if n_ranges is None else n_ranges
    byte_ranges = [(i * 50 + 10, (i + 1) * 50) for i in range(n_ranges)]
    return Array(
        fs=FS(),
        url="image",
        byte_ranges=byte_ranges,
        shape=shape,
        dtype="uint16",
        type_code="IU2",
        records_per_chunk=records_per_chunk,
    )


class LazySizes:
    """duck-typed variable: `sizes` does not exist unless `has_sizes`"""

    def __init__(self, chunks, sizes=None, has_sizes=True):
        self.chunks = chunks
        if has_sizes:
            self.sizes = sizes


class MappingLike:
    """not a dict: only what `extract_encoding` needs"""

    def __init__(self, mapping):
        self._mapping = mapping

    def items(self):
        return self._mapping.items()

    def values(self):
        return self._mapping.values()


def duck_cases():
    sizes = {"x": 4, "y": 5, "z": 6}
    chunk_sets = {
        "empty": {},
        "all-none": {"x": None, "y": None},
        "one-none": {"x": None},
        "all-int": {"x": 2, "y": 3},
        "first-none": {"x": None, "y": 3},
        "last-none": {"x": 2, "y": None},
        "first--1": {"x": -1, "y": 3},
        "last--1": {"x": 2, "y": -1},
        "all--1": {"x": -1, "y": -1, "z": -1},
        "none-and--1": {"z": None, "x": -1, "y": 2},
        "reordered": {"z": 1, "y": None, "x": 2},
        "zero": {"x": 0, "y": None},
        "bigger-than-size": {"x": 100, "y": -1},
        "other-negative": {"x": -2, "y": None},
        "float--1": {"x": -1.0, "y": 2},
        "np--1": {"x": np.int64(-1), "y": np.int64(2)},
        "true": {"x": True, "y": None},
        "str": {"x": "auto", "y": None},
        "tuple-chunks": {"x": (2, 2), "y": None},
        "int-dims": {0: None, 1: 2},
        "unknown-dim": {"w": 2, "x": None},
        "unknown-dim-none": {"x": 2, "w": None},
        "unknown-dim--1-first": {"w": -1, "x": None},
    }
    for name, chunks in chunk_sets.items():
        yield f"duck|{name}|sizes", LazySizes(dict(chunks), dict(sizes))
        yield f"duck|{name}|no-sizes", LazySizes(dict(chunks), has_sizes=False)
        yield f"duck|{name}|sizes-none", LazySizes(dict(chunks), None)
        yield f"duck|{name}|sizes-list", LazySizes(dict(chunks), [7, 8, 9])
        yield f"duck|{name}|mapping-like", LazySizes(MappingLike(dict(chunks)), dict(sizes))
        yield f"duck|{name}|namespace", SimpleNamespace(chunks=dict(chunks), sizes=dict(sizes))

    yield "duck|chunks-none", LazySizes(None, dict(sizes))
    yield "duck|chunks-list", LazySizes([1, 2], dict(sizes))
    yield "duck|no-chunks", SimpleNamespace(sizes=dict(sizes))
    yield "duck|not-a-var", 3
    yield "duck|none", None


def variable_cases():
    yield "var|numpy-1d", Variable("x", np.array([1], dtype="int8"), {})
    yield "var|numpy-2d", Variable(["x", "y"], np.zeros((2, 3)), {"a": 1})
    yield "var|numpy-0d", Variable([], np.array(1), {})
    yield "var|list-data", Variable("x", [1, 2, 3], {})

    for shape, dims in (((4,), "x"), ((4,), ["x"]), ((4, 3), ["a", "b"]), ((6, 2, 5), ["t", "y", "x"])):
        for rpc in (None, -1, 1, 2, 3, 4, 100, "auto", "80B", "1kB"):
            yield f"var|array-{shape}-{dims}|rpc={rpc}", Variable(dims, make_array(shape, rpc), {})

        # chunk sizes that bypassed the normalisation in `Array.__post_init__`
        for forced in (None, -1, 0, -2, 2.0, np.int64(-1)):
            arr = make_array(shape, 2)
            arr.records_per_chunk = forced
            yield f"var|array-{shape}-{dims}|forced={forced!r}", Variable(dims, arr, {})

    # trailing dimensions of unknown size
    for shape in ((4, -1), (4, None), (-1, 3), (None, None)):
        arr = make_array((4, 3), 2)
        arr.shape = shape
        yield f"var|array-shape={shape}", Variable(["a", "b"], arr, {})
        arr = make_array((4, 3), 2)
        arr.shape = shape
        arr.records_per_chunk = None
        yield f"var|array-shape={shape}|forced=None", Variable(["a", "b"], arr, {})

    # mismatching numbers of dims
    yield "var|too-few-dims", Variable(["a"], make_array((4, 3), 2), {})
    yield "var|too-many-dims", Variable(["a", "b", "c"], make_array((4, 3), 2), {})
    arr = make_array((4, 3), 2)
    arr.records_per_chunk = None
    yield "var|too-many-dims|forced=None", Variable(["a", "b", "c"], arr, {})
    yield "var|duplicate-dims", Variable(["a", "a"], make_array((4, 3), 2), {})
    arr = make_array((4, 3), 2)
    arr.records_per_chunk = -1
    yield "var|duplicate-dims|forced=-1", Variable(["a", "a"], arr, {})


def collect():
    warnings.filterwarnings("ignore", message="Duplicate dimension names")

    observations = {}
    for key, var in (*duck_cases(), *variable_cases()):
        assert key not in observations, key
        observations[key] = observe(var)

    # through `to_variable`: the encoding ends up on the xarray variable
    for key, var in variable_cases():
        try:
            converted = xarray_module.to_variable(var)
        except BaseException as e:  # noqa: B902
            observations[f"to_variable|{key}"] = describe_error(e)
        else:
            observations[f"to_variable|{key}"] = {
                "encoding": show(converted.encoding),
                "dims": show(converted.dims),
                "shape": show(converted.shape),
            }

    # the arguments are not modified
    chunks = {"x": None, "y": -1, "z": 3}
    sizes = {"x": 4, "y": 5, "z": 6}
    var = LazySizes(chunks, sizes)
    result = xarray_module.extract_encoding(var)
    observations["no-mutation"] = {
        "chunks": show(chunks),
        "sizes": show(sizes),
        "result": show(result),
        "attrs": sorted(vars(var)),
    }

    return json.loads(json.dumps(observations))


def test_equivalence():
    observations = collect()
    assert sorted(observations) == sorted(EXPECTED)
    for key, value in observations.items():
        assert value == EXPECTED[key], (key, value, EXPECTED[key])


# recorded from the unchanged code
EXPECTED = json.loads(
    r"""
{
"duck|all--1|mapping-like": {"fresh": true, "inner-fresh": true, "inner-is-chunks": false, "inner-is-sizes": false, "ok": ["dict", ["str:'preferred_chunksizes'", ["dict", ["str:'x'", "int:4"], ["str:'y'", "int:5"], ["str:'z'", "int:6"]]]]},
"duck|all--1|namespace": {"fresh": true, "inner-fresh": true, "inner-is-chunks": false, "inner-is-sizes": false, "ok": ["dict", ["str:'preferred_chunksizes'", ["dict", ["str:'x'", "int:4"], ["str:'y'", "int:5"], ["str:'z'", "int:6"]]]]},
"duck|all--1|no-sizes": {"cause": null, "context": null, "error": "AttributeError", "message": "'LazySizes' object has no attribute 'sizes'"},
"duck|all--1|sizes": {"fresh": true, "inner-fresh": true, "inner-is-chunks": false, "inner-is-sizes": false, "ok": ["dict", ["str:'preferred_chunksizes'", ["dict", ["str:'x'", "int:4"], ["str:'y'", "int:5"], ["str:'z'", "int:6"]]]]},
"duck|all--1|sizes-list": {"cause": null, "context": null, "error": "TypeError", "message": "list indices must be integers or slices, not str"},
"duck|all--1|sizes-none": {"cause": null, "context": null, "error": "TypeError", "message": "'NoneType' object is not subscriptable"},
"duck|all-int|mapping-like": {"fresh": true, "inner-fresh": true, "inner-is-chunks": false, "inner-is-sizes": false, "ok": ["dict", ["str:'preferred_chunksizes'", ["dict", ["str:'x'", "int:2"], ["str:'y'", "int:3"]]]]},
"duck|all-int|namespace": {"fresh": true, "inner-fresh": true, "inner-is-chunks": false, "inner-is-sizes": false, "ok": ["dict", ["str:'preferred_chunksizes'", ["dict", ["str:'x'", "int:2"], ["str:'y'", "int:3"]]]]},
"duck|all-int|no-sizes": {"fresh": true, "inner-fresh": true, "inner-is-chunks": false, "inner-is-sizes": false, "ok": ["dict", ["str:'preferred_chunksizes'", ["dict", ["str:'x'", "int:2"], ["str:'y'", "int:3"]]]]},
"duck|all-int|sizes": {"fresh": true, "inner-fresh": true, "inner-is-chunks": false, "inner-is-sizes": false, "ok": ["dict", ["str:'preferred_chunksizes'", ["dict", ["str:'x'", "int:2"], ["str:'y'", "int:3"]]]]},
"duck|all-int|sizes-list": {"fresh": true, "inner-fresh": true, "inner-is-chunks": false, "inner-is-sizes": false, "ok": ["dict", ["str:'preferred_chunksizes'", ["dict", ["str:'x'", "int:2"], ["str:'y'", "int:3"]]]]},
"duck|all-int|sizes-none": {"fresh": true, "inner-fresh": true, "inner-is-chunks": false, "inner-is-sizes": false, "ok": ["dict", ["str:'preferred_chunksizes'", ["dict", ["str:'x'", "int:2"], ["str:'y'", "int:3"]]]]},
"duck|all-none|mapping-like": {"fresh": true, "ok": ["dict"]},
"duck|all-none|namespace": {"fresh": true, "ok": ["dict"]},
"duck|all-none|no-sizes": {"fresh": true, "ok": ["dict"]},
"duck|all-none|sizes": {"fresh": true, "ok": ["dict"]},
"duck|all-none|sizes-list": {"fresh": true, "ok": ["dict"]},
"duck|all-none|sizes-none": {"fresh": true, "ok": ["dict"]},
"duck|bigger-than-size|mapping-like": {"fresh": true, "inner-fresh": true, "inner-is-chunks": false, "inner-is-sizes": false, "ok": ["dict", ["str:'preferred_chunksizes'", ["dict", ["str:'x'", "int:100"], ["str:'y'", "int:5"]]]]},
"duck|bigger-than-size|namespace": {"fresh": true, "inner-fresh": true, "inner-is-chunks": false, "inner-is-sizes": false, "ok": ["dict", ["str:'preferred_chunksizes'", ["dict", ["str:'x'", "int:100"], ["str:'y'", "int:5"]]]]},
"duck|bigger-than-size|no-sizes": {"cause": null, "context": null, "error": "AttributeError", "message": "'LazySizes' object has no attribute 'sizes'"},
"duck|bigger-than-size|sizes": {"fresh": true, "inner-fresh": true, "inner-is-chunks": false, "inner-is-sizes": false, "ok": ["dict", ["str:'preferred_chunksizes'", ["dict", ["str:'x'", "int:100"], ["str:'y'", "int:5"]]]]},
"duck|bigger-than-size|sizes-list": {"cause": null, "context": null, "error": "TypeError", "message": "list indices must be integers or slices, not str"},
"duck|bigger-than-size|sizes-none": {"cause": null, "context": null, "error": "TypeError", "message": "'NoneType' object is not subscriptable"},
"duck|chunks-list": {"cause": null, "context": null, "error": "AttributeError", "message": "'list' object has no attribute 'values'"},
"duck|chunks-none": {"cause": null, "context": null, "error": "AttributeError", "message": "'NoneType' object has no attribute 'values'"},
"duck|empty|mapping-like": {"fresh": true, "ok": ["dict"]},
"duck|empty|namespace": {"fresh": true, "ok": ["dict"]},
"duck|empty|no-sizes": {"fresh": true, "ok": ["dict"]},
"duck|empty|sizes": {"fresh": true, "ok": ["dict"]},
"duck|empty|sizes-list": {"fresh": true, "ok": ["dict"]},
"duck|empty|sizes-none": {"fresh": true, "ok": ["dict"]},
"duck|first--1|mapping-like": {"fresh": true, "inner-fresh": true, "inner-is-chunks": false, "inner-is-sizes": false, "ok": ["dict", ["str:'preferred_chunksizes'", ["dict", ["str:'x'", "int:4"], ["str:'y'", "int:3"]]]]},
"duck|first--1|namespace": {"fresh": true, "inner-fresh": true, "inner-is-chunks": false, "inner-is-sizes": false, "ok": ["dict", ["str:'preferred_chunksizes'", ["dict", ["str:'x'", "int:4"], ["str:'y'", "int:3"]]]]},
"duck|first--1|no-sizes": {"cause": null, "context": null, "error": "AttributeError", "message": "'LazySizes' object has no attribute 'sizes'"},
"duck|first--1|sizes": {"fresh": true, "inner-fresh": true, "inner-is-chunks": false, "inner-is-sizes": false, "ok": ["dict", ["str:'preferred_chunksizes'", ["dict", ["str:'x'", "int:4"], ["str:'y'", "int:3"]]]]},
"duck|first--1|sizes-list": {"cause": null, "context": null, "error": "TypeError", "message": "list indices must be integers or slices, not str"},
"duck|first--1|sizes-none": {"cause": null, "context": null, "error": "TypeError", "message": "'NoneType' object is not subscriptable"},
"duck|first-none|mapping-like": {"fresh": true, "inner-fresh": true, "inner-is-chunks": false, "inner-is-sizes": false, "ok": ["dict", ["str:'preferred_chunksizes'", ["dict", ["str:'x'", "int:4"], ["str:'y'", "int:3"]]]]},
"duck|first-none|namespace": {"fresh": true, "inner-fresh": true, "inner-is-chunks": false, "inner-is-sizes": false, "ok": ["dict", ["str:'preferred_chunksizes'", ["dict", ["str:'x'", "int:4"], ["str:'y'", "int:3"]]]]},
"duck|first-none|no-sizes": {"cause": null, "context": null, "error": "AttributeError", "message": "'LazySizes' object has no attribute 'sizes'"},
"duck|first-none|sizes": {"fresh": true, "inner-fresh": true, "inner-is-chunks": false, "inner-is-sizes": false, "ok": ["dict", ["str:'preferred_chunksizes'", ["dict", ["str:'x'", "int:4"], ["str:'y'", "int:3"]]]]},
"duck|first-none|sizes-list": {"cause": null, "context": null, "error": "TypeError", "message": "list indices must be integers or slices, not str"},
"duck|first-none|sizes-none": {"cause": null, "context": null, "error": "TypeError", "message": "'NoneType' object is not subscriptable"},
"duck|float--1|mapping-like": {"fresh": true, "inner-fresh": true, "inner-is-chunks": false, "inner-is-sizes": false, "ok": ["dict", ["str:'preferred_chunksizes'", ["dict", ["str:'x'", "int:4"], ["str:'y'", "int:2"]]]]},
"duck|float--1|namespace": {"fresh": true, "inner-fresh": true, "inner-is-chunks": false, "inner-is-sizes": false, "ok": ["dict", ["str:'preferred_chunksizes'", ["dict", ["str:'x'", "int:4"], ["str:'y'", "int:2"]]]]},
"duck|float--1|no-sizes": {"cause": null, "context": null, "error": "AttributeError", "message": "'LazySizes' object has no attribute 'sizes'"},
"duck|float--1|sizes": {"fresh": true, "inner-fresh": true, "inner-is-chunks": false, "inner-is-sizes": false, "ok": ["dict", ["str:'preferred_chunksizes'", ["dict", ["str:'x'", "int:4"], ["str:'y'", "int:2"]]]]},
"duck|float--1|sizes-list": {"cause": null, "context": null, "error": "TypeError", "message": "list indices must be integers or slices, not str"},
"duck|float--1|sizes-none": {"cause": null, "context": null, "error": "TypeError", "message": "'NoneType' object is not subscriptable"},
"duck|int-dims|mapping-like": {"cause": null, "context": null, "error": "KeyError", "message": "0"},
"duck|int-dims|namespace": {"cause": null, "context": null, "error": "KeyError", "message": "0"},
"duck|int-dims|no-sizes": {"cause": null, "context": null, "error": "AttributeError", "message": "'LazySizes' object has no attribute 'sizes'"},
"duck|int-dims|sizes": {"cause": null, "context": null, "error": "KeyError", "message": "0"},
"duck|int-dims|sizes-list": {"fresh": true, "inner-fresh": true, "inner-is-chunks": false, "inner-is-sizes": false, "ok": ["dict", ["str:'preferred_chunksizes'", ["dict", ["int:0", "int:7"], ["int:1", "int:2"]]]]},
"duck|int-dims|sizes-none": {"cause": null, "context": null, "error": "TypeError", "message": "'NoneType' object is not subscriptable"},
"duck|last--1|mapping-like": {"fresh": true, "inner-fresh": true, "inner-is-chunks": false, "inner-is-sizes": false, "ok": ["dict", ["str:'preferred_chunksizes'", ["dict", ["str:'x'", "int:2"], ["str:'y'", "int:5"]]]]},
"duck|last--1|namespace": {"fresh": true, "inner-fresh": true, "inner-is-chunks": false, "inner-is-sizes": false, "ok": ["dict", ["str:'preferred_chunksizes'", ["dict", ["str:'x'", "int:2"], ["str:'y'", "int:5"]]]]},
"duck|last--1|no-sizes": {"cause": null, "context": null, "error": "AttributeError", "message": "'LazySizes' object has no attribute 'sizes'"},
"duck|last--1|sizes": {"fresh": true, "inner-fresh": true, "inner-is-chunks": false, "inner-is-sizes": false, "ok": ["dict", ["str:'preferred_chunksizes'", ["dict", ["str:'x'", "int:2"], ["str:'y'", "int:5"]]]]},
"duck|last--1|sizes-list": {"cause": null, "context": null, "error": "TypeError", "message": "list indices must be integers or slices, not str"},
"duck|last--1|sizes-none": {"cause": null, "context": null, "error": "TypeError", "message": "'NoneType' object is not subscriptable"},
"duck|last-none|mapping-like": {"fresh": true, "inner-fresh": true, "inner-is-chunks": false, "inner-is-sizes": false, "ok": ["dict", ["str:'preferred_chunksizes'", ["dict", ["str:'x'", "int:2"], ["str:'y'", "int:5"]]]]},
"duck|last-none|namespace": {"fresh": true, "inner-fresh": true, "inner-is-chunks": false, "inner-is-sizes": false, "ok": ["dict", ["str:'preferred_chunksizes'", ["dict", ["str:'x'", "int:2"], ["str:'y'", "int:5"]]]]},
"duck|last-none|no-sizes": {"cause": null, "context": null, "error": "AttributeError", "message": "'LazySizes' object has no attribute 'sizes'"},
"duck|last-none|sizes": {"fresh": true, "inner-fresh": true, "inner-is-chunks": false, "inner-is-sizes": false, "ok": ["dict", ["str:'preferred_chunksizes'", ["dict", ["str:'x'", "int:2"], ["str:'y'", "int:5"]]]]},
"duck|last-none|sizes-list": {"cause": null, "context": null, "error": "TypeError", "message": "list indices must be integers or slices, not str"},
"duck|last-none|sizes-none": {"cause": null, "context": null, "error": "TypeError", "message": "'NoneType' object is not subscriptable"},
"duck|no-chunks": {"cause": null, "context": null, "error": "AttributeError", "message": "'types.SimpleNamespace' object has no attribute 'chunks'"},
"duck|none": {"cause": null, "context": null, "error": "AttributeError", "message": "'NoneType' object has no attribute 'chunks'"},
"duck|none-and--1|mapping-like": {"fresh": true, "inner-fresh": true, "inner-is-chunks": false, "inner-is-sizes": false, "ok": ["dict", ["str:'preferred_chunksizes'", ["dict", ["str:'z'", "int:6"], ["str:'x'", "int:4"], ["str:'y'", "int:2"]]]]},
"duck|none-and--1|namespace": {"fresh": true, "inner-fresh": true, "inner-is-chunks": false, "inner-is-sizes": false, "ok": ["dict", ["str:'preferred_chunksizes'", ["dict", ["str:'z'", "int:6"], ["str:'x'", "int:4"], ["str:'y'", "int:2"]]]]},
"duck|none-and--1|no-sizes": {"cause": null, "context": null, "error": "AttributeError", "message": "'LazySizes' object has no attribute 'sizes'"},
"duck|none-and--1|sizes": {"fresh": true, "inner-fresh": true, "inner-is-chunks": false, "inner-is-sizes": false, "ok": ["dict", ["str:'preferred_chunksizes'", ["dict", ["str:'z'", "int:6"], ["str:'x'", "int:4"], ["str:'y'", "int:2"]]]]},
"duck|none-and--1|sizes-list": {"cause": null, "context": null, "error": "TypeError", "message": "list indices must be integers or slices, not str"},
"duck|none-and--1|sizes-none": {"cause": null, "context": null, "error": "TypeError", "message": "'NoneType' object is not subscriptable"},
"duck|not-a-var": {"cause": null, "context": null, "error": "AttributeError", "message": "'int' object has no attribute 'chunks'"},
"duck|np--1|mapping-like": {"fresh": true, "inner-fresh": true, "inner-is-chunks": false, "inner-is-sizes": false, "ok": ["dict", ["str:'preferred_chunksizes'", ["dict", ["str:'x'", "int:4"], ["str:'y'", "int64:np.int64(2)"]]]]},
"duck|np--1|namespace": {"fresh": true, "inner-fresh": true, "inner-is-chunks": false, "inner-is-sizes": false, "ok": ["dict", ["str:'preferred_chunksizes'", ["dict", ["str:'x'", "int:4"], ["str:'y'", "int64:np.int64(2)"]]]]},
"duck|np--1|no-sizes": {"cause": null, "context": null, "error": "AttributeError", "message": "'LazySizes' object has no attribute 'sizes'"},
"duck|np--1|sizes": {"fresh": true, "inner-fresh": true, "inner-is-chunks": false, "inner-is-sizes": false, "ok": ["dict", ["str:'preferred_chunksizes'", ["dict", ["str:'x'", "int:4"], ["str:'y'", "int64:np.int64(2)"]]]]},
"duck|np--1|sizes-list": {"cause": null, "context": null, "error": "TypeError", "message": "list indices must be integers or slices, not str"},
"duck|np--1|sizes-none": {"cause": null, "context": null, "error": "TypeError", "message": "'NoneType' object is not subscriptable"},
"duck|one-none|mapping-like": {"fresh": true, "ok": ["dict"]},
"duck|one-none|namespace": {"fresh": true, "ok": ["dict"]},
"duck|one-none|no-sizes": {"fresh": true, "ok": ["dict"]},
"duck|one-none|sizes": {"fresh": true, "ok": ["dict"]},
"duck|one-none|sizes-list": {"fresh": true, "ok": ["dict"]},
"duck|one-none|sizes-none": {"fresh": true, "ok": ["dict"]},
"duck|other-negative|mapping-like": {"fresh": true, "inner-fresh": true, "inner-is-chunks": false, "inner-is-sizes": false, "ok": ["dict", ["str:'preferred_chunksizes'", ["dict", ["str:'x'", "int:-2"], ["str:'y'", "int:5"]]]]},
"duck|other-negative|namespace": {"fresh": true, "inner-fresh": true, "inner-is-chunks": false, "inner-is-sizes": false, "ok": ["dict", ["str:'preferred_chunksizes'", ["dict", ["str:'x'", "int:-2"], ["str:'y'", "int:5"]]]]},
"duck|other-negative|no-sizes": {"cause": null, "context": null, "error": "AttributeError", "message": "'LazySizes' object has no attribute 'sizes'"},
"duck|other-negative|sizes": {"fresh": true, "inner-fresh": true, "inner-is-chunks": false, "inner-is-sizes": false, "ok": ["dict", ["str:'preferred_chunksizes'", ["dict", ["str:'x'", "int:-2"], ["str:'y'", "int:5"]]]]},
"duck|other-negative|sizes-list": {"cause": null, "context": null, "error": "TypeError", "message": "list indices must be integers or slices, not str"},
"duck|other-negative|sizes-none": {"cause": null, "context": null, "error": "TypeError", "message": "'NoneType' object is not subscriptable"},
"duck|reordered|mapping-like": {"fresh": true, "inner-fresh": true, "inner-is-chunks": false, "inner-is-sizes": false, "ok": ["dict", ["str:'preferred_chunksizes'", ["dict", ["str:'z'", "int:1"], ["str:'y'", "int:5"], ["str:'x'", "int:2"]]]]},
"duck|reordered|namespace": {"fresh": true, "inner-fresh": true, "inner-is-chunks": false, "inner-is-sizes": false, "ok": ["dict", ["str:'preferred_chunksizes'", ["dict", ["str:'z'", "int:1"], ["str:'y'", "int:5"], ["str:'x'", "int:2"]]]]},
"duck|reordered|no-sizes": {"cause": null, "context": null, "error": "AttributeError", "message": "'LazySizes' object has no attribute 'sizes'"},
"duck|reordered|sizes": {"fresh": true, "inner-fresh": true, "inner-is-chunks": false, "inner-is-sizes": false, "ok": ["dict", ["str:'preferred_chunksizes'", ["dict", ["str:'z'", "int:1"], ["str:'y'", "int:5"], ["str:'x'", "int:2"]]]]},
"duck|reordered|sizes-list": {"cause": null, "context": null, "error": "TypeError", "message": "list indices must be integers or slices, not str"},
"duck|reordered|sizes-none": {"cause": null, "context": null, "error": "TypeError", "message": "'NoneType' object is not subscriptable"},
"duck|str|mapping-like": {"fresh": true, "inner-fresh": true, "inner-is-chunks": false, "inner-is-sizes": false, "ok": ["dict", ["str:'preferred_chunksizes'", ["dict", ["str:'x'", "str:'auto'"], ["str:'y'", "int:5"]]]]},
"duck|str|namespace": {"fresh": true, "inner-fresh": true, "inner-is-chunks": false, "inner-is-sizes": false, "ok": ["dict", ["str:'preferred_chunksizes'", ["dict", ["str:'x'", "str:'auto'"], ["str:'y'", "int:5"]]]]},
"duck|str|no-sizes": {"cause": null, "context": null, "error": "AttributeError", "message": "'LazySizes' object has no attribute 'sizes'"},
"duck|str|sizes": {"fresh": true, "inner-fresh": true, "inner-is-chunks": false, "inner-is-sizes": false, "ok": ["dict", ["str:'preferred_chunksizes'", ["dict", ["str:'x'", "str:'auto'"], ["str:'y'", "int:5"]]]]},
"duck|str|sizes-list": {"cause": null, "context": null, "error": "TypeError", "message": "list indices must be integers or slices, not str"},
"duck|str|sizes-none": {"cause": null, "context": null, "error": "TypeError", "message": "'NoneType' object is not subscriptable"},
"duck|true|mapping-like": {"fresh": true, "inner-fresh": true, "inner-is-chunks": false, "inner-is-sizes": false, "ok": ["dict", ["str:'preferred_chunksizes'", ["dict", ["str:'x'", "bool:True"], ["str:'y'", "int:5"]]]]},
"duck|true|namespace": {"fresh": true, "inner-fresh": true, "inner-is-chunks": false, "inner-is-sizes": false, "ok": ["dict", ["str:'preferred_chunksizes'", ["dict", ["str:'x'", "bool:True"], ["str:'y'", "int:5"]]]]},
"duck|true|no-sizes": {"cause": null, "context": null, "error": "AttributeError", "message": "'LazySizes' object has no attribute 'sizes'"},
"duck|true|sizes": {"fresh": true, "inner-fresh": true, "inner-is-chunks": false, "inner-is-sizes": false, "ok": ["dict", ["str:'preferred_chunksizes'", ["dict", ["str:'x'", "bool:True"], ["str:'y'", "int:5"]]]]},
"duck|true|sizes-list": {"cause": null, "context": null, "error": "TypeError", "message": "list indices must be integers or slices, not str"},
"duck|true|sizes-none": {"cause": null, "context": null, "error": "TypeError", "message": "'NoneType' object is not subscriptable"},
"duck|tuple-chunks|mapping-like": {"fresh": true, "inner-fresh": true, "inner-is-chunks": false, "inner-is-sizes": false, "ok": ["dict", ["str:'preferred_chunksizes'", ["dict", ["str:'x'", ["tuple", "int:2", "int:2"]], ["str:'y'", "int:5"]]]]},
"duck|tuple-chunks|namespace": {"fresh": true, "inner-fresh": true, "inner-is-chunks": false, "inner-is-sizes": false, "ok": ["dict", ["str:'preferred_chunksizes'", ["dict", ["str:'x'", ["tuple", "int:2", "int:2"]], ["str:'y'", "int:5"]]]]},
"duck|tuple-chunks|no-sizes": {"cause": null, "context": null, "error": "AttributeError", "message": "'LazySizes' object has no attribute 'sizes'"},
"duck|tuple-chunks|sizes": {"fresh": true, "inner-fresh": true, "inner-is-chunks": false, "inner-is-sizes": false, "ok": ["dict", ["str:'preferred_chunksizes'", ["dict", ["str:'x'", ["tuple", "int:2", "int:2"]], ["str:'y'", "int:5"]]]]},
"duck|tuple-chunks|sizes-list": {"cause": null, "context": null, "error": "TypeError", "message": "list indices must be integers or slices, not str"},
"duck|tuple-chunks|sizes-none": {"cause": null, "context": null, "error": "TypeError", "message": "'NoneType' object is not subscriptable"},
"duck|unknown-dim--1-first|mapping-like": {"cause": null, "context": null, "error": "KeyError", "message": "'w'"},
"duck|unknown-dim--1-first|namespace": {"cause": null, "context": null, "error": "KeyError", "message": "'w'"},
"duck|unknown-dim--1-first|no-sizes": {"cause": null, "context": null, "error": "AttributeError", "message": "'LazySizes' object has no attribute 'sizes'"},
"duck|unknown-dim--1-first|sizes": {"cause": null, "context": null, "error": "KeyError", "message": "'w'"},
"duck|unknown-dim--1-first|sizes-list": {"cause": null, "context": null, "error": "TypeError", "message": "list indices must be integers or slices, not str"},
"duck|unknown-dim--1-first|sizes-none": {"cause": null, "context": null, "error": "TypeError", "message": "'NoneType' object is not subscriptable"},
"duck|unknown-dim-none|mapping-like": {"cause": null, "context": null, "error": "KeyError", "message": "'w'"},
"duck|unknown-dim-none|namespace": {"cause": null, "context": null, "error": "KeyError", "message": "'w'"},
"duck|unknown-dim-none|no-sizes": {"cause": null, "context": null, "error": "AttributeError", "message": "'LazySizes' object has no attribute 'sizes'"},
"duck|unknown-dim-none|sizes": {"cause": null, "context": null, "error": "KeyError", "message": "'w'"},
"duck|unknown-dim-none|sizes-list": {"cause": null, "context": null, "error": "TypeError", "message": "list indices must be integers or slices, not str"},
"duck|unknown-dim-none|sizes-none": {"cause": null, "context": null, "error": "TypeError", "message": "'NoneType' object is not subscriptable"},
"duck|unknown-dim|mapping-like": {"fresh": true, "inner-fresh": true, "inner-is-chunks": false, "inner-is-sizes": false, "ok": ["dict", ["str:'preferred_chunksizes'", ["dict", ["str:'w'", "int:2"], ["str:'x'", "int:4"]]]]},
"duck|unknown-dim|namespace": {"fresh": true, "inner-fresh": true, "inner-is-chunks": false, "inner-is-sizes": false, "ok": ["dict", ["str:'preferred_chunksizes'", ["dict", ["str:'w'", "int:2"], ["str:'x'", "int:4"]]]]},
"duck|unknown-dim|no-sizes": {"cause": null, "context": null, "error": "AttributeError", "message": "'LazySizes' object has no attribute 'sizes'"},
"duck|unknown-dim|sizes": {"fresh": true, "inner-fresh": true, "inner-is-chunks": false, "inner-is-sizes": false, "ok": ["dict", ["str:'preferred_chunksizes'", ["dict", ["str:'w'", "int:2"], ["str:'x'", "int:4"]]]]},
"duck|unknown-dim|sizes-list": {"cause": null, "context": null, "error": "TypeError", "message": "list indices must be integers or slices, not str"},
"duck|unknown-dim|sizes-none": {"cause": null, "context": null, "error": "TypeError", "message": "'NoneType' object is not subscriptable"},
"duck|zero|mapping-like": {"fresh": true, "inner-fresh": true, "inner-is-chunks": false, "inner-is-sizes": false, "ok": ["dict", ["str:'preferred_chunksizes'", ["dict", ["str:'x'", "int:0"], ["str:'y'", "int:5"]]]]},
"duck|zero|namespace": {"fresh": true, "inner-fresh": true, "inner-is-chunks": false, "inner-is-sizes": false, "ok": ["dict", ["str:'preferred_chunksizes'", ["dict", ["str:'x'", "int:0"], ["str:'y'", "int:5"]]]]},
"duck|zero|no-sizes": {"cause": null, "context": null, "error": "AttributeError", "message": "'LazySizes' object has no attribute 'sizes'"},
"duck|zero|sizes": {"fresh": true, "inner-fresh": true, "inner-is-chunks": false, "inner-is-sizes": false, "ok": ["dict", ["str:'preferred_chunksizes'", ["dict", ["str:'x'", "int:0"], ["str:'y'", "int:5"]]]]},
"duck|zero|sizes-list": {"cause": null, "context": null, "error": "TypeError", "message": "list indices must be integers or slices, not str"},
"duck|zero|sizes-none": {"cause": null, "context": null, "error": "TypeError", "message": "'NoneType' object is not subscriptable"},
"no-mutation": {"attrs": ["chunks", "sizes"], "chunks": ["dict", ["str:'x'", "NoneType:None"], ["str:'y'", "int:-1"], ["str:'z'", "int:3"]], "result": ["dict", ["str:'preferred_chunksizes'", ["dict", ["str:'x'", "int:4"], ["str:'y'", "int:5"], ["str:'z'", "int:3"]]]], "sizes": ["dict", ["str:'x'", "int:4"], ["str:'y'", "int:5"], ["str:'z'", "int:6"]]},
"to_variable|var|array-(4, 3)-['a', 'b']|forced=-1": {"dims": ["tuple", "str:'a'", "str:'b'"], "encoding": ["dict", ["str:'preferred_chunksizes'", ["dict", ["str:'a'", "int:4"], ["str:'b'", "int:3"]]]], "shape": ["tuple", "int:4", "int:3"]},
"to_variable|var|array-(4, 3)-['a', 'b']|forced=-2": {"dims": ["tuple", "str:'a'", "str:'b'"], "encoding": ["dict", ["str:'preferred_chunksizes'", ["dict", ["str:'a'", "int:-2"], ["str:'b'", "int:3"]]]], "shape": ["tuple", "int:4", "int:3"]},
"to_variable|var|array-(4, 3)-['a', 'b']|forced=0": {"dims": ["tuple", "str:'a'", "str:'b'"], "encoding": ["dict", ["str:'preferred_chunksizes'", ["dict", ["str:'a'", "int:0"], ["str:'b'", "int:3"]]]], "shape": ["tuple", "int:4", "int:3"]},
"to_variable|var|array-(4, 3)-['a', 'b']|forced=2.0": {"dims": ["tuple", "str:'a'", "str:'b'"], "encoding": ["dict", ["str:'preferred_chunksizes'", ["dict", ["str:'a'", "float:2.0"], ["str:'b'", "int:3"]]]], "shape": ["tuple", "int:4", "int:3"]},
"to_variable|var|array-(4, 3)-['a', 'b']|forced=None": {"dims": ["tuple", "str:'a'", "str:'b'"], "encoding": ["dict", ["str:'preferred_chunksizes'", ["dict", ["str:'a'", "int:4"], ["str:'b'", "int:3"]]]], "shape": ["tuple", "int:4", "int:3"]},
"to_variable|var|array-(4, 3)-['a', 'b']|forced=np.int64(-1)": {"dims": ["tuple", "str:'a'", "str:'b'"], "encoding": ["dict", ["str:'preferred_chunksizes'", ["dict", ["str:'a'", "int:4"], ["str:'b'", "int:3"]]]], "shape": ["tuple", "int:4", "int:3"]},
"to_variable|var|array-(4, 3)-['a', 'b']|rpc=-1": {"dims": ["tuple", "str:'a'", "str:'b'"], "encoding": ["dict", ["str:'preferred_chunksizes'", ["dict", ["str:'a'", "int:4"], ["str:'b'", "int:3"]]]], "shape": ["tuple", "int:4", "int:3"]},
"to_variable|var|array-(4, 3)-['a', 'b']|rpc=1": {"dims": ["tuple", "str:'a'", "str:'b'"], "encoding": ["dict", ["str:'preferred_chunksizes'", ["dict", ["str:'a'", "int:1"], ["str:'b'", "int:3"]]]], "shape": ["tuple", "int:4", "int:3"]},
"to_variable|var|array-(4, 3)-['a', 'b']|rpc=100": {"dims": ["tuple", "str:'a'", "str:'b'"], "encoding": ["dict", ["str:'preferred_chunksizes'", ["dict", ["str:'a'", "int:4"], ["str:'b'", "int:3"]]]], "shape": ["tuple", "int:4", "int:3"]},
"to_variable|var|array-(4, 3)-['a', 'b']|rpc=1kB": {"dims": ["tuple", "str:'a'", "str:'b'"], "encoding": ["dict", ["str:'preferred_chunksizes'", ["dict", ["str:'a'", "int64:np.int64(4)"], ["str:'b'", "int:3"]]]], "shape": ["tuple", "int:4", "int:3"]},
"to_variable|var|array-(4, 3)-['a', 'b']|rpc=2": {"dims": ["tuple", "str:'a'", "str:'b'"], "encoding": ["dict", ["str:'preferred_chunksizes'", ["dict", ["str:'a'", "int:2"], ["str:'b'", "int:3"]]]], "shape": ["tuple", "int:4", "int:3"]},
"to_variable|var|array-(4, 3)-['a', 'b']|rpc=3": {"dims": ["tuple", "str:'a'", "str:'b'"], "encoding": ["dict", ["str:'preferred_chunksizes'", ["dict", ["str:'a'", "int:3"], ["str:'b'", "int:3"]]]], "shape": ["tuple", "int:4", "int:3"]},
"to_variable|var|array-(4, 3)-['a', 'b']|rpc=4": {"dims": ["tuple", "str:'a'", "str:'b'"], "encoding": ["dict", ["str:'preferred_chunksizes'", ["dict", ["str:'a'", "int:4"], ["str:'b'", "int:3"]]]], "shape": ["tuple", "int:4", "int:3"]},
"to_variable|var|array-(4, 3)-['a', 'b']|rpc=80B": {"dims": ["tuple", "str:'a'", "str:'b'"], "encoding": ["dict", ["str:'preferred_chunksizes'", ["dict", ["str:'a'", "int64:np.int64(2)"], ["str:'b'", "int:3"]]]], "shape": ["tuple", "int:4", "int:3"]},
"to_variable|var|array-(4, 3)-['a', 'b']|rpc=None": {"dims": ["tuple", "str:'a'", "str:'b'"], "encoding": ["dict", ["str:'preferred_chunksizes'", ["dict", ["str:'a'", "int:1024"], ["str:'b'", "int:3"]]]], "shape": ["tuple", "int:4", "int:3"]},
"to_variable|var|array-(4, 3)-['a', 'b']|rpc=auto": {"dims": ["tuple", "str:'a'", "str:'b'"], "encoding": ["dict", ["str:'preferred_chunksizes'", ["dict", ["str:'a'", "int64:np.int64(4)"], ["str:'b'", "int:3"]]]], "shape": ["tuple", "int:4", "int:3"]},
"to_variable|var|array-(4,)-['x']|forced=-1": {"dims": ["tuple", "str:'x'"], "encoding": ["dict", ["str:'preferred_chunksizes'", ["dict", ["str:'x'", "int:4"]]]], "shape": ["tuple", "int:4"]},
"to_variable|var|array-(4,)-['x']|forced=-2": {"dims": ["tuple", "str:'x'"], "encoding": ["dict", ["str:'preferred_chunksizes'", ["dict", ["str:'x'", "int:-2"]]]], "shape": ["tuple", "int:4"]},
"to_variable|var|array-(4,)-['x']|forced=0": {"dims": ["tuple", "str:'x'"], "encoding": ["dict", ["str:'preferred_chunksizes'", ["dict", ["str:'x'", "int:0"]]]], "shape": ["tuple", "int:4"]},
"to_variable|var|array-(4,)-['x']|forced=2.0": {"dims": ["tuple", "str:'x'"], "encoding": ["dict", ["str:'preferred_chunksizes'", ["dict", ["str:'x'", "float:2.0"]]]], "shape": ["tuple", "int:4"]},
"to_variable|var|array-(4,)-['x']|forced=None": {"dims": ["tuple", "str:'x'"], "encoding": ["dict"], "shape": ["tuple", "int:4"]},
"to_variable|var|array-(4,)-['x']|forced=np.int64(-1)": {"dims": ["tuple", "str:'x'"], "encoding": ["dict", ["str:'preferred_chunksizes'", ["dict", ["str:'x'", "int:4"]]]], "shape": ["tuple", "int:4"]},
"to_variable|var|array-(4,)-['x']|rpc=-1": {"dims": ["tuple", "str:'x'"], "encoding": ["dict", ["str:'preferred_chunksizes'", ["dict", ["str:'x'", "int:4"]]]], "shape": ["tuple", "int:4"]},
"to_variable|var|array-(4,)-['x']|rpc=1": {"dims": ["tuple", "str:'x'"], "encoding": ["dict", ["str:'preferred_chunksizes'", ["dict", ["str:'x'", "int:1"]]]], "shape": ["tuple", "int:4"]},
"to_variable|var|array-(4,)-['x']|rpc=100": {"dims": ["tuple", "str:'x'"], "encoding": ["dict", ["str:'preferred_chunksizes'", ["dict", ["str:'x'", "int:4"]]]], "shape": ["tuple", "int:4"]},
"to_variable|var|array-(4,)-['x']|rpc=1kB": {"dims": ["tuple", "str:'x'"], "encoding": ["dict", ["str:'preferred_chunksizes'", ["dict", ["str:'x'", "int64:np.int64(4)"]]]], "shape": ["tuple", "int:4"]},
"to_variable|var|array-(4,)-['x']|rpc=2": {"dims": ["tuple", "str:'x'"], "encoding": ["dict", ["str:'preferred_chunksizes'", ["dict", ["str:'x'", "int:2"]]]], "shape": ["tuple", "int:4"]},
"to_variable|var|array-(4,)-['x']|rpc=3": {"dims": ["tuple", "str:'x'"], "encoding": ["dict", ["str:'preferred_chunksizes'", ["dict", ["str:'x'", "int:3"]]]], "shape": ["tuple", "int:4"]},
"to_variable|var|array-(4,)-['x']|rpc=4": {"dims": ["tuple", "str:'x'"], "encoding": ["dict", ["str:'preferred_chunksizes'", ["dict", ["str:'x'", "int:4"]]]], "shape": ["tuple", "int:4"]},
"to_variable|var|array-(4,)-['x']|rpc=80B": {"dims": ["tuple", "str:'x'"], "encoding": ["dict", ["str:'preferred_chunksizes'", ["dict", ["str:'x'", "int64:np.int64(2)"]]]], "shape": ["tuple", "int:4"]},
"to_variable|var|array-(4,)-['x']|rpc=None": {"dims": ["tuple", "str:'x'"], "encoding": ["dict", ["str:'preferred_chunksizes'", ["dict", ["str:'x'", "int:1024"]]]], "shape": ["tuple", "int:4"]},
"to_variable|var|array-(4,)-['x']|rpc=auto": {"dims": ["tuple", "str:'x'"], "encoding": ["dict", ["str:'preferred_chunksizes'", ["dict", ["str:'x'", "int64:np.int64(4)"]]]], "shape": ["tuple", "int:4"]},
"to_variable|var|array-(4,)-x|forced=-1": {"dims": ["tuple", "str:'x'"], "encoding": ["dict", ["str:'preferred_chunksizes'", ["dict", ["str:'x'", "int:4"]]]], "shape": ["tuple", "int:4"]},
"to_variable|var|array-(4,)-x|forced=-2": {"dims": ["tuple", "str:'x'"], "encoding": ["dict", ["str:'preferred_chunksizes'", ["dict", ["str:'x'", "int:-2"]]]], "shape": ["tuple", "int:4"]},
"to_variable|var|array-(4,)-x|forced=0": {"dims": ["tuple", "str:'x'"], "encoding": ["dict", ["str:'preferred_chunksizes'", ["dict", ["str:'x'", "int:0"]]]], "shape": ["tuple", "int:4"]},
"to_variable|var|array-(4,)-x|forced=2.0": {"dims": ["tuple", "str:'x'"], "encoding": ["dict", ["str:'preferred_chunksizes'", ["dict", ["str:'x'", "float:2.0"]]]], "shape": ["tuple", "int:4"]},
"to_variable|var|array-(4,)-x|forced=None": {"dims": ["tuple", "str:'x'"], "encoding": ["dict"], "shape": ["tuple", "int:4"]},
"to_variable|var|array-(4,)-x|forced=np.int64(-1)": {"dims": ["tuple", "str:'x'"], "encoding": ["dict", ["str:'preferred_chunksizes'", ["dict", ["str:'x'", "int:4"]]]], "shape": ["tuple", "int:4"]},
"to_variable|var|array-(4,)-x|rpc=-1": {"dims": ["tuple", "str:'x'"], "encoding": ["dict", ["str:'preferred_chunksizes'", ["dict", ["str:'x'", "int:4"]]]], "shape": ["tuple", "int:4"]},
"to_variable|var|array-(4,)-x|rpc=1": {"dims": ["tuple", "str:'x'"], "encoding": ["dict", ["str:'preferred_chunksizes'", ["dict", ["str:'x'", "int:1"]]]], "shape": ["tuple", "int:4"]},
"to_variable|var|array-(4,)-x|rpc=100": {"dims": ["tuple", "str:'x'"], "encoding": ["dict", ["str:'preferred_chunksizes'", ["dict", ["str:'x'", "int:4"]]]], "shape": ["tuple", "int:4"]},
"to_variable|var|array-(4,)-x|rpc=1kB": {"dims": ["tuple", "str:'x'"], "encoding": ["dict", ["str:'preferred_chunksizes'", ["dict", ["str:'x'", "int64:np.int64(4)"]]]], "shape": ["tuple", "int:4"]},
"to_variable|var|array-(4,)-x|rpc=2": {"dims": ["tuple", "str:'x'"], "encoding": ["dict", ["str:'preferred_chunksizes'", ["dict", ["str:'x'", "int:2"]]]], "shape": ["tuple", "int:4"]},
"to_variable|var|array-(4,)-x|rpc=3": {"dims": ["tuple", "str:'x'"], "encoding": ["dict", ["str:'preferred_chunksizes'", ["dict", ["str:'x'", "int:3"]]]], "shape": ["tuple", "int:4"]},
"to_variable|var|array-(4,)-x|rpc=4": {"dims": ["tuple", "str:'x'"], "encoding": ["dict", ["str:'preferred_chunksizes'", ["dict", ["str:'x'", "int:4"]]]], "shape": ["tuple", "int:4"]},
"to_variable|var|array-(4,)-x|rpc=80B": {"dims": ["tuple", "str:'x'"], "encoding": ["dict", ["str:'preferred_chunksizes'", ["dict", ["str:'x'", "int64:np.int64(2)"]]]], "shape": ["tuple", "int:4"]},
"to_variable|var|array-(4,)-x|rpc=None": {"dims": ["tuple", "str:'x'"], "encoding": ["dict", ["str:'preferred_chunksizes'", ["dict", ["str:'x'", "int:1024"]]]], "shape": ["tuple", "int:4"]},
"to_variable|var|array-(4,)-x|rpc=auto": {"dims": ["tuple", "str:'x'"], "encoding": ["dict", ["str:'preferred_chunksizes'", ["dict", ["str:'x'", "int64:np.int64(4)"]]]], "shape": ["tuple", "int:4"]},
"to_variable|var|array-(6, 2, 5)-['t', 'y', 'x']|forced=-1": {"dims": ["tuple", "str:'t'", "str:'y'", "str:'x'"], "encoding": ["dict", ["str:'preferred_chunksizes'", ["dict", ["str:'t'", "int:6"], ["str:'y'", "int:2"], ["str:'x'", "int:5"]]]], "shape": ["tuple", "int:6", "int:2", "int:5"]},
"to_variable|var|array-(6, 2, 5)-['t', 'y', 'x']|forced=-2": {"dims": ["tuple", "str:'t'", "str:'y'", "str:'x'"], "encoding": ["dict", ["str:'preferred_chunksizes'", ["dict", ["str:'t'", "int:-2"], ["str:'y'", "int:2"], ["str:'x'", "int:5"]]]], "shape": ["tuple", "int:6", "int:2", "int:5"]},
"to_variable|var|array-(6, 2, 5)-['t', 'y', 'x']|forced=0": {"dims": ["tuple", "str:'t'", "str:'y'", "str:'x'"], "encoding": ["dict", ["str:'preferred_chunksizes'", ["dict", ["str:'t'", "int:0"], ["str:'y'", "int:2"], ["str:'x'", "int:5"]]]], "shape": ["tuple", "int:6", "int:2", "int:5"]},
"to_variable|var|array-(6, 2, 5)-['t', 'y', 'x']|forced=2.0": {"dims": ["tuple", "str:'t'", "str:'y'", "str:'x'"], "encoding": ["dict", ["str:'preferred_chunksizes'", ["dict", ["str:'t'", "float:2.0"], ["str:'y'", "int:2"], ["str:'x'", "int:5"]]]], "shape": ["tuple", "int:6", "int:2", "int:5"]},
"to_variable|var|array-(6, 2, 5)-['t', 'y', 'x']|forced=None": {"dims": ["tuple", "str:'t'", "str:'y'", "str:'x'"], "encoding": ["dict", ["str:'preferred_chunksizes'", ["dict", ["str:'t'", "int:6"], ["str:'y'", "int:2"], ["str:'x'", "int:5"]]]], "shape": ["tuple", "int:6", "int:2", "int:5"]},
"to_variable|var|array-(6, 2, 5)-['t', 'y', 'x']|forced=np.int64(-1)": {"dims": ["tuple", "str:'t'", "str:'y'", "str:'x'"], "encoding": ["dict", ["str:'preferred_chunksizes'", ["dict", ["str:'t'", "int:6"], ["str:'y'", "int:2"], ["str:'x'", "int:5"]]]], "shape": ["tuple", "int:6", "int:2", "int:5"]},
"to_variable|var|array-(6, 2, 5)-['t', 'y', 'x']|rpc=-1": {"dims": ["tuple", "str:'t'", "str:'y'", "str:'x'"], "encoding": ["dict", ["str:'preferred_chunksizes'", ["dict", ["str:'t'", "int:6"], ["str:'y'", "int:2"], ["str:'x'", "int:5"]]]], "shape": ["tuple", "int:6", "int:2", "int:5"]},
"to_variable|var|array-(6, 2, 5)-['t', 'y', 'x']|rpc=1": {"dims": ["tuple", "str:'t'", "str:'y'", "str:'x'"], "encoding": ["dict", ["str:'preferred_chunksizes'", ["dict", ["str:'t'", "int:1"], ["str:'y'", "int:2"], ["str:'x'", "int:5"]]]], "shape": ["tuple", "int:6", "int:2", "int:5"]},
"to_variable|var|array-(6, 2, 5)-['t', 'y', 'x']|rpc=100": {"dims": ["tuple", "str:'t'", "str:'y'", "str:'x'"], "encoding": ["dict", ["str:'preferred_chunksizes'", ["dict", ["str:'t'", "int:6"], ["str:'y'", "int:2"], ["str:'x'", "int:5"]]]], "shape": ["tuple", "int:6", "int:2", "int:5"]},
"to_variable|var|array-(6, 2, 5)-['t', 'y', 'x']|rpc=1kB": {"dims": ["tuple", "str:'t'", "str:'y'", "str:'x'"], "encoding": ["dict", ["str:'preferred_chunksizes'", ["dict", ["str:'t'", "int64:np.int64(6)"], ["str:'y'", "int:2"], ["str:'x'", "int:5"]]]], "shape": ["tuple", "int:6", "int:2", "int:5"]},
"to_variable|var|array-(6, 2, 5)-['t', 'y', 'x']|rpc=2": {"dims": ["tuple", "str:'t'", "str:'y'", "str:'x'"], "encoding": ["dict", ["str:'preferred_chunksizes'", ["dict", ["str:'t'", "int:2"], ["str:'y'", "int:2"], ["str:'x'", "int:5"]]]], "shape": ["tuple", "int:6", "int:2", "int:5"]},
"to_variable|var|array-(6, 2, 5)-['t', 'y', 'x']|rpc=3": {"dims": ["tuple", "str:'t'", "str:'y'", "str:'x'"], "encoding": ["dict", ["str:'preferred_chunksizes'", ["dict", ["str:'t'", "int:3"], ["str:'y'", "int:2"], ["str:'x'", "int:5"]]]], "shape": ["tuple", "int:6", "int:2", "int:5"]},
"to_variable|var|array-(6, 2, 5)-['t', 'y', 'x']|rpc=4": {"dims": ["tuple", "str:'t'", "str:'y'", "str:'x'"], "encoding": ["dict", ["str:'preferred_chunksizes'", ["dict", ["str:'t'", "int:4"], ["str:'y'", "int:2"], ["str:'x'", "int:5"]]]], "shape": ["tuple", "int:6", "int:2", "int:5"]},
"to_variable|var|array-(6, 2, 5)-['t', 'y', 'x']|rpc=80B": {"dims": ["tuple", "str:'t'", "str:'y'", "str:'x'"], "encoding": ["dict", ["str:'preferred_chunksizes'", ["dict", ["str:'t'", "int64:np.int64(2)"], ["str:'y'", "int:2"], ["str:'x'", "int:5"]]]], "shape": ["tuple", "int:6", "int:2", "int:5"]},
"to_variable|var|array-(6, 2, 5)-['t', 'y', 'x']|rpc=None": {"dims": ["tuple", "str:'t'", "str:'y'", "str:'x'"], "encoding": ["dict", ["str:'preferred_chunksizes'", ["dict", ["str:'t'", "int:1024"], ["str:'y'", "int:2"], ["str:'x'", "int:5"]]]], "shape": ["tuple", "int:6", "int:2", "int:5"]},
"to_variable|var|array-(6, 2, 5)-['t', 'y', 'x']|rpc=auto": {"dims": ["tuple", "str:'t'", "str:'y'", "str:'x'"], "encoding": ["dict", ["str:'preferred_chunksizes'", ["dict", ["str:'t'", "int64:np.int64(6)"], ["str:'y'", "int:2"], ["str:'x'", "int:5"]]]], "shape": ["tuple", "int:6", "int:2", "int:5"]},
"to_variable|var|array-shape=(-1, 3)": {"cause": null, "context": null, "error": "ValueError", "message": "length should not be negative"},
"to_variable|var|array-shape=(-1, 3)|forced=None": {"cause": null, "context": null, "error": "ValueError", "message": "length should not be negative"},
"to_variable|var|array-shape=(4, -1)": {"cause": null, "context": null, "error": "ValueError", "message": "length should not be negative"},
"to_variable|var|array-shape=(4, -1)|forced=None": {"cause": null, "context": null, "error": "ValueError", "message": "length should not be negative"},
"to_variable|var|array-shape=(4, None)": {"cause": null, "context": null, "error": "TypeError", "message": "'NoneType' object cannot be interpreted as an integer"},
"to_variable|var|array-shape=(4, None)|forced=None": {"cause": null, "context": null, "error": "TypeError", "message": "'NoneType' object cannot be interpreted as an integer"},
"to_variable|var|array-shape=(None, None)": {"cause": null, "context": null, "error": "TypeError", "message": "'NoneType' object cannot be interpreted as an integer"},
"to_variable|var|array-shape=(None, None)|forced=None": {"cause": null, "context": null, "error": "TypeError", "message": "'NoneType' object cannot be interpreted as an integer"},
"to_variable|var|duplicate-dims": {"dims": ["tuple", "str:'a'", "str:'a'"], "encoding": ["dict", ["str:'preferred_chunksizes'", ["dict", ["str:'a'", "int:3"]]]], "shape": ["tuple", "int:4", "int:3"]},
"to_variable|var|duplicate-dims|forced=-1": {"dims": ["tuple", "str:'a'", "str:'a'"], "encoding": ["dict", ["str:'preferred_chunksizes'", ["dict", ["str:'a'", "int:3"]]]], "shape": ["tuple", "int:4", "int:3"]},
"to_variable|var|list-data": {"dims": ["tuple", "str:'x'"], "encoding": ["dict"], "shape": ["tuple", "int:3"]},
"to_variable|var|numpy-0d": {"dims": ["tuple"], "encoding": ["dict"], "shape": ["tuple"]},
"to_variable|var|numpy-1d": {"dims": ["tuple", "str:'x'"], "encoding": ["dict"], "shape": ["tuple", "int:1"]},
"to_variable|var|numpy-2d": {"dims": ["tuple", "str:'x'", "str:'y'"], "encoding": ["dict"], "shape": ["tuple", "int:2", "int:3"]},
"to_variable|var|too-few-dims": {"cause": null, "context": null, "error": "ValueError", "message": "dimensions ('a',) must have the same length as the number of data dimensions, ndim=2"},
"to_variable|var|too-many-dims": {"cause": null, "context": null, "error": "ValueError", "message": "dimensions ('a', 'b', 'c') must have the same length as the number of data dimensions, ndim=2"},
"to_variable|var|too-many-dims|forced=None": {"cause": null, "context": null, "error": "ValueError", "message": "dimensions ('a', 'b', 'c') must have the same length as the number of data dimensions, ndim=2"},
"var|array-(4, 3)-['a', 'b']|forced=-1": {"fresh": true, "inner-fresh": true, "inner-is-chunks": false, "inner-is-sizes": false, "ok": ["dict", ["str:'preferred_chunksizes'", ["dict", ["str:'a'", "int:4"], ["str:'b'", "int:3"]]]]},
"var|array-(4, 3)-['a', 'b']|forced=-2": {"fresh": true, "inner-fresh": true, "inner-is-chunks": false, "inner-is-sizes": false, "ok": ["dict", ["str:'preferred_chunksizes'", ["dict", ["str:'a'", "int:-2"], ["str:'b'", "int:3"]]]]},
"var|array-(4, 3)-['a', 'b']|forced=0": {"fresh": true, "inner-fresh": true, "inner-is-chunks": false, "inner-is-sizes": false, "ok": ["dict", ["str:'preferred_chunksizes'", ["dict", ["str:'a'", "int:0"], ["str:'b'", "int:3"]]]]},
"var|array-(4, 3)-['a', 'b']|forced=2.0": {"fresh": true, "inner-fresh": true, "inner-is-chunks": false, "inner-is-sizes": false, "ok": ["dict", ["str:'preferred_chunksizes'", ["dict", ["str:'a'", "float:2.0"], ["str:'b'", "int:3"]]]]},
"var|array-(4, 3)-['a', 'b']|forced=None": {"fresh": true, "inner-fresh": true, "inner-is-chunks": false, "inner-is-sizes": false, "ok": ["dict", ["str:'preferred_chunksizes'", ["dict", ["str:'a'", "int:4"], ["str:'b'", "int:3"]]]]},
"var|array-(4, 3)-['a', 'b']|forced=np.int64(-1)": {"fresh": true, "inner-fresh": true, "inner-is-chunks": false, "inner-is-sizes": false, "ok": ["dict", ["str:'preferred_chunksizes'", ["dict", ["str:'a'", "int:4"], ["str:'b'", "int:3"]]]]},
"var|array-(4, 3)-['a', 'b']|rpc=-1": {"fresh": true, "inner-fresh": true, "inner-is-chunks": false, "inner-is-sizes": false, "ok": ["dict", ["str:'preferred_chunksizes'", ["dict", ["str:'a'", "int:4"], ["str:'b'", "int:3"]]]]},
"var|array-(4, 3)-['a', 'b']|rpc=1": {"fresh": true, "inner-fresh": true, "inner-is-chunks": false, "inner-is-sizes": false, "ok": ["dict", ["str:'preferred_chunksizes'", ["dict", ["str:'a'", "int:1"], ["str:'b'", "int:3"]]]]},
"var|array-(4, 3)-['a', 'b']|rpc=100": {"fresh": true, "inner-fresh": true, "inner-is-chunks": false, "inner-is-sizes": false, "ok": ["dict", ["str:'preferred_chunksizes'", ["dict", ["str:'a'", "int:4"], ["str:'b'", "int:3"]]]]},
"var|array-(4, 3)-['a', 'b']|rpc=1kB": {"fresh": true, "inner-fresh": true, "inner-is-chunks": false, "inner-is-sizes": false, "ok": ["dict", ["str:'preferred_chunksizes'", ["dict", ["str:'a'", "int64:np.int64(4)"], ["str:'b'", "int:3"]]]]},
"var|array-(4, 3)-['a', 'b']|rpc=2": {"fresh": true, "inner-fresh": true, "inner-is-chunks": false, "inner-is-sizes": false, "ok": ["dict", ["str:'preferred_chunksizes'", ["dict", ["str:'a'", "int:2"], ["str:'b'", "int:3"]]]]},
"var|array-(4, 3)-['a', 'b']|rpc=3": {"fresh": true, "inner-fresh": true, "inner-is-chunks": false, "inner-is-sizes": false, "ok": ["dict", ["str:'preferred_chunksizes'", ["dict", ["str:'a'", "int:3"], ["str:'b'", "int:3"]]]]},
"var|array-(4, 3)-['a', 'b']|rpc=4": {"fresh": true, "inner-fresh": true, "inner-is-chunks": false, "inner-is-sizes": false, "ok": ["dict", ["str:'preferred_chunksizes'", ["dict", ["str:'a'", "int:4"], ["str:'b'", "int:3"]]]]},
"var|array-(4, 3)-['a', 'b']|rpc=80B": {"fresh": true, "inner-fresh": true, "inner-is-chunks": false, "inner-is-sizes": false, "ok": ["dict", ["str:'preferred_chunksizes'", ["dict", ["str:'a'", "int64:np.int64(2)"], ["str:'b'", "int:3"]]]]},
"var|array-(4, 3)-['a', 'b']|rpc=None": {"fresh": true, "inner-fresh": true, "inner-is-chunks": false, "inner-is-sizes": false, "ok": ["dict", ["str:'preferred_chunksizes'", ["dict", ["str:'a'", "int:1024"], ["str:'b'", "int:3"]]]]},
"var|array-(4, 3)-['a', 'b']|rpc=auto": {"fresh": true, "inner-fresh": true, "inner-is-chunks": false, "inner-is-sizes": false, "ok": ["dict", ["str:'preferred_chunksizes'", ["dict", ["str:'a'", "int64:np.int64(4)"], ["str:'b'", "int:3"]]]]},
"var|array-(4,)-['x']|forced=-1": {"fresh": true, "inner-fresh": true, "inner-is-chunks": false, "inner-is-sizes": false, "ok": ["dict", ["str:'preferred_chunksizes'", ["dict", ["str:'x'", "int:4"]]]]},
"var|array-(4,)-['x']|forced=-2": {"fresh": true, "inner-fresh": true, "inner-is-chunks": false, "inner-is-sizes": false, "ok": ["dict", ["str:'preferred_chunksizes'", ["dict", ["str:'x'", "int:-2"]]]]},
"var|array-(4,)-['x']|forced=0": {"fresh": true, "inner-fresh": true, "inner-is-chunks": false, "inner-is-sizes": false, "ok": ["dict", ["str:'preferred_chunksizes'", ["dict", ["str:'x'", "int:0"]]]]},
"var|array-(4,)-['x']|forced=2.0": {"fresh": true, "inner-fresh": true, "inner-is-chunks": false, "inner-is-sizes": false, "ok": ["dict", ["str:'preferred_chunksizes'", ["dict", ["str:'x'", "float:2.0"]]]]},
"var|array-(4,)-['x']|forced=None": {"fresh": true, "ok": ["dict"]},
"var|array-(4,)-['x']|forced=np.int64(-1)": {"fresh": true, "inner-fresh": true, "inner-is-chunks": false, "inner-is-sizes": false, "ok": ["dict", ["str:'preferred_chunksizes'", ["dict", ["str:'x'", "int:4"]]]]},
"var|array-(4,)-['x']|rpc=-1": {"fresh": true, "inner-fresh": true, "inner-is-chunks": false, "inner-is-sizes": false, "ok": ["dict", ["str:'preferred_chunksizes'", ["dict", ["str:'x'", "int:4"]]]]},
"var|array-(4,)-['x']|rpc=1": {"fresh": true, "inner-fresh": true, "inner-is-chunks": false, "inner-is-sizes": false, "ok": ["dict", ["str:'preferred_chunksizes'", ["dict", ["str:'x'", "int:1"]]]]},
"var|array-(4,)-['x']|rpc=100": {"fresh": true, "inner-fresh": true, "inner-is-chunks": false, "inner-is-sizes": false, "ok": ["dict", ["str:'preferred_chunksizes'", ["dict", ["str:'x'", "int:4"]]]]},
"var|array-(4,)-['x']|rpc=1kB": {"fresh": true, "inner-fresh": true, "inner-is-chunks": false, "inner-is-sizes": false, "ok": ["dict", ["str:'preferred_chunksizes'", ["dict", ["str:'x'", "int64:np.int64(4)"]]]]},
"var|array-(4,)-['x']|rpc=2": {"fresh": true, "inner-fresh": true, "inner-is-chunks": false, "inner-is-sizes": false, "ok": ["dict", ["str:'preferred_chunksizes'", ["dict", ["str:'x'", "int:2"]]]]},
"var|array-(4,)-['x']|rpc=3": {"fresh": true, "inner-fresh": true, "inner-is-chunks": false, "inner-is-sizes": false, "ok": ["dict", ["str:'preferred_chunksizes'", ["dict", ["str:'x'", "int:3"]]]]},
"var|array-(4,)-['x']|rpc=4": {"fresh": true, "inner-fresh": true, "inner-is-chunks": false, "inner-is-sizes": false, "ok": ["dict", ["str:'preferred_chunksizes'", ["dict", ["str:'x'", "int:4"]]]]},
"var|array-(4,)-['x']|rpc=80B": {"fresh": true, "inner-fresh": true, "inner-is-chunks": false, "inner-is-sizes": false, "ok": ["dict", ["str:'preferred_chunksizes'", ["dict", ["str:'x'", "int64:np.int64(2)"]]]]},
"var|array-(4,)-['x']|rpc=None": {"fresh": true, "inner-fresh": true, "inner-is-chunks": false, "inner-is-sizes": false, "ok": ["dict", ["str:'preferred_chunksizes'", ["dict", ["str:'x'", "int:1024"]]]]},
"var|array-(4,)-['x']|rpc=auto": {"fresh": true, "inner-fresh": true, "inner-is-chunks": false, "inner-is-sizes": false, "ok": ["dict", ["str:'preferred_chunksizes'", ["dict", ["str:'x'", "int64:np.int64(4)"]]]]},
"var|array-(4,)-x|forced=-1": {"fresh": true, "inner-fresh": true, "inner-is-chunks": false, "inner-is-sizes": false, "ok": ["dict", ["str:'preferred_chunksizes'", ["dict", ["str:'x'", "int:4"]]]]},
"var|array-(4,)-x|forced=-2": {"fresh": true, "inner-fresh": true, "inner-is-chunks": false, "inner-is-sizes": false, "ok": ["dict", ["str:'preferred_chunksizes'", ["dict", ["str:'x'", "int:-2"]]]]},
"var|array-(4,)-x|forced=0": {"fresh": true, "inner-fresh": true, "inner-is-chunks": false, "inner-is-sizes": false, "ok": ["dict", ["str:'preferred_chunksizes'", ["dict", ["str:'x'", "int:0"]]]]},
"var|array-(4,)-x|forced=2.0": {"fresh": true, "inner-fresh": true, "inner-is-chunks": false, "inner-is-sizes": false, "ok": ["dict", ["str:'preferred_chunksizes'", ["dict", ["str:'x'", "float:2.0"]]]]},
"var|array-(4,)-x|forced=None": {"fresh": true, "ok": ["dict"]},
"var|array-(4,)-x|forced=np.int64(-1)": {"fresh": true, "inner-fresh": true, "inner-is-chunks": false, "inner-is-sizes": false, "ok": ["dict", ["str:'preferred_chunksizes'", ["dict", ["str:'x'", "int:4"]]]]},
"var|array-(4,)-x|rpc=-1": {"fresh": true, "inner-fresh": true, "inner-is-chunks": false, "inner-is-sizes": false, "ok": ["dict", ["str:'preferred_chunksizes'", ["dict", ["str:'x'", "int:4"]]]]},
"var|array-(4,)-x|rpc=1": {"fresh": true, "inner-fresh": true, "inner-is-chunks": false, "inner-is-sizes": false, "ok": ["dict", ["str:'preferred_chunksizes'", ["dict", ["str:'x'", "int:1"]]]]},
"var|array-(4,)-x|rpc=100": {"fresh": true, "inner-fresh": true, "inner-is-chunks": false, "inner-is-sizes": false, "ok": ["dict", ["str:'preferred_chunksizes'", ["dict", ["str:'x'", "int:4"]]]]},
"var|array-(4,)-x|rpc=1kB": {"fresh": true, "inner-fresh": true, "inner-is-chunks": false, "inner-is-sizes": false, "ok": ["dict", ["str:'preferred_chunksizes'", ["dict", ["str:'x'", "int64:np.int64(4)"]]]]},
"var|array-(4,)-x|rpc=2": {"fresh": true, "inner-fresh": true, "inner-is-chunks": false, "inner-is-sizes": false, "ok": ["dict", ["str:'preferred_chunksizes'", ["dict", ["str:'x'", "int:2"]]]]},
"var|array-(4,)-x|rpc=3": {"fresh": true, "inner-fresh": true, "inner-is-chunks": false, "inner-is-sizes": false, "ok": ["dict", ["str:'preferred_chunksizes'", ["dict", ["str:'x'", "int:3"]]]]},
"var|array-(4,)-x|rpc=4": {"fresh": true, "inner-fresh": true, "inner-is-chunks": false, "inner-is-sizes": false, "ok": ["dict", ["str:'preferred_chunksizes'", ["dict", ["str:'x'", "int:4"]]]]},
"var|array-(4,)-x|rpc=80B": {"fresh": true, "inner-fresh": true, "inner-is-chunks": false, "inner-is-sizes": false, "ok": ["dict", ["str:'preferred_chunksizes'", ["dict", ["str:'x'", "int64:np.int64(2)"]]]]},
"var|array-(4,)-x|rpc=None": {"fresh": true, "inner-fresh": true, "inner-is-chunks": false, "inner-is-sizes": false, "ok": ["dict", ["str:'preferred_chunksizes'", ["dict", ["str:'x'", "int:1024"]]]]},
"var|array-(4,)-x|rpc=auto": {"fresh": true, "inner-fresh": true, "inner-is-chunks": false, "inner-is-sizes": false, "ok": ["dict", ["str:'preferred_chunksizes'", ["dict", ["str:'x'", "int64:np.int64(4)"]]]]},
"var|array-(6, 2, 5)-['t', 'y', 'x']|forced=-1": {"fresh": true, "inner-fresh": true, "inner-is-chunks": false, "inner-is-sizes": false, "ok": ["dict", ["str:'preferred_chunksizes'", ["dict", ["str:'t'", "int:6"], ["str:'y'", "int:2"], ["str:'x'", "int:5"]]]]},
"var|array-(6, 2, 5)-['t', 'y', 'x']|forced=-2": {"fresh": true, "inner-fresh": true, "inner-is-chunks": false, "inner-is-sizes": false, "ok": ["dict", ["str:'preferred_chunksizes'", ["dict", ["str:'t'", "int:-2"], ["str:'y'", "int:2"], ["str:'x'", "int:5"]]]]},
"var|array-(6, 2, 5)-['t', 'y', 'x']|forced=0": {"fresh": true, "inner-fresh": true, "inner-is-chunks": false, "inner-is-sizes": false, "ok": ["dict", ["str:'preferred_chunksizes'", ["dict", ["str:'t'", "int:0"], ["str:'y'", "int:2"], ["str:'x'", "int:5"]]]]},
"var|array-(6, 2, 5)-['t', 'y', 'x']|forced=2.0": {"fresh": true, "inner-fresh": true, "inner-is-chunks": false, "inner-is-sizes": false, "ok": ["dict", ["str:'preferred_chunksizes'", ["dict", ["str:'t'", "float:2.0"], ["str:'y'", "int:2"], ["str:'x'", "int:5"]]]]},
"var|array-(6, 2, 5)-['t', 'y', 'x']|forced=None": {"fresh": true, "inner-fresh": true, "inner-is-chunks": false, "inner-is-sizes": false, "ok": ["dict", ["str:'preferred_chunksizes'", ["dict", ["str:'t'", "int:6"], ["str:'y'", "int:2"], ["str:'x'", "int:5"]]]]},
"var|array-(6, 2, 5)-['t', 'y', 'x']|forced=np.int64(-1)": {"fresh": true, "inner-fresh": true, "inner-is-chunks": false, "inner-is-sizes": false, "ok": ["dict", ["str:'preferred_chunksizes'", ["dict", ["str:'t'", "int:6"], ["str:'y'", "int:2"], ["str:'x'", "int:5"]]]]},
"var|array-(6, 2, 5)-['t', 'y', 'x']|rpc=-1": {"fresh": true, "inner-fresh": true, "inner-is-chunks": false, "inner-is-sizes": false, "ok": ["dict", ["str:'preferred_chunksizes'", ["dict", ["str:'t'", "int:6"], ["str:'y'", "int:2"], ["str:'x'", "int:5"]]]]},
"var|array-(6, 2, 5)-['t', 'y', 'x']|rpc=1": {"fresh": true, "inner-fresh": true, "inner-is-chunks": false, "inner-is-sizes": false, "ok": ["dict", ["str:'preferred_chunksizes'", ["dict", ["str:'t'", "int:1"], ["str:'y'", "int:2"], ["str:'x'", "int:5"]]]]},
"var|array-(6, 2, 5)-['t', 'y', 'x']|rpc=100": {"fresh": true, "inner-fresh": true, "inner-is-chunks": false, "inner-is-sizes": false, "ok": ["dict", ["str:'preferred_chunksizes'", ["dict", ["str:'t'", "int:6"], ["str:'y'", "int:2"], ["str:'x'", "int:5"]]]]},
"var|array-(6, 2, 5)-['t', 'y', 'x']|rpc=1kB": {"fresh": true, "inner-fresh": true, "inner-is-chunks": false, "inner-is-sizes": false, "ok": ["dict", ["str:'preferred_chunksizes'", ["dict", ["str:'t'", "int64:np.int64(6)"], ["str:'y'", "int:2"], ["str:'x'", "int:5"]]]]},
"var|array-(6, 2, 5)-['t', 'y', 'x']|rpc=2": {"fresh": true, "inner-fresh": true, "inner-is-chunks": false, "inner-is-sizes": false, "ok": ["dict", ["str:'preferred_chunksizes'", ["dict", ["str:'t'", "int:2"], ["str:'y'", "int:2"], ["str:'x'", "int:5"]]]]},
"var|array-(6, 2, 5)-['t', 'y', 'x']|rpc=3": {"fresh": true, "inner-fresh": true, "inner-is-chunks": false, "inner-is-sizes": false, "ok": ["dict", ["str:'preferred_chunksizes'", ["dict", ["str:'t'", "int:3"], ["str:'y'", "int:2"], ["str:'x'", "int:5"]]]]},
"var|array-(6, 2, 5)-['t', 'y', 'x']|rpc=4": {"fresh": true, "inner-fresh": true, "inner-is-chunks": false, "inner-is-sizes": false, "ok": ["dict", ["str:'preferred_chunksizes'", ["dict", ["str:'t'", "int:4"], ["str:'y'", "int:2"], ["str:'x'", "int:5"]]]]},
"var|array-(6, 2, 5)-['t', 'y', 'x']|rpc=80B": {"fresh": true, "inner-fresh": true, "inner-is-chunks": false, "inner-is-sizes": false, "ok": ["dict", ["str:'preferred_chunksizes'", ["dict", ["str:'t'", "int64:np.int64(2)"], ["str:'y'", "int:2"], ["str:'x'", "int:5"]]]]},
"var|array-(6, 2, 5)-['t', 'y', 'x']|rpc=None": {"fresh": true, "inner-fresh": true, "inner-is-chunks": false, "inner-is-sizes": false, "ok": ["dict", ["str:'preferred_chunksizes'", ["dict", ["str:'t'", "int:1024"], ["str:'y'", "int:2"], ["str:'x'", "int:5"]]]]},
"var|array-(6, 2, 5)-['t', 'y', 'x']|rpc=auto": {"fresh": true, "inner-fresh": true, "inner-is-chunks": false, "inner-is-sizes": false, "ok": ["dict", ["str:'preferred_chunksizes'", ["dict", ["str:'t'", "int64:np.int64(6)"], ["str:'y'", "int:2"], ["str:'x'", "int:5"]]]]},
"var|array-shape=(-1, 3)": {"fresh": true, "inner-fresh": true, "inner-is-chunks": false, "inner-is-sizes": false, "ok": ["dict", ["str:'preferred_chunksizes'", ["dict", ["str:'a'", "int:2"], ["str:'b'", "int:3"]]]]},
"var|array-shape=(-1, 3)|forced=None": {"fresh": true, "inner-fresh": true, "inner-is-chunks": false, "inner-is-sizes": false, "ok": ["dict", ["str:'preferred_chunksizes'", ["dict", ["str:'a'", "int:-1"], ["str:'b'", "int:3"]]]]},
"var|array-shape=(4, -1)": {"fresh": true, "inner-fresh": true, "inner-is-chunks": false, "inner-is-sizes": false, "ok": ["dict", ["str:'preferred_chunksizes'", ["dict", ["str:'a'", "int:2"], ["str:'b'", "int:-1"]]]]},
"var|array-shape=(4, -1)|forced=None": {"fresh": true, "inner-fresh": true, "inner-is-chunks": false, "inner-is-sizes": false, "ok": ["dict", ["str:'preferred_chunksizes'", ["dict", ["str:'a'", "int:4"], ["str:'b'", "int:-1"]]]]},
"var|array-shape=(4, None)": {"fresh": true, "inner-fresh": true, "inner-is-chunks": false, "inner-is-sizes": false, "ok": ["dict", ["str:'preferred_chunksizes'", ["dict", ["str:'a'", "int:2"], ["str:'b'", "NoneType:None"]]]]},
"var|array-shape=(4, None)|forced=None": {"fresh": true, "ok": ["dict"]},
"var|array-shape=(None, None)": {"fresh": true, "inner-fresh": true, "inner-is-chunks": false, "inner-is-sizes": false, "ok": ["dict", ["str:'preferred_chunksizes'", ["dict", ["str:'a'", "int:2"], ["str:'b'", "NoneType:None"]]]]},
"var|array-shape=(None, None)|forced=None": {"fresh": true, "ok": ["dict"]},
"var|duplicate-dims": {"fresh": true, "inner-fresh": true, "inner-is-chunks": false, "inner-is-sizes": false, "ok": ["dict", ["str:'preferred_chunksizes'", ["dict", ["str:'a'", "int:3"]]]]},
"var|duplicate-dims|forced=-1": {"fresh": true, "inner-fresh": true, "inner-is-chunks": false, "inner-is-sizes": false, "ok": ["dict", ["str:'preferred_chunksizes'", ["dict", ["str:'a'", "int:3"]]]]},
"var|list-data": {"fresh": true, "ok": ["dict"]},
"var|numpy-0d": {"fresh": true, "ok": ["dict"]},
"var|numpy-1d": {"fresh": true, "ok": ["dict"]},
"var|numpy-2d": {"fresh": true, "ok": ["dict"]},
"var|too-few-dims": {"fresh": true, "inner-fresh": true, "inner-is-chunks": false, "inner-is-sizes": false, "ok": ["dict", ["str:'preferred_chunksizes'", ["dict", ["str:'a'", "int:2"]]]]},
"var|too-many-dims": {"fresh": true, "inner-fresh": true, "inner-is-chunks": false, "inner-is-sizes": false, "ok": ["dict", ["str:'preferred_chunksizes'", ["dict", ["str:'a'", "int:2"], ["str:'b'", "int:3"]]]]},
"var|too-many-dims|forced=None": {"fresh": true, "inner-fresh": true, "inner-is-chunks": false, "inner-is-sizes": false, "ok": ["dict", ["str:'preferred_chunksizes'", ["dict", ["str:'a'", "int:4"], ["str:'b'", "int:3"]]]]}
}
"""
    if "--record" not in sys.argv
    else "{}"
)

if __name__ == "__main__":
    if "--record" in sys.argv:
        print(json.dumps({"EXPECTED": collect()}))
    else:
        test_equivalence()
        print(f"ok: {len(EXPECTED)} observations identical")
