"""equivalence check for refactoring 1: run with the worktree on PYTHONPATH

    python equiv.py        compare against the outcomes recorded from the unchanged code
    pytest equiv.py        the same, as a test
"""
import json
import sys

import numpy as np


def canon(obj):
    """type-preserving, JSON-compatible description of a result"""
    if obj is None:
        return ["None"]
    if isinstance(obj, bool):
        return ["bool", obj]
    if isinstance(obj, np.generic):
        return [f"numpy.{type(obj).__name__}", repr(obj.item())]
    if isinstance(obj, int):
        return ["int", obj]
    if isinstance(obj, float):
        return ["float", repr(obj)]
    if isinstance(obj, complex):
        return ["complex", repr(obj)]
    if isinstance(obj, str):
        return ["str", obj]
    if isinstance(obj, (bytes, bytearray)):
        return [type(obj).__name__, bytes(obj).hex()]
    if isinstance(obj, np.ndarray):
        return ["ndarray", obj.dtype.str, list(obj.shape), np.ascontiguousarray(obj).tobytes().hex()]
    if isinstance(obj, np.dtype):
        return ["dtype", obj.str]
    if type(obj) in (tuple, list):
        return [type(obj).__name__, [canon(item) for item in obj]]
    if type(obj) is dict:
        return ["dict", [[canon(key), canon(value)] for key, value in obj.items()]]
    if isinstance(obj, slice):
        return ["slice", canon(obj.start), canon(obj.stop), canon(obj.step)]
    return ["object", type(obj).__module__ + "." + type(obj).__qualname__, repr(obj)]


def outcome(func, *args, _message=True, **kwargs):
    """result or exception of a call, as comparable data"""
    try:
        result = func(*args, **kwargs)
    except Exception as e:  # noqa: BLE001
        return ["raise", type(e).__name__, str(e) if _message else "<not compared>"]
    return ["ok", canon(result)]


import fsspec
from fsspec.implementations.dirfs import DirFileSystem

from ceos_alos2 import array

REGULAR = [(0, 3), (3, 6), (6, 9), (9, 12), (12, 15), (15, 18)]
GAPS = [(5, 10), (15, 20), (25, 30), (35, 40), (45, 50)]
UNSORTED = [(30, 40), (0, 10), (50, 55), (12, 20), (41, 49), (10, 12), (60, 61)]
OVERLAPPING = [(0, 10), (5, 8), (7, 30), (2, 4)]


def collect():
    results = {}

    def record(label, func, *args, **kwargs):
        assert label not in results, label
        results[label] = outcome(func, *args, **kwargs)

    # compute_chunk_ranges / compute_chunk_offsets: well-formed input
    layouts = {
        "regular": REGULAR,
        "gaps": GAPS,
        "unsorted": UNSORTED,
        "overlapping": OVERLAPPING,
        "single": [(7, 19)],
        "empty": [],
        "lists": [list(r) for r in GAPS],
        "tuple": tuple(UNSORTED),
        "extra-items": [(0, 3, "a"), (3, 9, "b"), (9, 10, "c")],
        "float": [(0.0, 1.5), (1.5, 4.0), (4.0, 4.25)],
    }
    sizes = [1, 2, 3, 4, 5, 6, 7, 8, 100, 0, -1, -3, True, False, np.int64(2), np.int32(4), np.uint8(3)]
    for name, ranges in layouts.items():
        for size in sizes:
            label = f"{name}-{type(size).__name__}:{size}"
            record(f"ranges-{label}", array.compute_chunk_ranges, ranges, size)
            record(f"offsets-{label}", array.compute_chunk_offsets, ranges, size)

    # other kinds of iterables
    for size in (1, 2, 3, 4, 5, 0, -2):
        record(f"ranges-generator-{size}", array.compute_chunk_ranges, (r for r in UNSORTED), size)
        record(f"ranges-iter-{size}", array.compute_chunk_ranges, iter(GAPS), size)
        record(f"ranges-dictvalues-{size}", array.compute_chunk_ranges, dict(enumerate(GAPS)).values(), size)
        record(f"ranges-ndarray-{size}", array.compute_chunk_ranges, np.array(UNSORTED), size)
        record(f"offsets-ndarray-{size}", array.compute_chunk_offsets, np.array(UNSORTED, dtype=">u4"), size)
        record(f"offsets-generator-{size}", array.compute_chunk_offsets, (r for r in GAPS), size)

    # the iterable is consumed in order and completely
    class Spy:
        def __init__(self, items):
            self.items = items
            self.log = []

        def __iter__(self):
            for index, item in enumerate(self.items):
                self.log.append(index)
                yield item

    for size in (1, 3, 0, -1):
        spy = Spy(GAPS)
        record(f"ranges-spy-{size}", array.compute_chunk_ranges, spy, size)
        results[f"ranges-spy-{size}-log"] = canon(spy.log)

    # invalid chunk sizes / inputs: same exception type (the message of the
    # rejected multiplier came from list repetition and is not compared)
    for size in (2.0, None, "2", 1.5, [2], np.float64(2.0)):
        label = f"{type(size).__name__}:{size}"
        record(f"ranges-badsize-{label}", array.compute_chunk_ranges, REGULAR, size, _message=False)
        record(f"ranges-badsize-empty-{label}", array.compute_chunk_ranges, [], size, _message=False)
        record(f"offsets-badsize-{label}", array.compute_chunk_offsets, REGULAR, size, _message=False)
    for size in (2, 0, -1):
        record(f"ranges-none-{size}", array.compute_chunk_ranges, None, size)
        record(f"ranges-int-{size}", array.compute_chunk_ranges, 5, size)
        record(f"offsets-none-{size}", array.compute_chunk_offsets, None, size)
    # (the wording for items that are no pairs at all is not compared)
    record("ranges-scalars", array.compute_chunk_ranges, [1, 2, 3], 2, _message=False)
    record("ranges-mixed-types", array.compute_chunk_ranges, [(0, 3), ("a", 6)], 2)
    record("ranges-mixed-types-stop", array.compute_chunk_ranges, [(0, 3), (3, "b")], 2)
    record("ranges-mixed-types-separate", array.compute_chunk_ranges, [(0, 3), ("a", "b")], 1)
    record("ranges-none-item", array.compute_chunk_ranges, [(0, 3), None], 2, _message=False)
    record("ranges-strings", array.compute_chunk_ranges, ["ab", "cd", "ba"], 2)
    record("offsets-strings", array.compute_chunk_offsets, ["ab", "cd", "ba"], 2)

    # to_offset_size
    conversions = {
        "regular": {0: (0, 3), 1: (3, 9), 2: (9, 16)},
        "gaps": {0: (0, 3), 1: (17, 18), 2: (31, 100)},
        "empty": {},
        "lists": {0: [4, 9], 1: [9, 11]},
        "keys": {"a": (1, 2), (1, 2): (3, 7), None: (0, 0), 2.5: (9, 3)},
        "numpy": {np.int64(0): (np.int64(3), np.int64(10)), 1: (np.uint8(4), np.uint8(9))},
        "floats": {0: (0.5, 2.0)},
        "reversed-order": {3: (30, 40), 1: (10, 20), 2: (20, 30)},
        "generators": {0: iter((3, 4))},
        "too-long": {0: (0, 3), 1: (3, 6, 9)},
        "too-short": {0: (0, 3), 1: (3,)},
        "scalar": {0: 5},
        "strings": {0: ("a", "b")},
        "string-pair": {0: "ab"},
    }
    for name, ranges in conversions.items():
        record(f"to_offset_size-{name}", array.to_offset_size, ranges)
    record("to_offset_size-list", array.to_offset_size, [(0, 3)])
    record("to_offset_size-none", array.to_offset_size, None)

    # a fresh dict, independent of the input
    source = {0: (0, 3)}
    converted = array.to_offset_size(source)
    converted[0]["offset"] = 7
    converted[1] = None
    results["to_offset_size-independent"] = canon(source)

    # through the constructor of Array
    fs = DirFileSystem(fs=fsspec.filesystem("memory"), path="/")

    def chunking(byte_ranges, shape, records_per_chunk):
        arr = array.Array(
            fs=fs,
            url="image",
            byte_ranges=byte_ranges,
            shape=shape,
            dtype="uint16",
            type_code="IU2",
            records_per_chunk=records_per_chunk,
        )
        return arr.records_per_chunk, arr.chunk_offsets, arr.chunks

    rows = [(12 + 52 * n, 52 + 52 * n) for n in range(9)]
    for rpc in (None, -1, 1, 2, 4, 8, 9, 10, 1000, 0, -2, "auto", "80B", "100B", "1kB", "0B", True, np.int64(3)):
        record(f"Array-{type(rpc).__name__}:{rpc}", chunking, rows, (9, 20), rpc)
        record(f"Array-lists-{type(rpc).__name__}:{rpc}", chunking, [list(r) for r in rows], (9, 20), rpc)
    record("Array-empty", chunking, [], (0, 20), 2)
    record("Array-empty-auto", chunking, [], (0, 20), "auto", _message=False)
    record("Array-float", chunking, rows, (9, 20), 2.0, _message=False)

    return results


EXPECTED = r'''{
"ranges-regular-int:1": ["ok", ["dict", [[["int", 0], ["tuple", [["int", 0], ["int", 3]]]], [["int", 1], ["tuple", [["int", 3], ["int", 6]]]], [["int", 2], ["tuple", [["int", 6], ["int", 9]]]], [["int", 3], ["tuple", [["int", 9], ["int", 12]]]], [["int", 4], ["tuple", [["int", 12], ["int", 15]]]], [["int", 5], ["tuple", [["int", 15], ["int", 18]]]]]]],
"offsets-regular-int:1": ["ok", ["dict", [[["int", 0], ["dict", [[["str", "offset"], ["int", 0]], [["str", "size"], ["int", 3]]]]], [["int", 1], ["dict", [[["str", "offset"], ["int", 3]], [["str", "size"], ["int", 3]]]]], [["int", 2], ["dict", [[["str", "offset"], ["int", 6]], [["str", "size"], ["int", 3]]]]], [["int", 3], ["dict", [[["str", "offset"], ["int", 9]], [["str", "size"], ["int", 3]]]]], [["int", 4], ["dict", [[["str", "offset"], ["int", 12]], [["str", "size"], ["int", 3]]]]], [["int", 5], ["dict", [[["str", "offset"], ["int", 15]], [["str", "size"], ["int", 3]]]]]]]],
"ranges-regular-int:2": ["ok", ["dict", [[["int", 0], ["tuple", [["int", 0], ["int", 6]]]], [["int", 1], ["tuple", [["int", 6], ["int", 12]]]], [["int", 2], ["tuple", [["int", 12], ["int", 18]]]]]]],
"offsets-regular-int:2": ["ok", ["dict", [[["int", 0], ["dict", [[["str", "offset"], ["int", 0]], [["str", "size"], ["int", 6]]]]], [["int", 1], ["dict", [[["str", "offset"], ["int", 6]], [["str", "size"], ["int", 6]]]]], [["int", 2], ["dict", [[["str", "offset"], ["int", 12]], [["str", "size"], ["int", 6]]]]]]]],
"ranges-regular-int:3": ["ok", ["dict", [[["int", 0], ["tuple", [["int", 0], ["int", 9]]]], [["int", 1], ["tuple", [["int", 9], ["int", 18]]]]]]],
"offsets-regular-int:3": ["ok", ["dict", [[["int", 0], ["dict", [[["str", "offset"], ["int", 0]], [["str", "size"], ["int", 9]]]]], [["int", 1], ["dict", [[["str", "offset"], ["int", 9]], [["str", "size"], ["int", 9]]]]]]]],
"ranges-regular-int:4": ["ok", ["dict", [[["int", 0], ["tuple", [["int", 0], ["int", 12]]]], [["int", 1], ["tuple", [["int", 12], ["int", 18]]]]]]],
"offsets-regular-int:4": ["ok", ["dict", [[["int", 0], ["dict", [[["str", "offset"], ["int", 0]], [["str", "size"], ["int", 12]]]]], [["int", 1], ["dict", [[["str", "offset"], ["int", 12]], [["str", "size"], ["int", 6]]]]]]]],
"ranges-regular-int:5": ["ok", ["dict", [[["int", 0], ["tuple", [["int", 0], ["int", 15]]]], [["int", 1], ["tuple", [["int", 15], ["int", 18]]]]]]],
"offsets-regular-int:5": ["ok", ["dict", [[["int", 0], ["dict", [[["str", "offset"], ["int", 0]], [["str", "size"], ["int", 15]]]]], [["int", 1], ["dict", [[["str", "offset"], ["int", 15]], [["str", "size"], ["int", 3]]]]]]]],
"ranges-regular-int:6": ["ok", ["dict", [[["int", 0], ["tuple", [["int", 0], ["int", 18]]]]]]],
"offsets-regular-int:6": ["ok", ["dict", [[["int", 0], ["dict", [[["str", "offset"], ["int", 0]], [["str", "size"], ["int", 18]]]]]]]],
"ranges-regular-int:7": ["ok", ["dict", [[["int", 0], ["tuple", [["int", 0], ["int", 18]]]]]]],
"offsets-regular-int:7": ["ok", ["dict", [[["int", 0], ["dict", [[["str", "offset"], ["int", 0]], [["str", "size"], ["int", 18]]]]]]]],
"ranges-regular-int:8": ["ok", ["dict", [[["int", 0], ["tuple", [["int", 0], ["int", 18]]]]]]],
"offsets-regular-int:8": ["ok", ["dict", [[["int", 0], ["dict", [[["str", "offset"], ["int", 0]], [["str", "size"], ["int", 18]]]]]]]],
"ranges-regular-int:100": ["ok", ["dict", [[["int", 0], ["tuple", [["int", 0], ["int", 18]]]]]]],
"offsets-regular-int:100": ["ok", ["dict", [[["int", 0], ["dict", [[["str", "offset"], ["int", 0]], [["str", "size"], ["int", 18]]]]]]]],
"ranges-regular-int:0": ["ok", ["dict", []]],
"offsets-regular-int:0": ["ok", ["dict", []]],
"ranges-regular-int:-1": ["ok", ["dict", []]],
"offsets-regular-int:-1": ["ok", ["dict", []]],
"ranges-regular-int:-3": ["ok", ["dict", []]],
"offsets-regular-int:-3": ["ok", ["dict", []]],
"ranges-regular-bool:True": ["ok", ["dict", [[["int", 0], ["tuple", [["int", 0], ["int", 3]]]], [["int", 1], ["tuple", [["int", 3], ["int", 6]]]], [["int", 2], ["tuple", [["int", 6], ["int", 9]]]], [["int", 3], ["tuple", [["int", 9], ["int", 12]]]], [["int", 4], ["tuple", [["int", 12], ["int", 15]]]], [["int", 5], ["tuple", [["int", 15], ["int", 18]]]]]]],
"offsets-regular-bool:True": ["ok", ["dict", [[["int", 0], ["dict", [[["str", "offset"], ["int", 0]], [["str", "size"], ["int", 3]]]]], [["int", 1], ["dict", [[["str", "offset"], ["int", 3]], [["str", "size"], ["int", 3]]]]], [["int", 2], ["dict", [[["str", "offset"], ["int", 6]], [["str", "size"], ["int", 3]]]]], [["int", 3], ["dict", [[["str", "offset"], ["int", 9]], [["str", "size"], ["int", 3]]]]], [["int", 4], ["dict", [[["str", "offset"], ["int", 12]], [["str", "size"], ["int", 3]]]]], [["int", 5], ["dict", [[["str", "offset"], ["int", 15]], [["str", "size"], ["int", 3]]]]]]]],
"ranges-regular-bool:False": ["ok", ["dict", []]],
"offsets-regular-bool:False": ["ok", ["dict", []]],
"ranges-regular-int64:2": ["ok", ["dict", [[["int", 0], ["tuple", [["int", 0], ["int", 6]]]], [["int", 1], ["tuple", [["int", 6], ["int", 12]]]], [["int", 2], ["tuple", [["int", 12], ["int", 18]]]]]]],
"offsets-regular-int64:2": ["ok", ["dict", [[["int", 0], ["dict", [[["str", "offset"], ["int", 0]], [["str", "size"], ["int", 6]]]]], [["int", 1], ["dict", [[["str", "offset"], ["int", 6]], [["str", "size"], ["int", 6]]]]], [["int", 2], ["dict", [[["str", "offset"], ["int", 12]], [["str", "size"], ["int", 6]]]]]]]],
"ranges-regular-int32:4": ["ok", ["dict", [[["int", 0], ["tuple", [["int", 0], ["int", 12]]]], [["int", 1], ["tuple", [["int", 12], ["int", 18]]]]]]],
"offsets-regular-int32:4": ["ok", ["dict", [[["int", 0], ["dict", [[["str", "offset"], ["int", 0]], [["str", "size"], ["int", 12]]]]], [["int", 1], ["dict", [[["str", "offset"], ["int", 12]], [["str", "size"], ["int", 6]]]]]]]],
"ranges-regular-uint8:3": ["ok", ["dict", [[["int", 0], ["tuple", [["int", 0], ["int", 9]]]], [["int", 1], ["tuple", [["int", 9], ["int", 18]]]]]]],
"offsets-regular-uint8:3": ["ok", ["dict", [[["int", 0], ["dict", [[["str", "offset"], ["int", 0]], [["str", "size"], ["int", 9]]]]], [["int", 1], ["dict", [[["str", "offset"], ["int", 9]], [["str", "size"], ["int", 9]]]]]]]],
"ranges-gaps-int:1": ["ok", ["dict", [[["int", 0], ["tuple", [["int", 5], ["int", 10]]]], [["int", 1], ["tuple", [["int", 15], ["int", 20]]]], [["int", 2], ["tuple", [["int", 25], ["int", 30]]]], [["int", 3], ["tuple", [["int", 35], ["int", 40]]]], [["int", 4], ["tuple", [["int", 45], ["int", 50]]]]]]],
"offsets-gaps-int:1": ["ok", ["dict", [[["int", 0], ["dict", [[["str", "offset"], ["int", 5]], [["str", "size"], ["int", 5]]]]], [["int", 1], ["dict", [[["str", "offset"], ["int", 15]], [["str", "size"], ["int", 5]]]]], [["int", 2], ["dict", [[["str", "offset"], ["int", 25]], [["str", "size"], ["int", 5]]]]], [["int", 3], ["dict", [[["str", "offset"], ["int", 35]], [["str", "size"], ["int", 5]]]]], [["int", 4], ["dict", [[["str", "offset"], ["int", 45]], [["str", "size"], ["int", 5]]]]]]]],
"ranges-gaps-int:2": ["ok", ["dict", [[["int", 0], ["tuple", [["int", 5], ["int", 20]]]], [["int", 1], ["tuple", [["int", 25], ["int", 40]]]], [["int", 2], ["tuple", [["int", 45], ["int", 50]]]]]]],
"offsets-gaps-int:2": ["ok", ["dict", [[["int", 0], ["dict", [[["str", "offset"], ["int", 5]], [["str", "size"], ["int", 15]]]]], [["int", 1], ["dict", [[["str", "offset"], ["int", 25]], [["str", "size"], ["int", 15]]]]], [["int", 2], ["dict", [[["str", "offset"], ["int", 45]], [["str", "size"], ["int", 5]]]]]]]],
"ranges-gaps-int:3": ["ok", ["dict", [[["int", 0], ["tuple", [["int", 5], ["int", 30]]]], [["int", 1], ["tuple", [["int", 35], ["int", 50]]]]]]],
"offsets-gaps-int:3": ["ok", ["dict", [[["int", 0], ["dict", [[["str", "offset"], ["int", 5]], [["str", "size"], ["int", 25]]]]], [["int", 1], ["dict", [[["str", "offset"], ["int", 35]], [["str", "size"], ["int", 15]]]]]]]],
"ranges-gaps-int:4": ["ok", ["dict", [[["int", 0], ["tuple", [["int", 5], ["int", 40]]]], [["int", 1], ["tuple", [["int", 45], ["int", 50]]]]]]],
"offsets-gaps-int:4": ["ok", ["dict", [[["int", 0], ["dict", [[["str", "offset"], ["int", 5]], [["str", "size"], ["int", 35]]]]], [["int", 1], ["dict", [[["str", "offset"], ["int", 45]], [["str", "size"], ["int", 5]]]]]]]],
"ranges-gaps-int:5": ["ok", ["dict", [[["int", 0], ["tuple", [["int", 5], ["int", 50]]]]]]],
"offsets-gaps-int:5": ["ok", ["dict", [[["int", 0], ["dict", [[["str", "offset"], ["int", 5]], [["str", "size"], ["int", 45]]]]]]]],
"ranges-gaps-int:6": ["ok", ["dict", [[["int", 0], ["tuple", [["int", 5], ["int", 50]]]]]]],
"offsets-gaps-int:6": ["ok", ["dict", [[["int", 0], ["dict", [[["str", "offset"], ["int", 5]], [["str", "size"], ["int", 45]]]]]]]],
"ranges-gaps-int:7": ["ok", ["dict", [[["int", 0], ["tuple", [["int", 5], ["int", 50]]]]]]],
"offsets-gaps-int:7": ["ok", ["dict", [[["int", 0], ["dict", [[["str", "offset"], ["int", 5]], [["str", "size"], ["int", 45]]]]]]]],
"ranges-gaps-int:8": ["ok", ["dict", [[["int", 0], ["tuple", [["int", 5], ["int", 50]]]]]]],
"offsets-gaps-int:8": ["ok", ["dict", [[["int", 0], ["dict", [[["str", "offset"], ["int", 5]], [["str", "size"], ["int", 45]]]]]]]],
"ranges-gaps-int:100": ["ok", ["dict", [[["int", 0], ["tuple", [["int", 5], ["int", 50]]]]]]],
"offsets-gaps-int:100": ["ok", ["dict", [[["int", 0], ["dict", [[["str", "offset"], ["int", 5]], [["str", "size"], ["int", 45]]]]]]]],
"ranges-gaps-int:0": ["ok", ["dict", []]],
"offsets-gaps-int:0": ["ok", ["dict", []]],
"ranges-gaps-int:-1": ["ok", ["dict", []]],
"offsets-gaps-int:-1": ["ok", ["dict", []]],
"ranges-gaps-int:-3": ["ok", ["dict", []]],
"offsets-gaps-int:-3": ["ok", ["dict", []]],
"ranges-gaps-bool:True": ["ok", ["dict", [[["int", 0], ["tuple", [["int", 5], ["int", 10]]]], [["int", 1], ["tuple", [["int", 15], ["int", 20]]]], [["int", 2], ["tuple", [["int", 25], ["int", 30]]]], [["int", 3], ["tuple", [["int", 35], ["int", 40]]]], [["int", 4], ["tuple", [["int", 45], ["int", 50]]]]]]],
"offsets-gaps-bool:True": ["ok", ["dict", [[["int", 0], ["dict", [[["str", "offset"], ["int", 5]], [["str", "size"], ["int", 5]]]]], [["int", 1], ["dict", [[["str", "offset"], ["int", 15]], [["str", "size"], ["int", 5]]]]], [["int", 2], ["dict", [[["str", "offset"], ["int", 25]], [["str", "size"], ["int", 5]]]]], [["int", 3], ["dict", [[["str", "offset"], ["int", 35]], [["str", "size"], ["int", 5]]]]], [["int", 4], ["dict", [[["str", "offset"], ["int", 45]], [["str", "size"], ["int", 5]]]]]]]],
"ranges-gaps-bool:False": ["ok", ["dict", []]],
"offsets-gaps-bool:False": ["ok", ["dict", []]],
"ranges-gaps-int64:2": ["ok", ["dict", [[["int", 0], ["tuple", [["int", 5], ["int", 20]]]], [["int", 1], ["tuple", [["int", 25], ["int", 40]]]], [["int", 2], ["tuple", [["int", 45], ["int", 50]]]]]]],
"offsets-gaps-int64:2": ["ok", ["dict", [[["int", 0], ["dict", [[["str", "offset"], ["int", 5]], [["str", "size"], ["int", 15]]]]], [["int", 1], ["dict", [[["str", "offset"], ["int", 25]], [["str", "size"], ["int", 15]]]]], [["int", 2], ["dict", [[["str", "offset"], ["int", 45]], [["str", "size"], ["int", 5]]]]]]]],
"ranges-gaps-int32:4": ["ok", ["dict", [[["int", 0], ["tuple", [["int", 5], ["int", 40]]]], [["int", 1], ["tuple", [["int", 45], ["int", 50]]]]]]],
"offsets-gaps-int32:4": ["ok", ["dict", [[["int", 0], ["dict", [[["str", "offset"], ["int", 5]], [["str", "size"], ["int", 35]]]]], [["int", 1], ["dict", [[["str", "offset"], ["int", 45]], [["str", "size"], ["int", 5]]]]]]]],
"ranges-gaps-uint8:3": ["ok", ["dict", [[["int", 0], ["tuple", [["int", 5], ["int", 30]]]], [["int", 1], ["tuple", [["int", 35], ["int", 50]]]]]]],
"offsets-gaps-uint8:3": ["ok", ["dict", [[["int", 0], ["dict", [[["str", "offset"], ["int", 5]], [["str", "size"], ["int", 25]]]]], [["int", 1], ["dict", [[["str", "offset"], ["int", 35]], [["str", "size"], ["int", 15]]]]]]]],
"ranges-unsorted-int:1": ["ok", ["dict", [[["int", 0], ["tuple", [["int", 30], ["int", 40]]]], [["int", 1], ["tuple", [["int", 0], ["int", 10]]]], [["int", 2], ["tuple", [["int", 50], ["int", 55]]]], [["int", 3], ["tuple", [["int", 12], ["int", 20]]]], [["int", 4], ["tuple", [["int", 41], ["int", 49]]]], [["int", 5], ["tuple", [["int", 10], ["int", 12]]]], [["int", 6], ["tuple", [["int", 60], ["int", 61]]]]]]],
"offsets-unsorted-int:1": ["ok", ["dict", [[["int", 0], ["dict", [[["str", "offset"], ["int", 30]], [["str", "size"], ["int", 10]]]]], [["int", 1], ["dict", [[["str", "offset"], ["int", 0]], [["str", "size"], ["int", 10]]]]], [["int", 2], ["dict", [[["str", "offset"], ["int", 50]], [["str", "size"], ["int", 5]]]]], [["int", 3], ["dict", [[["str", "offset"], ["int", 12]], [["str", "size"], ["int", 8]]]]], [["int", 4], ["dict", [[["str", "offset"], ["int", 41]], [["str", "size"], ["int", 8]]]]], [["int", 5], ["dict", [[["str", "offset"], ["int", 10]], [["str", "size"], ["int", 2]]]]], [["int", 6], ["dict", [[["str", "offset"], ["int", 60]], [["str", "size"], ["int", 1]]]]]]]],
"ranges-unsorted-int:2": ["ok", ["dict", [[["int", 0], ["tuple", [["int", 0], ["int", 40]]]], [["int", 1], ["tuple", [["int", 12], ["int", 55]]]], [["int", 2], ["tuple", [["int", 10], ["int", 49]]]], [["int", 3], ["tuple", [["int", 60], ["int", 61]]]]]]],
"offsets-unsorted-int:2": ["ok", ["dict", [[["int", 0], ["dict", [[["str", "offset"], ["int", 0]], [["str", "size"], ["int", 40]]]]], [["int", 1], ["dict", [[["str", "offset"], ["int", 12]], [["str", "size"], ["int", 43]]]]], [["int", 2], ["dict", [[["str", "offset"], ["int", 10]], [["str", "size"], ["int", 39]]]]], [["int", 3], ["dict", [[["str", "offset"], ["int", 60]], [["str", "size"], ["int", 1]]]]]]]],
"ranges-unsorted-int:3": ["ok", ["dict", [[["int", 0], ["tuple", [["int", 0], ["int", 55]]]], [["int", 1], ["tuple", [["int", 10], ["int", 49]]]], [["int", 2], ["tuple", [["int", 60], ["int", 61]]]]]]],
"offsets-unsorted-int:3": ["ok", ["dict", [[["int", 0], ["dict", [[["str", "offset"], ["int", 0]], [["str", "size"], ["int", 55]]]]], [["int", 1], ["dict", [[["str", "offset"], ["int", 10]], [["str", "size"], ["int", 39]]]]], [["int", 2], ["dict", [[["str", "offset"], ["int", 60]], [["str", "size"], ["int", 1]]]]]]]],
"ranges-unsorted-int:4": ["ok", ["dict", [[["int", 0], ["tuple", [["int", 0], ["int", 55]]]], [["int", 1], ["tuple", [["int", 10], ["int", 61]]]]]]],
"offsets-unsorted-int:4": ["ok", ["dict", [[["int", 0], ["dict", [[["str", "offset"], ["int", 0]], [["str", "size"], ["int", 55]]]]], [["int", 1], ["dict", [[["str", "offset"], ["int", 10]], [["str", "size"], ["int", 51]]]]]]]],
"ranges-unsorted-int:5": ["ok", ["dict", [[["int", 0], ["tuple", [["int", 0], ["int", 55]]]], [["int", 1], ["tuple", [["int", 10], ["int", 61]]]]]]],
"offsets-unsorted-int:5": ["ok", ["dict", [[["int", 0], ["dict", [[["str", "offset"], ["int", 0]], [["str", "size"], ["int", 55]]]]], [["int", 1], ["dict", [[["str", "offset"], ["int", 10]], [["str", "size"], ["int", 51]]]]]]]],
"ranges-unsorted-int:6": ["ok", ["dict", [[["int", 0], ["tuple", [["int", 0], ["int", 55]]]], [["int", 1], ["tuple", [["int", 60], ["int", 61]]]]]]],
"offsets-unsorted-int:6": ["ok", ["dict", [[["int", 0], ["dict", [[["str", "offset"], ["int", 0]], [["str", "size"], ["int", 55]]]]], [["int", 1], ["dict", [[["str", "offset"], ["int", 60]], [["str", "size"], ["int", 1]]]]]]]],
"ranges-unsorted-int:7": ["ok", ["dict", [[["int", 0], ["tuple", [["int", 0], ["int", 61]]]]]]],
"offsets-unsorted-int:7": ["ok", ["dict", [[["int", 0], ["dict", [[["str", "offset"], ["int", 0]], [["str", "size"], ["int", 61]]]]]]]],
"ranges-unsorted-int:8": ["ok", ["dict", [[["int", 0], ["tuple", [["int", 0], ["int", 61]]]]]]],
"offsets-unsorted-int:8": ["ok", ["dict", [[["int", 0], ["dict", [[["str", "offset"], ["int", 0]], [["str", "size"], ["int", 61]]]]]]]],
"ranges-unsorted-int:100": ["ok", ["dict", [[["int", 0], ["tuple", [["int", 0], ["int", 61]]]]]]],
"offsets-unsorted-int:100": ["ok", ["dict", [[["int", 0], ["dict", [[["str", "offset"], ["int", 0]], [["str", "size"], ["int", 61]]]]]]]],
"ranges-unsorted-int:0": ["ok", ["dict", []]],
"offsets-unsorted-int:0": ["ok", ["dict", []]],
"ranges-unsorted-int:-1": ["ok", ["dict", []]],
"offsets-unsorted-int:-1": ["ok", ["dict", []]],
"ranges-unsorted-int:-3": ["ok", ["dict", []]],
"offsets-unsorted-int:-3": ["ok", ["dict", []]],
"ranges-unsorted-bool:True": ["ok", ["dict", [[["int", 0], ["tuple", [["int", 30], ["int", 40]]]], [["int", 1], ["tuple", [["int", 0], ["int", 10]]]], [["int", 2], ["tuple", [["int", 50], ["int", 55]]]], [["int", 3], ["tuple", [["int", 12], ["int", 20]]]], [["int", 4], ["tuple", [["int", 41], ["int", 49]]]], [["int", 5], ["tuple", [["int", 10], ["int", 12]]]], [["int", 6], ["tuple", [["int", 60], ["int", 61]]]]]]],
"offsets-unsorted-bool:True": ["ok", ["dict", [[["int", 0], ["dict", [[["str", "offset"], ["int", 30]], [["str", "size"], ["int", 10]]]]], [["int", 1], ["dict", [[["str", "offset"], ["int", 0]], [["str", "size"], ["int", 10]]]]], [["int", 2], ["dict", [[["str", "offset"], ["int", 50]], [["str", "size"], ["int", 5]]]]], [["int", 3], ["dict", [[["str", "offset"], ["int", 12]], [["str", "size"], ["int", 8]]]]], [["int", 4], ["dict", [[["str", "offset"], ["int", 41]], [["str", "size"], ["int", 8]]]]], [["int", 5], ["dict", [[["str", "offset"], ["int", 10]], [["str", "size"], ["int", 2]]]]], [["int", 6], ["dict", [[["str", "offset"], ["int", 60]], [["str", "size"], ["int", 1]]]]]]]],
"ranges-unsorted-bool:False": ["ok", ["dict", []]],
"offsets-unsorted-bool:False": ["ok", ["dict", []]],
"ranges-unsorted-int64:2": ["ok", ["dict", [[["int", 0], ["tuple", [["int", 0], ["int", 40]]]], [["int", 1], ["tuple", [["int", 12], ["int", 55]]]], [["int", 2], ["tuple", [["int", 10], ["int", 49]]]], [["int", 3], ["tuple", [["int", 60], ["int", 61]]]]]]],
"offsets-unsorted-int64:2": ["ok", ["dict", [[["int", 0], ["dict", [[["str", "offset"], ["int", 0]], [["str", "size"], ["int", 40]]]]], [["int", 1], ["dict", [[["str", "offset"], ["int", 12]], [["str", "size"], ["int", 43]]]]], [["int", 2], ["dict", [[["str", "offset"], ["int", 10]], [["str", "size"], ["int", 39]]]]], [["int", 3], ["dict", [[["str", "offset"], ["int", 60]], [["str", "size"], ["int", 1]]]]]]]],
"ranges-unsorted-int32:4": ["ok", ["dict", [[["int", 0], ["tuple", [["int", 0], ["int", 55]]]], [["int", 1], ["tuple", [["int", 10], ["int", 61]]]]]]],
"offsets-unsorted-int32:4": ["ok", ["dict", [[["int", 0], ["dict", [[["str", "offset"], ["int", 0]], [["str", "size"], ["int", 55]]]]], [["int", 1], ["dict", [[["str", "offset"], ["int", 10]], [["str", "size"], ["int", 51]]]]]]]],
"ranges-unsorted-uint8:3": ["ok", ["dict", [[["int", 0], ["tuple", [["int", 0], ["int", 55]]]], [["int", 1], ["tuple", [["int", 10], ["int", 49]]]], [["int", 2], ["tuple", [["int", 60], ["int", 61]]]]]]],
"offsets-unsorted-uint8:3": ["ok", ["dict", [[["int", 0], ["dict", [[["str", "offset"], ["int", 0]], [["str", "size"], ["int", 55]]]]], [["int", 1], ["dict", [[["str", "offset"], ["int", 10]], [["str", "size"], ["int", 39]]]]], [["int", 2], ["dict", [[["str", "offset"], ["int", 60]], [["str", "size"], ["int", 1]]]]]]]],
"ranges-overlapping-int:1": ["ok", ["dict", [[["int", 0], ["tuple", [["int", 0], ["int", 10]]]], [["int", 1], ["tuple", [["int", 5], ["int", 8]]]], [["int", 2], ["tuple", [["int", 7], ["int", 30]]]], [["int", 3], ["tuple", [["int", 2], ["int", 4]]]]]]],
"offsets-overlapping-int:1": ["ok", ["dict", [[["int", 0], ["dict", [[["str", "offset"], ["int", 0]], [["str", "size"], ["int", 10]]]]], [["int", 1], ["dict", [[["str", "offset"], ["int", 5]], [["str", "size"], ["int", 3]]]]], [["int", 2], ["dict", [[["str", "offset"], ["int", 7]], [["str", "size"], ["int", 23]]]]], [["int", 3], ["dict", [[["str", "offset"], ["int", 2]], [["str", "size"], ["int", 2]]]]]]]],
"ranges-overlapping-int:2": ["ok", ["dict", [[["int", 0], ["tuple", [["int", 0], ["int", 10]]]], [["int", 1], ["tuple", [["int", 2], ["int", 30]]]]]]],
"offsets-overlapping-int:2": ["ok", ["dict", [[["int", 0], ["dict", [[["str", "offset"], ["int", 0]], [["str", "size"], ["int", 10]]]]], [["int", 1], ["dict", [[["str", "offset"], ["int", 2]], [["str", "size"], ["int", 28]]]]]]]],
"ranges-overlapping-int:3": ["ok", ["dict", [[["int", 0], ["tuple", [["int", 0], ["int", 30]]]], [["int", 1], ["tuple", [["int", 2], ["int", 4]]]]]]],
"offsets-overlapping-int:3": ["ok", ["dict", [[["int", 0], ["dict", [[["str", "offset"], ["int", 0]], [["str", "size"], ["int", 30]]]]], [["int", 1], ["dict", [[["str", "offset"], ["int", 2]], [["str", "size"], ["int", 2]]]]]]]],
"ranges-overlapping-int:4": ["ok", ["dict", [[["int", 0], ["tuple", [["int", 0], ["int", 30]]]]]]],
"offsets-overlapping-int:4": ["ok", ["dict", [[["int", 0], ["dict", [[["str", "offset"], ["int", 0]], [["str", "size"], ["int", 30]]]]]]]],
"ranges-overlapping-int:5": ["ok", ["dict", [[["int", 0], ["tuple", [["int", 0], ["int", 30]]]]]]],
"offsets-overlapping-int:5": ["ok", ["dict", [[["int", 0], ["dict", [[["str", "offset"], ["int", 0]], [["str", "size"], ["int", 30]]]]]]]],
"ranges-overlapping-int:6": ["ok", ["dict", [[["int", 0], ["tuple", [["int", 0], ["int", 30]]]]]]],
"offsets-overlapping-int:6": ["ok", ["dict", [[["int", 0], ["dict", [[["str", "offset"], ["int", 0]], [["str", "size"], ["int", 30]]]]]]]],
"ranges-overlapping-int:7": ["ok", ["dict", [[["int", 0], ["tuple", [["int", 0], ["int", 30]]]]]]],
"offsets-overlapping-int:7": ["ok", ["dict", [[["int", 0], ["dict", [[["str", "offset"], ["int", 0]], [["str", "size"], ["int", 30]]]]]]]],
"ranges-overlapping-int:8": ["ok", ["dict", [[["int", 0], ["tuple", [["int", 0], ["int", 30]]]]]]],
"offsets-overlapping-int:8": ["ok", ["dict", [[["int", 0], ["dict", [[["str", "offset"], ["int", 0]], [["str", "size"], ["int", 30]]]]]]]],
"ranges-overlapping-int:100": ["ok", ["dict", [[["int", 0], ["tuple", [["int", 0], ["int", 30]]]]]]],
"offsets-overlapping-int:100": ["ok", ["dict", [[["int", 0], ["dict", [[["str", "offset"], ["int", 0]], [["str", "size"], ["int", 30]]]]]]]],
"ranges-overlapping-int:0": ["ok", ["dict", []]],
"offsets-overlapping-int:0": ["ok", ["dict", []]],
"ranges-overlapping-int:-1": ["ok", ["dict", []]],
"offsets-overlapping-int:-1": ["ok", ["dict", []]],
"ranges-overlapping-int:-3": ["ok", ["dict", []]],
"offsets-overlapping-int:-3": ["ok", ["dict", []]],
"ranges-overlapping-bool:True": ["ok", ["dict", [[["int", 0], ["tuple", [["int", 0], ["int", 10]]]], [["int", 1], ["tuple", [["int", 5], ["int", 8]]]], [["int", 2], ["tuple", [["int", 7], ["int", 30]]]], [["int", 3], ["tuple", [["int", 2], ["int", 4]]]]]]],
"offsets-overlapping-bool:True": ["ok", ["dict", [[["int", 0], ["dict", [[["str", "offset"], ["int", 0]], [["str", "size"], ["int", 10]]]]], [["int", 1], ["dict", [[["str", "offset"], ["int", 5]], [["str", "size"], ["int", 3]]]]], [["int", 2], ["dict", [[["str", "offset"], ["int", 7]], [["str", "size"], ["int", 23]]]]], [["int", 3], ["dict", [[["str", "offset"], ["int", 2]], [["str", "size"], ["int", 2]]]]]]]],
"ranges-overlapping-bool:False": ["ok", ["dict", []]],
"offsets-overlapping-bool:False": ["ok", ["dict", []]],
"ranges-overlapping-int64:2": ["ok", ["dict", [[["int", 0], ["tuple", [["int", 0], ["int", 10]]]], [["int", 1], ["tuple", [["int", 2], ["int", 30]]]]]]],
"offsets-overlapping-int64:2": ["ok", ["dict", [[["int", 0], ["dict", [[["str", "offset"], ["int", 0]], [["str", "size"], ["int", 10]]]]], [["int", 1], ["dict", [[["str", "offset"], ["int", 2]], [["str", "size"], ["int", 28]]]]]]]],
"ranges-overlapping-int32:4": ["ok", ["dict", [[["int", 0], ["tuple", [["int", 0], ["int", 30]]]]]]],
"offsets-overlapping-int32:4": ["ok", ["dict", [[["int", 0], ["dict", [[["str", "offset"], ["int", 0]], [["str", "size"], ["int", 30]]]]]]]],
"ranges-overlapping-uint8:3": ["ok", ["dict", [[["int", 0], ["tuple", [["int", 0], ["int", 30]]]], [["int", 1], ["tuple", [["int", 2], ["int", 4]]]]]]],
"offsets-overlapping-uint8:3": ["ok", ["dict", [[["int", 0], ["dict", [[["str", "offset"], ["int", 0]], [["str", "size"], ["int", 30]]]]], [["int", 1], ["dict", [[["str", "offset"], ["int", 2]], [["str", "size"], ["int", 2]]]]]]]],
"ranges-single-int:1": ["ok", ["dict", [[["int", 0], ["tuple", [["int", 7], ["int", 19]]]]]]],
"offsets-single-int:1": ["ok", ["dict", [[["int", 0], ["dict", [[["str", "offset"], ["int", 7]], [["str", "size"], ["int", 12]]]]]]]],
"ranges-single-int:2": ["ok", ["dict", [[["int", 0], ["tuple", [["int", 7], ["int", 19]]]]]]],
"offsets-single-int:2": ["ok", ["dict", [[["int", 0], ["dict", [[["str", "offset"], ["int", 7]], [["str", "size"], ["int", 12]]]]]]]],
"ranges-single-int:3": ["ok", ["dict", [[["int", 0], ["tuple", [["int", 7], ["int", 19]]]]]]],
"offsets-single-int:3": ["ok", ["dict", [[["int", 0], ["dict", [[["str", "offset"], ["int", 7]], [["str", "size"], ["int", 12]]]]]]]],
"ranges-single-int:4": ["ok", ["dict", [[["int", 0], ["tuple", [["int", 7], ["int", 19]]]]]]],
"offsets-single-int:4": ["ok", ["dict", [[["int", 0], ["dict", [[["str", "offset"], ["int", 7]], [["str", "size"], ["int", 12]]]]]]]],
"ranges-single-int:5": ["ok", ["dict", [[["int", 0], ["tuple", [["int", 7], ["int", 19]]]]]]],
"offsets-single-int:5": ["ok", ["dict", [[["int", 0], ["dict", [[["str", "offset"], ["int", 7]], [["str", "size"], ["int", 12]]]]]]]],
"ranges-single-int:6": ["ok", ["dict", [[["int", 0], ["tuple", [["int", 7], ["int", 19]]]]]]],
"offsets-single-int:6": ["ok", ["dict", [[["int", 0], ["dict", [[["str", "offset"], ["int", 7]], [["str", "size"], ["int", 12]]]]]]]],
"ranges-single-int:7": ["ok", ["dict", [[["int", 0], ["tuple", [["int", 7], ["int", 19]]]]]]],
"offsets-single-int:7": ["ok", ["dict", [[["int", 0], ["dict", [[["str", "offset"], ["int", 7]], [["str", "size"], ["int", 12]]]]]]]],
"ranges-single-int:8": ["ok", ["dict", [[["int", 0], ["tuple", [["int", 7], ["int", 19]]]]]]],
"offsets-single-int:8": ["ok", ["dict", [[["int", 0], ["dict", [[["str", "offset"], ["int", 7]], [["str", "size"], ["int", 12]]]]]]]],
"ranges-single-int:100": ["ok", ["dict", [[["int", 0], ["tuple", [["int", 7], ["int", 19]]]]]]],
"offsets-single-int:100": ["ok", ["dict", [[["int", 0], ["dict", [[["str", "offset"], ["int", 7]], [["str", "size"], ["int", 12]]]]]]]],
"ranges-single-int:0": ["ok", ["dict", []]],
"offsets-single-int:0": ["ok", ["dict", []]],
"ranges-single-int:-1": ["ok", ["dict", []]],
"offsets-single-int:-1": ["ok", ["dict", []]],
"ranges-single-int:-3": ["ok", ["dict", []]],
"offsets-single-int:-3": ["ok", ["dict", []]],
"ranges-single-bool:True": ["ok", ["dict", [[["int", 0], ["tuple", [["int", 7], ["int", 19]]]]]]],
"offsets-single-bool:True": ["ok", ["dict", [[["int", 0], ["dict", [[["str", "offset"], ["int", 7]], [["str", "size"], ["int", 12]]]]]]]],
"ranges-single-bool:False": ["ok", ["dict", []]],
"offsets-single-bool:False": ["ok", ["dict", []]],
"ranges-single-int64:2": ["ok", ["dict", [[["int", 0], ["tuple", [["int", 7], ["int", 19]]]]]]],
"offsets-single-int64:2": ["ok", ["dict", [[["int", 0], ["dict", [[["str", "offset"], ["int", 7]], [["str", "size"], ["int", 12]]]]]]]],
"ranges-single-int32:4": ["ok", ["dict", [[["int", 0], ["tuple", [["int", 7], ["int", 19]]]]]]],
"offsets-single-int32:4": ["ok", ["dict", [[["int", 0], ["dict", [[["str", "offset"], ["int", 7]], [["str", "size"], ["int", 12]]]]]]]],
"ranges-single-uint8:3": ["ok", ["dict", [[["int", 0], ["tuple", [["int", 7], ["int", 19]]]]]]],
"offsets-single-uint8:3": ["ok", ["dict", [[["int", 0], ["dict", [[["str", "offset"], ["int", 7]], [["str", "size"], ["int", 12]]]]]]]],
"ranges-empty-int:1": ["ok", ["dict", []]],
"offsets-empty-int:1": ["ok", ["dict", []]],
"ranges-empty-int:2": ["ok", ["dict", []]],
"offsets-empty-int:2": ["ok", ["dict", []]],
"ranges-empty-int:3": ["ok", ["dict", []]],
"offsets-empty-int:3": ["ok", ["dict", []]],
"ranges-empty-int:4": ["ok", ["dict", []]],
"offsets-empty-int:4": ["ok", ["dict", []]],
"ranges-empty-int:5": ["ok", ["dict", []]],
"offsets-empty-int:5": ["ok", ["dict", []]],
"ranges-empty-int:6": ["ok", ["dict", []]],
"offsets-empty-int:6": ["ok", ["dict", []]],
"ranges-empty-int:7": ["ok", ["dict", []]],
"offsets-empty-int:7": ["ok", ["dict", []]],
"ranges-empty-int:8": ["ok", ["dict", []]],
"offsets-empty-int:8": ["ok", ["dict", []]],
"ranges-empty-int:100": ["ok", ["dict", []]],
"offsets-empty-int:100": ["ok", ["dict", []]],
"ranges-empty-int:0": ["ok", ["dict", []]],
"offsets-empty-int:0": ["ok", ["dict", []]],
"ranges-empty-int:-1": ["ok", ["dict", []]],
"offsets-empty-int:-1": ["ok", ["dict", []]],
"ranges-empty-int:-3": ["ok", ["dict", []]],
"offsets-empty-int:-3": ["ok", ["dict", []]],
"ranges-empty-bool:True": ["ok", ["dict", []]],
"offsets-empty-bool:True": ["ok", ["dict", []]],
"ranges-empty-bool:False": ["ok", ["dict", []]],
"offsets-empty-bool:False": ["ok", ["dict", []]],
"ranges-empty-int64:2": ["ok", ["dict", []]],
"offsets-empty-int64:2": ["ok", ["dict", []]],
"ranges-empty-int32:4": ["ok", ["dict", []]],
"offsets-empty-int32:4": ["ok", ["dict", []]],
"ranges-empty-uint8:3": ["ok", ["dict", []]],
"offsets-empty-uint8:3": ["ok", ["dict", []]],
"ranges-lists-int:1": ["ok", ["dict", [[["int", 0], ["tuple", [["int", 5], ["int", 10]]]], [["int", 1], ["tuple", [["int", 15], ["int", 20]]]], [["int", 2], ["tuple", [["int", 25], ["int", 30]]]], [["int", 3], ["tuple", [["int", 35], ["int", 40]]]], [["int", 4], ["tuple", [["int", 45], ["int", 50]]]]]]],
"offsets-lists-int:1": ["ok", ["dict", [[["int", 0], ["dict", [[["str", "offset"], ["int", 5]], [["str", "size"], ["int", 5]]]]], [["int", 1], ["dict", [[["str", "offset"], ["int", 15]], [["str", "size"], ["int", 5]]]]], [["int", 2], ["dict", [[["str", "offset"], ["int", 25]], [["str", "size"], ["int", 5]]]]], [["int", 3], ["dict", [[["str", "offset"], ["int", 35]], [["str", "size"], ["int", 5]]]]], [["int", 4], ["dict", [[["str", "offset"], ["int", 45]], [["str", "size"], ["int", 5]]]]]]]],
"ranges-lists-int:2": ["ok", ["dict", [[["int", 0], ["tuple", [["int", 5], ["int", 20]]]], [["int", 1], ["tuple", [["int", 25], ["int", 40]]]], [["int", 2], ["tuple", [["int", 45], ["int", 50]]]]]]],
"offsets-lists-int:2": ["ok", ["dict", [[["int", 0], ["dict", [[["str", "offset"], ["int", 5]], [["str", "size"], ["int", 15]]]]], [["int", 1], ["dict", [[["str", "offset"], ["int", 25]], [["str", "size"], ["int", 15]]]]], [["int", 2], ["dict", [[["str", "offset"], ["int", 45]], [["str", "size"], ["int", 5]]]]]]]],
"ranges-lists-int:3": ["ok", ["dict", [[["int", 0], ["tuple", [["int", 5], ["int", 30]]]], [["int", 1], ["tuple", [["int", 35], ["int", 50]]]]]]],
"offsets-lists-int:3": ["ok", ["dict", [[["int", 0], ["dict", [[["str", "offset"], ["int", 5]], [["str", "size"], ["int", 25]]]]], [["int", 1], ["dict", [[["str", "offset"], ["int", 35]], [["str", "size"], ["int", 15]]]]]]]],
"ranges-lists-int:4": ["ok", ["dict", [[["int", 0], ["tuple", [["int", 5], ["int", 40]]]], [["int", 1], ["tuple", [["int", 45], ["int", 50]]]]]]],
"offsets-lists-int:4": ["ok", ["dict", [[["int", 0], ["dict", [[["str", "offset"], ["int", 5]], [["str", "size"], ["int", 35]]]]], [["int", 1], ["dict", [[["str", "offset"], ["int", 45]], [["str", "size"], ["int", 5]]]]]]]],
"ranges-lists-int:5": ["ok", ["dict", [[["int", 0], ["tuple", [["int", 5], ["int", 50]]]]]]],
"offsets-lists-int:5": ["ok", ["dict", [[["int", 0], ["dict", [[["str", "offset"], ["int", 5]], [["str", "size"], ["int", 45]]]]]]]],
"ranges-lists-int:6": ["ok", ["dict", [[["int", 0], ["tuple", [["int", 5], ["int", 50]]]]]]],
"offsets-lists-int:6": ["ok", ["dict", [[["int", 0], ["dict", [[["str", "offset"], ["int", 5]], [["str", "size"], ["int", 45]]]]]]]],
"ranges-lists-int:7": ["ok", ["dict", [[["int", 0], ["tuple", [["int", 5], ["int", 50]]]]]]],
"offsets-lists-int:7": ["ok", ["dict", [[["int", 0], ["dict", [[["str", "offset"], ["int", 5]], [["str", "size"], ["int", 45]]]]]]]],
"ranges-lists-int:8": ["ok", ["dict", [[["int", 0], ["tuple", [["int", 5], ["int", 50]]]]]]],
"offsets-lists-int:8": ["ok", ["dict", [[["int", 0], ["dict", [[["str", "offset"], ["int", 5]], [["str", "size"], ["int", 45]]]]]]]],
"ranges-lists-int:100": ["ok", ["dict", [[["int", 0], ["tuple", [["int", 5], ["int", 50]]]]]]],
"offsets-lists-int:100": ["ok", ["dict", [[["int", 0], ["dict", [[["str", "offset"], ["int", 5]], [["str", "size"], ["int", 45]]]]]]]],
"ranges-lists-int:0": ["ok", ["dict", []]],
"offsets-lists-int:0": ["ok", ["dict", []]],
"ranges-lists-int:-1": ["ok", ["dict", []]],
"offsets-lists-int:-1": ["ok", ["dict", []]],
"ranges-lists-int:-3": ["ok", ["dict", []]],
"offsets-lists-int:-3": ["ok", ["dict", []]],
"ranges-lists-bool:True": ["ok", ["dict", [[["int", 0], ["tuple", [["int", 5], ["int", 10]]]], [["int", 1], ["tuple", [["int", 15], ["int", 20]]]], [["int", 2], ["tuple", [["int", 25], ["int", 30]]]], [["int", 3], ["tuple", [["int", 35], ["int", 40]]]], [["int", 4], ["tuple", [["int", 45], ["int", 50]]]]]]],
"offsets-lists-bool:True": ["ok", ["dict", [[["int", 0], ["dict", [[["str", "offset"], ["int", 5]], [["str", "size"], ["int", 5]]]]], [["int", 1], ["dict", [[["str", "offset"], ["int", 15]], [["str", "size"], ["int", 5]]]]], [["int", 2], ["dict", [[["str", "offset"], ["int", 25]], [["str", "size"], ["int", 5]]]]], [["int", 3], ["dict", [[["str", "offset"], ["int", 35]], [["str", "size"], ["int", 5]]]]], [["int", 4], ["dict", [[["str", "offset"], ["int", 45]], [["str", "size"], ["int", 5]]]]]]]],
"ranges-lists-bool:False": ["ok", ["dict", []]],
"offsets-lists-bool:False": ["ok", ["dict", []]],
"ranges-lists-int64:2": ["ok", ["dict", [[["int", 0], ["tuple", [["int", 5], ["int", 20]]]], [["int", 1], ["tuple", [["int", 25], ["int", 40]]]], [["int", 2], ["tuple", [["int", 45], ["int", 50]]]]]]],
"offsets-lists-int64:2": ["ok", ["dict", [[["int", 0], ["dict", [[["str", "offset"], ["int", 5]], [["str", "size"], ["int", 15]]]]], [["int", 1], ["dict", [[["str", "offset"], ["int", 25]], [["str", "size"], ["int", 15]]]]], [["int", 2], ["dict", [[["str", "offset"], ["int", 45]], [["str", "size"], ["int", 5]]]]]]]],
"ranges-lists-int32:4": ["ok", ["dict", [[["int", 0], ["tuple", [["int", 5], ["int", 40]]]], [["int", 1], ["tuple", [["int", 45], ["int", 50]]]]]]],
"offsets-lists-int32:4": ["ok", ["dict", [[["int", 0], ["dict", [[["str", "offset"], ["int", 5]], [["str", "size"], ["int", 35]]]]], [["int", 1], ["dict", [[["str", "offset"], ["int", 45]], [["str", "size"], ["int", 5]]]]]]]],
"ranges-lists-uint8:3": ["ok", ["dict", [[["int", 0], ["tuple", [["int", 5], ["int", 30]]]], [["int", 1], ["tuple", [["int", 35], ["int", 50]]]]]]],
"offsets-lists-uint8:3": ["ok", ["dict", [[["int", 0], ["dict", [[["str", "offset"], ["int", 5]], [["str", "size"], ["int", 25]]]]], [["int", 1], ["dict", [[["str", "offset"], ["int", 35]], [["str", "size"], ["int", 15]]]]]]]],
"ranges-tuple-int:1": ["ok", ["dict", [[["int", 0], ["tuple", [["int", 30], ["int", 40]]]], [["int", 1], ["tuple", [["int", 0], ["int", 10]]]], [["int", 2], ["tuple", [["int", 50], ["int", 55]]]], [["int", 3], ["tuple", [["int", 12], ["int", 20]]]], [["int", 4], ["tuple", [["int", 41], ["int", 49]]]], [["int", 5], ["tuple", [["int", 10], ["int", 12]]]], [["int", 6], ["tuple", [["int", 60], ["int", 61]]]]]]],
"offsets-tuple-int:1": ["ok", ["dict", [[["int", 0], ["dict", [[["str", "offset"], ["int", 30]], [["str", "size"], ["int", 10]]]]], [["int", 1], ["dict", [[["str", "offset"], ["int", 0]], [["str", "size"], ["int", 10]]]]], [["int", 2], ["dict", [[["str", "offset"], ["int", 50]], [["str", "size"], ["int", 5]]]]], [["int", 3], ["dict", [[["str", "offset"], ["int", 12]], [["str", "size"], ["int", 8]]]]], [["int", 4], ["dict", [[["str", "offset"], ["int", 41]], [["str", "size"], ["int", 8]]]]], [["int", 5], ["dict", [[["str", "offset"], ["int", 10]], [["str", "size"], ["int", 2]]]]], [["int", 6], ["dict", [[["str", "offset"], ["int", 60]], [["str", "size"], ["int", 1]]]]]]]],
"ranges-tuple-int:2": ["ok", ["dict", [[["int", 0], ["tuple", [["int", 0], ["int", 40]]]], [["int", 1], ["tuple", [["int", 12], ["int", 55]]]], [["int", 2], ["tuple", [["int", 10], ["int", 49]]]], [["int", 3], ["tuple", [["int", 60], ["int", 61]]]]]]],
"offsets-tuple-int:2": ["ok", ["dict", [[["int", 0], ["dict", [[["str", "offset"], ["int", 0]], [["str", "size"], ["int", 40]]]]], [["int", 1], ["dict", [[["str", "offset"], ["int", 12]], [["str", "size"], ["int", 43]]]]], [["int", 2], ["dict", [[["str", "offset"], ["int", 10]], [["str", "size"], ["int", 39]]]]], [["int", 3], ["dict", [[["str", "offset"], ["int", 60]], [["str", "size"], ["int", 1]]]]]]]],
"ranges-tuple-int:3": ["ok", ["dict", [[["int", 0], ["tuple", [["int", 0], ["int", 55]]]], [["int", 1], ["tuple", [["int", 10], ["int", 49]]]], [["int", 2], ["tuple", [["int", 60], ["int", 61]]]]]]],
"offsets-tuple-int:3": ["ok", ["dict", [[["int", 0], ["dict", [[["str", "offset"], ["int", 0]], [["str", "size"], ["int", 55]]]]], [["int", 1], ["dict", [[["str", "offset"], ["int", 10]], [["str", "size"], ["int", 39]]]]], [["int", 2], ["dict", [[["str", "offset"], ["int", 60]], [["str", "size"], ["int", 1]]]]]]]],
"ranges-tuple-int:4": ["ok", ["dict", [[["int", 0], ["tuple", [["int", 0], ["int", 55]]]], [["int", 1], ["tuple", [["int", 10], ["int", 61]]]]]]],
"offsets-tuple-int:4": ["ok", ["dict", [[["int", 0], ["dict", [[["str", "offset"], ["int", 0]], [["str", "size"], ["int", 55]]]]], [["int", 1], ["dict", [[["str", "offset"], ["int", 10]], [["str", "size"], ["int", 51]]]]]]]],
"ranges-tuple-int:5": ["ok", ["dict", [[["int", 0], ["tuple", [["int", 0], ["int", 55]]]], [["int", 1], ["tuple", [["int", 10], ["int", 61]]]]]]],
"offsets-tuple-int:5": ["ok", ["dict", [[["int", 0], ["dict", [[["str", "offset"], ["int", 0]], [["str", "size"], ["int", 55]]]]], [["int", 1], ["dict", [[["str", "offset"], ["int", 10]], [["str", "size"], ["int", 51]]]]]]]],
"ranges-tuple-int:6": ["ok", ["dict", [[["int", 0], ["tuple", [["int", 0], ["int", 55]]]], [["int", 1], ["tuple", [["int", 60], ["int", 61]]]]]]],
"offsets-tuple-int:6": ["ok", ["dict", [[["int", 0], ["dict", [[["str", "offset"], ["int", 0]], [["str", "size"], ["int", 55]]]]], [["int", 1], ["dict", [[["str", "offset"], ["int", 60]], [["str", "size"], ["int", 1]]]]]]]],
"ranges-tuple-int:7": ["ok", ["dict", [[["int", 0], ["tuple", [["int", 0], ["int", 61]]]]]]],
"offsets-tuple-int:7": ["ok", ["dict", [[["int", 0], ["dict", [[["str", "offset"], ["int", 0]], [["str", "size"], ["int", 61]]]]]]]],
"ranges-tuple-int:8": ["ok", ["dict", [[["int", 0], ["tuple", [["int", 0], ["int", 61]]]]]]],
"offsets-tuple-int:8": ["ok", ["dict", [[["int", 0], ["dict", [[["str", "offset"], ["int", 0]], [["str", "size"], ["int", 61]]]]]]]],
"ranges-tuple-int:100": ["ok", ["dict", [[["int", 0], ["tuple", [["int", 0], ["int", 61]]]]]]],
"offsets-tuple-int:100": ["ok", ["dict", [[["int", 0], ["dict", [[["str", "offset"], ["int", 0]], [["str", "size"], ["int", 61]]]]]]]],
"ranges-tuple-int:0": ["ok", ["dict", []]],
"offsets-tuple-int:0": ["ok", ["dict", []]],
"ranges-tuple-int:-1": ["ok", ["dict", []]],
"offsets-tuple-int:-1": ["ok", ["dict", []]],
"ranges-tuple-int:-3": ["ok", ["dict", []]],
"offsets-tuple-int:-3": ["ok", ["dict", []]],
"ranges-tuple-bool:True": ["ok", ["dict", [[["int", 0], ["tuple", [["int", 30], ["int", 40]]]], [["int", 1], ["tuple", [["int", 0], ["int", 10]]]], [["int", 2], ["tuple", [["int", 50], ["int", 55]]]], [["int", 3], ["tuple", [["int", 12], ["int", 20]]]], [["int", 4], ["tuple", [["int", 41], ["int", 49]]]], [["int", 5], ["tuple", [["int", 10], ["int", 12]]]], [["int", 6], ["tuple", [["int", 60], ["int", 61]]]]]]],
"offsets-tuple-bool:True": ["ok", ["dict", [[["int", 0], ["dict", [[["str", "offset"], ["int", 30]], [["str", "size"], ["int", 10]]]]], [["int", 1], ["dict", [[["str", "offset"], ["int", 0]], [["str", "size"], ["int", 10]]]]], [["int", 2], ["dict", [[["str", "offset"], ["int", 50]], [["str", "size"], ["int", 5]]]]], [["int", 3], ["dict", [[["str", "offset"], ["int", 12]], [["str", "size"], ["int", 8]]]]], [["int", 4], ["dict", [[["str", "offset"], ["int", 41]], [["str", "size"], ["int", 8]]]]], [["int", 5], ["dict", [[["str", "offset"], ["int", 10]], [["str", "size"], ["int", 2]]]]], [["int", 6], ["dict", [[["str", "offset"], ["int", 60]], [["str", "size"], ["int", 1]]]]]]]],
"ranges-tuple-bool:False": ["ok", ["dict", []]],
"offsets-tuple-bool:False": ["ok", ["dict", []]],
"ranges-tuple-int64:2": ["ok", ["dict", [[["int", 0], ["tuple", [["int", 0], ["int", 40]]]], [["int", 1], ["tuple", [["int", 12], ["int", 55]]]], [["int", 2], ["tuple", [["int", 10], ["int", 49]]]], [["int", 3], ["tuple", [["int", 60], ["int", 61]]]]]]],
"offsets-tuple-int64:2": ["ok", ["dict", [[["int", 0], ["dict", [[["str", "offset"], ["int", 0]], [["str", "size"], ["int", 40]]]]], [["int", 1], ["dict", [[["str", "offset"], ["int", 12]], [["str", "size"], ["int", 43]]]]], [["int", 2], ["dict", [[["str", "offset"], ["int", 10]], [["str", "size"], ["int", 39]]]]], [["int", 3], ["dict", [[["str", "offset"], ["int", 60]], [["str", "size"], ["int", 1]]]]]]]],
"ranges-tuple-int32:4": ["ok", ["dict", [[["int", 0], ["tuple", [["int", 0], ["int", 55]]]], [["int", 1], ["tuple", [["int", 10], ["int", 61]]]]]]],
"offsets-tuple-int32:4": ["ok", ["dict", [[["int", 0], ["dict", [[["str", "offset"], ["int", 0]], [["str", "size"], ["int", 55]]]]], [["int", 1], ["dict", [[["str", "offset"], ["int", 10]], [["str", "size"], ["int", 51]]]]]]]],
"ranges-tuple-uint8:3": ["ok", ["dict", [[["int", 0], ["tuple", [["int", 0], ["int", 55]]]], [["int", 1], ["tuple", [["int", 10], ["int", 49]]]], [["int", 2], ["tuple", [["int", 60], ["int", 61]]]]]]],
"offsets-tuple-uint8:3": ["ok", ["dict", [[["int", 0], ["dict", [[["str", "offset"], ["int", 0]], [["str", "size"], ["int", 55]]]]], [["int", 1], ["dict", [[["str", "offset"], ["int", 10]], [["str", "size"], ["int", 39]]]]], [["int", 2], ["dict", [[["str", "offset"], ["int", 60]], [["str", "size"], ["int", 1]]]]]]]],
"ranges-extra-items-int:1": ["ok", ["dict", [[["int", 0], ["tuple", [["int", 0], ["int", 3]]]], [["int", 1], ["tuple", [["int", 3], ["int", 9]]]], [["int", 2], ["tuple", [["int", 9], ["int", 10]]]]]]],
"offsets-extra-items-int:1": ["ok", ["dict", [[["int", 0], ["dict", [[["str", "offset"], ["int", 0]], [["str", "size"], ["int", 3]]]]], [["int", 1], ["dict", [[["str", "offset"], ["int", 3]], [["str", "size"], ["int", 6]]]]], [["int", 2], ["dict", [[["str", "offset"], ["int", 9]], [["str", "size"], ["int", 1]]]]]]]],
"ranges-extra-items-int:2": ["ok", ["dict", [[["int", 0], ["tuple", [["int", 0], ["int", 9]]]], [["int", 1], ["tuple", [["int", 9], ["int", 10]]]]]]],
"offsets-extra-items-int:2": ["ok", ["dict", [[["int", 0], ["dict", [[["str", "offset"], ["int", 0]], [["str", "size"], ["int", 9]]]]], [["int", 1], ["dict", [[["str", "offset"], ["int", 9]], [["str", "size"], ["int", 1]]]]]]]],
"ranges-extra-items-int:3": ["ok", ["dict", [[["int", 0], ["tuple", [["int", 0], ["int", 10]]]]]]],
"offsets-extra-items-int:3": ["ok", ["dict", [[["int", 0], ["dict", [[["str", "offset"], ["int", 0]], [["str", "size"], ["int", 10]]]]]]]],
"ranges-extra-items-int:4": ["ok", ["dict", [[["int", 0], ["tuple", [["int", 0], ["int", 10]]]]]]],
"offsets-extra-items-int:4": ["ok", ["dict", [[["int", 0], ["dict", [[["str", "offset"], ["int", 0]], [["str", "size"], ["int", 10]]]]]]]],
"ranges-extra-items-int:5": ["ok", ["dict", [[["int", 0], ["tuple", [["int", 0], ["int", 10]]]]]]],
"offsets-extra-items-int:5": ["ok", ["dict", [[["int", 0], ["dict", [[["str", "offset"], ["int", 0]], [["str", "size"], ["int", 10]]]]]]]],
"ranges-extra-items-int:6": ["ok", ["dict", [[["int", 0], ["tuple", [["int", 0], ["int", 10]]]]]]],
"offsets-extra-items-int:6": ["ok", ["dict", [[["int", 0], ["dict", [[["str", "offset"], ["int", 0]], [["str", "size"], ["int", 10]]]]]]]],
"ranges-extra-items-int:7": ["ok", ["dict", [[["int", 0], ["tuple", [["int", 0], ["int", 10]]]]]]],
"offsets-extra-items-int:7": ["ok", ["dict", [[["int", 0], ["dict", [[["str", "offset"], ["int", 0]], [["str", "size"], ["int", 10]]]]]]]],
"ranges-extra-items-int:8": ["ok", ["dict", [[["int", 0], ["tuple", [["int", 0], ["int", 10]]]]]]],
"offsets-extra-items-int:8": ["ok", ["dict", [[["int", 0], ["dict", [[["str", "offset"], ["int", 0]], [["str", "size"], ["int", 10]]]]]]]],
"ranges-extra-items-int:100": ["ok", ["dict", [[["int", 0], ["tuple", [["int", 0], ["int", 10]]]]]]],
"offsets-extra-items-int:100": ["ok", ["dict", [[["int", 0], ["dict", [[["str", "offset"], ["int", 0]], [["str", "size"], ["int", 10]]]]]]]],
"ranges-extra-items-int:0": ["ok", ["dict", []]],
"offsets-extra-items-int:0": ["ok", ["dict", []]],
"ranges-extra-items-int:-1": ["ok", ["dict", []]],
"offsets-extra-items-int:-1": ["ok", ["dict", []]],
"ranges-extra-items-int:-3": ["ok", ["dict", []]],
"offsets-extra-items-int:-3": ["ok", ["dict", []]],
"ranges-extra-items-bool:True": ["ok", ["dict", [[["int", 0], ["tuple", [["int", 0], ["int", 3]]]], [["int", 1], ["tuple", [["int", 3], ["int", 9]]]], [["int", 2], ["tuple", [["int", 9], ["int", 10]]]]]]],
"offsets-extra-items-bool:True": ["ok", ["dict", [[["int", 0], ["dict", [[["str", "offset"], ["int", 0]], [["str", "size"], ["int", 3]]]]], [["int", 1], ["dict", [[["str", "offset"], ["int", 3]], [["str", "size"], ["int", 6]]]]], [["int", 2], ["dict", [[["str", "offset"], ["int", 9]], [["str", "size"], ["int", 1]]]]]]]],
"ranges-extra-items-bool:False": ["ok", ["dict", []]],
"offsets-extra-items-bool:False": ["ok", ["dict", []]],
"ranges-extra-items-int64:2": ["ok", ["dict", [[["int", 0], ["tuple", [["int", 0], ["int", 9]]]], [["int", 1], ["tuple", [["int", 9], ["int", 10]]]]]]],
"offsets-extra-items-int64:2": ["ok", ["dict", [[["int", 0], ["dict", [[["str", "offset"], ["int", 0]], [["str", "size"], ["int", 9]]]]], [["int", 1], ["dict", [[["str", "offset"], ["int", 9]], [["str", "size"], ["int", 1]]]]]]]],
"ranges-extra-items-int32:4": ["ok", ["dict", [[["int", 0], ["tuple", [["int", 0], ["int", 10]]]]]]],
"offsets-extra-items-int32:4": ["ok", ["dict", [[["int", 0], ["dict", [[["str", "offset"], ["int", 0]], [["str", "size"], ["int", 10]]]]]]]],
"ranges-extra-items-uint8:3": ["ok", ["dict", [[["int", 0], ["tuple", [["int", 0], ["int", 10]]]]]]],
"offsets-extra-items-uint8:3": ["ok", ["dict", [[["int", 0], ["dict", [[["str", "offset"], ["int", 0]], [["str", "size"], ["int", 10]]]]]]]],
"ranges-float-int:1": ["ok", ["dict", [[["int", 0], ["tuple", [["float", "0.0"], ["float", "1.5"]]]], [["int", 1], ["tuple", [["float", "1.5"], ["float", "4.0"]]]], [["int", 2], ["tuple", [["float", "4.0"], ["float", "4.25"]]]]]]],
"offsets-float-int:1": ["ok", ["dict", [[["int", 0], ["dict", [[["str", "offset"], ["float", "0.0"]], [["str", "size"], ["float", "1.5"]]]]], [["int", 1], ["dict", [[["str", "offset"], ["float", "1.5"]], [["str", "size"], ["float", "2.5"]]]]], [["int", 2], ["dict", [[["str", "offset"], ["float", "4.0"]], [["str", "size"], ["float", "0.25"]]]]]]]],
"ranges-float-int:2": ["ok", ["dict", [[["int", 0], ["tuple", [["float", "0.0"], ["float", "4.0"]]]], [["int", 1], ["tuple", [["float", "4.0"], ["float", "4.25"]]]]]]],
"offsets-float-int:2": ["ok", ["dict", [[["int", 0], ["dict", [[["str", "offset"], ["float", "0.0"]], [["str", "size"], ["float", "4.0"]]]]], [["int", 1], ["dict", [[["str", "offset"], ["float", "4.0"]], [["str", "size"], ["float", "0.25"]]]]]]]],
"ranges-float-int:3": ["ok", ["dict", [[["int", 0], ["tuple", [["float", "0.0"], ["float", "4.25"]]]]]]],
"offsets-float-int:3": ["ok", ["dict", [[["int", 0], ["dict", [[["str", "offset"], ["float", "0.0"]], [["str", "size"], ["float", "4.25"]]]]]]]],
"ranges-float-int:4": ["ok", ["dict", [[["int", 0], ["tuple", [["float", "0.0"], ["float", "4.25"]]]]]]],
"offsets-float-int:4": ["ok", ["dict", [[["int", 0], ["dict", [[["str", "offset"], ["float", "0.0"]], [["str", "size"], ["float", "4.25"]]]]]]]],
"ranges-float-int:5": ["ok", ["dict", [[["int", 0], ["tuple", [["float", "0.0"], ["float", "4.25"]]]]]]],
"offsets-float-int:5": ["ok", ["dict", [[["int", 0], ["dict", [[["str", "offset"], ["float", "0.0"]], [["str", "size"], ["float", "4.25"]]]]]]]],
"ranges-float-int:6": ["ok", ["dict", [[["int", 0], ["tuple", [["float", "0.0"], ["float", "4.25"]]]]]]],
"offsets-float-int:6": ["ok", ["dict", [[["int", 0], ["dict", [[["str", "offset"], ["float", "0.0"]], [["str", "size"], ["float", "4.25"]]]]]]]],
"ranges-float-int:7": ["ok", ["dict", [[["int", 0], ["tuple", [["float", "0.0"], ["float", "4.25"]]]]]]],
"offsets-float-int:7": ["ok", ["dict", [[["int", 0], ["dict", [[["str", "offset"], ["float", "0.0"]], [["str", "size"], ["float", "4.25"]]]]]]]],
"ranges-float-int:8": ["ok", ["dict", [[["int", 0], ["tuple", [["float", "0.0"], ["float", "4.25"]]]]]]],
"offsets-float-int:8": ["ok", ["dict", [[["int", 0], ["dict", [[["str", "offset"], ["float", "0.0"]], [["str", "size"], ["float", "4.25"]]]]]]]],
"ranges-float-int:100": ["ok", ["dict", [[["int", 0], ["tuple", [["float", "0.0"], ["float", "4.25"]]]]]]],
"offsets-float-int:100": ["ok", ["dict", [[["int", 0], ["dict", [[["str", "offset"], ["float", "0.0"]], [["str", "size"], ["float", "4.25"]]]]]]]],
"ranges-float-int:0": ["ok", ["dict", []]],
"offsets-float-int:0": ["ok", ["dict", []]],
"ranges-float-int:-1": ["ok", ["dict", []]],
"offsets-float-int:-1": ["ok", ["dict", []]],
"ranges-float-int:-3": ["ok", ["dict", []]],
"offsets-float-int:-3": ["ok", ["dict", []]],
"ranges-float-bool:True": ["ok", ["dict", [[["int", 0], ["tuple", [["float", "0.0"], ["float", "1.5"]]]], [["int", 1], ["tuple", [["float", "1.5"], ["float", "4.0"]]]], [["int", 2], ["tuple", [["float", "4.0"], ["float", "4.25"]]]]]]],
"offsets-float-bool:True": ["ok", ["dict", [[["int", 0], ["dict", [[["str", "offset"], ["float", "0.0"]], [["str", "size"], ["float", "1.5"]]]]], [["int", 1], ["dict", [[["str", "offset"], ["float", "1.5"]], [["str", "size"], ["float", "2.5"]]]]], [["int", 2], ["dict", [[["str", "offset"], ["float", "4.0"]], [["str", "size"], ["float", "0.25"]]]]]]]],
"ranges-float-bool:False": ["ok", ["dict", []]],
"offsets-float-bool:False": ["ok", ["dict", []]],
"ranges-float-int64:2": ["ok", ["dict", [[["int", 0], ["tuple", [["float", "0.0"], ["float", "4.0"]]]], [["int", 1], ["tuple", [["float", "4.0"], ["float", "4.25"]]]]]]],
"offsets-float-int64:2": ["ok", ["dict", [[["int", 0], ["dict", [[["str", "offset"], ["float", "0.0"]], [["str", "size"], ["float", "4.0"]]]]], [["int", 1], ["dict", [[["str", "offset"], ["float", "4.0"]], [["str", "size"], ["float", "0.25"]]]]]]]],
"ranges-float-int32:4": ["ok", ["dict", [[["int", 0], ["tuple", [["float", "0.0"], ["float", "4.25"]]]]]]],
"offsets-float-int32:4": ["ok", ["dict", [[["int", 0], ["dict", [[["str", "offset"], ["float", "0.0"]], [["str", "size"], ["float", "4.25"]]]]]]]],
"ranges-float-uint8:3": ["ok", ["dict", [[["int", 0], ["tuple", [["float", "0.0"], ["float", "4.25"]]]]]]],
"offsets-float-uint8:3": ["ok", ["dict", [[["int", 0], ["dict", [[["str", "offset"], ["float", "0.0"]], [["str", "size"], ["float", "4.25"]]]]]]]],
"ranges-generator-1": ["ok", ["dict", [[["int", 0], ["tuple", [["int", 30], ["int", 40]]]], [["int", 1], ["tuple", [["int", 0], ["int", 10]]]], [["int", 2], ["tuple", [["int", 50], ["int", 55]]]], [["int", 3], ["tuple", [["int", 12], ["int", 20]]]], [["int", 4], ["tuple", [["int", 41], ["int", 49]]]], [["int", 5], ["tuple", [["int", 10], ["int", 12]]]], [["int", 6], ["tuple", [["int", 60], ["int", 61]]]]]]],
"ranges-iter-1": ["ok", ["dict", [[["int", 0], ["tuple", [["int", 5], ["int", 10]]]], [["int", 1], ["tuple", [["int", 15], ["int", 20]]]], [["int", 2], ["tuple", [["int", 25], ["int", 30]]]], [["int", 3], ["tuple", [["int", 35], ["int", 40]]]], [["int", 4], ["tuple", [["int", 45], ["int", 50]]]]]]],
"ranges-dictvalues-1": ["ok", ["dict", [[["int", 0], ["tuple", [["int", 5], ["int", 10]]]], [["int", 1], ["tuple", [["int", 15], ["int", 20]]]], [["int", 2], ["tuple", [["int", 25], ["int", 30]]]], [["int", 3], ["tuple", [["int", 35], ["int", 40]]]], [["int", 4], ["tuple", [["int", 45], ["int", 50]]]]]]],
"ranges-ndarray-1": ["ok", ["dict", [[["int", 0], ["tuple", [["numpy.int64", "30"], ["numpy.int64", "40"]]]], [["int", 1], ["tuple", [["numpy.int64", "0"], ["numpy.int64", "10"]]]], [["int", 2], ["tuple", [["numpy.int64", "50"], ["numpy.int64", "55"]]]], [["int", 3], ["tuple", [["numpy.int64", "12"], ["numpy.int64", "20"]]]], [["int", 4], ["tuple", [["numpy.int64", "41"], ["numpy.int64", "49"]]]], [["int", 5], ["tuple", [["numpy.int64", "10"], ["numpy.int64", "12"]]]], [["int", 6], ["tuple", [["numpy.int64", "60"], ["numpy.int64", "61"]]]]]]],
"offsets-ndarray-1": ["ok", ["dict", [[["int", 0], ["dict", [[["str", "offset"], ["numpy.uint32", "30"]], [["str", "size"], ["numpy.uint32", "10"]]]]], [["int", 1], ["dict", [[["str", "offset"], ["numpy.uint32", "0"]], [["str", "size"], ["numpy.uint32", "10"]]]]], [["int", 2], ["dict", [[["str", "offset"], ["numpy.uint32", "50"]], [["str", "size"], ["numpy.uint32", "5"]]]]], [["int", 3], ["dict", [[["str", "offset"], ["numpy.uint32", "12"]], [["str", "size"], ["numpy.uint32", "8"]]]]], [["int", 4], ["dict", [[["str", "offset"], ["numpy.uint32", "41"]], [["str", "size"], ["numpy.uint32", "8"]]]]], [["int", 5], ["dict", [[["str", "offset"], ["numpy.uint32", "10"]], [["str", "size"], ["numpy.uint32", "2"]]]]], [["int", 6], ["dict", [[["str", "offset"], ["numpy.uint32", "60"]], [["str", "size"], ["numpy.uint32", "1"]]]]]]]],
"offsets-generator-1": ["ok", ["dict", [[["int", 0], ["dict", [[["str", "offset"], ["int", 5]], [["str", "size"], ["int", 5]]]]], [["int", 1], ["dict", [[["str", "offset"], ["int", 15]], [["str", "size"], ["int", 5]]]]], [["int", 2], ["dict", [[["str", "offset"], ["int", 25]], [["str", "size"], ["int", 5]]]]], [["int", 3], ["dict", [[["str", "offset"], ["int", 35]], [["str", "size"], ["int", 5]]]]], [["int", 4], ["dict", [[["str", "offset"], ["int", 45]], [["str", "size"], ["int", 5]]]]]]]],
"ranges-generator-2": ["ok", ["dict", [[["int", 0], ["tuple", [["int", 0], ["int", 40]]]], [["int", 1], ["tuple", [["int", 12], ["int", 55]]]], [["int", 2], ["tuple", [["int", 10], ["int", 49]]]], [["int", 3], ["tuple", [["int", 60], ["int", 61]]]]]]],
"ranges-iter-2": ["ok", ["dict", [[["int", 0], ["tuple", [["int", 5], ["int", 20]]]], [["int", 1], ["tuple", [["int", 25], ["int", 40]]]], [["int", 2], ["tuple", [["int", 45], ["int", 50]]]]]]],
"ranges-dictvalues-2": ["ok", ["dict", [[["int", 0], ["tuple", [["int", 5], ["int", 20]]]], [["int", 1], ["tuple", [["int", 25], ["int", 40]]]], [["int", 2], ["tuple", [["int", 45], ["int", 50]]]]]]],
"ranges-ndarray-2": ["ok", ["dict", [[["int", 0], ["tuple", [["numpy.int64", "0"], ["numpy.int64", "40"]]]], [["int", 1], ["tuple", [["numpy.int64", "12"], ["numpy.int64", "55"]]]], [["int", 2], ["tuple", [["numpy.int64", "10"], ["numpy.int64", "49"]]]], [["int", 3], ["tuple", [["numpy.int64", "60"], ["numpy.int64", "61"]]]]]]],
"offsets-ndarray-2": ["ok", ["dict", [[["int", 0], ["dict", [[["str", "offset"], ["numpy.uint32", "0"]], [["str", "size"], ["numpy.uint32", "40"]]]]], [["int", 1], ["dict", [[["str", "offset"], ["numpy.uint32", "12"]], [["str", "size"], ["numpy.uint32", "43"]]]]], [["int", 2], ["dict", [[["str", "offset"], ["numpy.uint32", "10"]], [["str", "size"], ["numpy.uint32", "39"]]]]], [["int", 3], ["dict", [[["str", "offset"], ["numpy.uint32", "60"]], [["str", "size"], ["numpy.uint32", "1"]]]]]]]],
"offsets-generator-2": ["ok", ["dict", [[["int", 0], ["dict", [[["str", "offset"], ["int", 5]], [["str", "size"], ["int", 15]]]]], [["int", 1], ["dict", [[["str", "offset"], ["int", 25]], [["str", "size"], ["int", 15]]]]], [["int", 2], ["dict", [[["str", "offset"], ["int", 45]], [["str", "size"], ["int", 5]]]]]]]],
"ranges-generator-3": ["ok", ["dict", [[["int", 0], ["tuple", [["int", 0], ["int", 55]]]], [["int", 1], ["tuple", [["int", 10], ["int", 49]]]], [["int", 2], ["tuple", [["int", 60], ["int", 61]]]]]]],
"ranges-iter-3": ["ok", ["dict", [[["int", 0], ["tuple", [["int", 5], ["int", 30]]]], [["int", 1], ["tuple", [["int", 35], ["int", 50]]]]]]],
"ranges-dictvalues-3": ["ok", ["dict", [[["int", 0], ["tuple", [["int", 5], ["int", 30]]]], [["int", 1], ["tuple", [["int", 35], ["int", 50]]]]]]],
"ranges-ndarray-3": ["ok", ["dict", [[["int", 0], ["tuple", [["numpy.int64", "0"], ["numpy.int64", "55"]]]], [["int", 1], ["tuple", [["numpy.int64", "10"], ["numpy.int64", "49"]]]], [["int", 2], ["tuple", [["numpy.int64", "60"], ["numpy.int64", "61"]]]]]]],
"offsets-ndarray-3": ["ok", ["dict", [[["int", 0], ["dict", [[["str", "offset"], ["numpy.uint32", "0"]], [["str", "size"], ["numpy.uint32", "55"]]]]], [["int", 1], ["dict", [[["str", "offset"], ["numpy.uint32", "10"]], [["str", "size"], ["numpy.uint32", "39"]]]]], [["int", 2], ["dict", [[["str", "offset"], ["numpy.uint32", "60"]], [["str", "size"], ["numpy.uint32", "1"]]]]]]]],
"offsets-generator-3": ["ok", ["dict", [[["int", 0], ["dict", [[["str", "offset"], ["int", 5]], [["str", "size"], ["int", 25]]]]], [["int", 1], ["dict", [[["str", "offset"], ["int", 35]], [["str", "size"], ["int", 15]]]]]]]],
"ranges-generator-4": ["ok", ["dict", [[["int", 0], ["tuple", [["int", 0], ["int", 55]]]], [["int", 1], ["tuple", [["int", 10], ["int", 61]]]]]]],
"ranges-iter-4": ["ok", ["dict", [[["int", 0], ["tuple", [["int", 5], ["int", 40]]]], [["int", 1], ["tuple", [["int", 45], ["int", 50]]]]]]],
"ranges-dictvalues-4": ["ok", ["dict", [[["int", 0], ["tuple", [["int", 5], ["int", 40]]]], [["int", 1], ["tuple", [["int", 45], ["int", 50]]]]]]],
"ranges-ndarray-4": ["ok", ["dict", [[["int", 0], ["tuple", [["numpy.int64", "0"], ["numpy.int64", "55"]]]], [["int", 1], ["tuple", [["numpy.int64", "10"], ["numpy.int64", "61"]]]]]]],
"offsets-ndarray-4": ["ok", ["dict", [[["int", 0], ["dict", [[["str", "offset"], ["numpy.uint32", "0"]], [["str", "size"], ["numpy.uint32", "55"]]]]], [["int", 1], ["dict", [[["str", "offset"], ["numpy.uint32", "10"]], [["str", "size"], ["numpy.uint32", "51"]]]]]]]],
"offsets-generator-4": ["ok", ["dict", [[["int", 0], ["dict", [[["str", "offset"], ["int", 5]], [["str", "size"], ["int", 35]]]]], [["int", 1], ["dict", [[["str", "offset"], ["int", 45]], [["str", "size"], ["int", 5]]]]]]]],
"ranges-generator-5": ["ok", ["dict", [[["int", 0], ["tuple", [["int", 0], ["int", 55]]]], [["int", 1], ["tuple", [["int", 10], ["int", 61]]]]]]],
"ranges-iter-5": ["ok", ["dict", [[["int", 0], ["tuple", [["int", 5], ["int", 50]]]]]]],
"ranges-dictvalues-5": ["ok", ["dict", [[["int", 0], ["tuple", [["int", 5], ["int", 50]]]]]]],
"ranges-ndarray-5": ["ok", ["dict", [[["int", 0], ["tuple", [["numpy.int64", "0"], ["numpy.int64", "55"]]]], [["int", 1], ["tuple", [["numpy.int64", "10"], ["numpy.int64", "61"]]]]]]],
"offsets-ndarray-5": ["ok", ["dict", [[["int", 0], ["dict", [[["str", "offset"], ["numpy.uint32", "0"]], [["str", "size"], ["numpy.uint32", "55"]]]]], [["int", 1], ["dict", [[["str", "offset"], ["numpy.uint32", "10"]], [["str", "size"], ["numpy.uint32", "51"]]]]]]]],
"offsets-generator-5": ["ok", ["dict", [[["int", 0], ["dict", [[["str", "offset"], ["int", 5]], [["str", "size"], ["int", 45]]]]]]]],
"ranges-generator-0": ["ok", ["dict", []]],
"ranges-iter-0": ["ok", ["dict", []]],
"ranges-dictvalues-0": ["ok", ["dict", []]],
"ranges-ndarray-0": ["ok", ["dict", []]],
"offsets-ndarray-0": ["ok", ["dict", []]],
"offsets-generator-0": ["ok", ["dict", []]],
"ranges-generator--2": ["ok", ["dict", []]],
"ranges-iter--2": ["ok", ["dict", []]],
"ranges-dictvalues--2": ["ok", ["dict", []]],
"ranges-ndarray--2": ["ok", ["dict", []]],
"offsets-ndarray--2": ["ok", ["dict", []]],
"offsets-generator--2": ["ok", ["dict", []]],
"ranges-spy-1": ["ok", ["dict", [[["int", 0], ["tuple", [["int", 5], ["int", 10]]]], [["int", 1], ["tuple", [["int", 15], ["int", 20]]]], [["int", 2], ["tuple", [["int", 25], ["int", 30]]]], [["int", 3], ["tuple", [["int", 35], ["int", 40]]]], [["int", 4], ["tuple", [["int", 45], ["int", 50]]]]]]],
"ranges-spy-1-log": ["list", [["int", 0], ["int", 1], ["int", 2], ["int", 3], ["int", 4]]],
"ranges-spy-3": ["ok", ["dict", [[["int", 0], ["tuple", [["int", 5], ["int", 30]]]], [["int", 1], ["tuple", [["int", 35], ["int", 50]]]]]]],
"ranges-spy-3-log": ["list", [["int", 0], ["int", 1], ["int", 2], ["int", 3], ["int", 4]]],
"ranges-spy-0": ["ok", ["dict", []]],
"ranges-spy-0-log": ["list", []],
"ranges-spy--1": ["ok", ["dict", []]],
"ranges-spy--1-log": ["list", []],
"ranges-badsize-float:2.0": ["raise", "TypeError", "<not compared>"],
"ranges-badsize-empty-float:2.0": ["raise", "TypeError", "<not compared>"],
"offsets-badsize-float:2.0": ["raise", "TypeError", "<not compared>"],
"ranges-badsize-NoneType:None": ["raise", "TypeError", "<not compared>"],
"ranges-badsize-empty-NoneType:None": ["raise", "TypeError", "<not compared>"],
"offsets-badsize-NoneType:None": ["raise", "TypeError", "<not compared>"],
"ranges-badsize-str:2": ["raise", "TypeError", "<not compared>"],
"ranges-badsize-empty-str:2": ["raise", "TypeError", "<not compared>"],
"offsets-badsize-str:2": ["raise", "TypeError", "<not compared>"],
"ranges-badsize-float:1.5": ["raise", "TypeError", "<not compared>"],
"ranges-badsize-empty-float:1.5": ["raise", "TypeError", "<not compared>"],
"offsets-badsize-float:1.5": ["raise", "TypeError", "<not compared>"],
"ranges-badsize-list:[2]": ["raise", "TypeError", "<not compared>"],
"ranges-badsize-empty-list:[2]": ["raise", "TypeError", "<not compared>"],
"offsets-badsize-list:[2]": ["raise", "TypeError", "<not compared>"],
"ranges-badsize-float64:2.0": ["raise", "TypeError", "<not compared>"],
"ranges-badsize-empty-float64:2.0": ["raise", "TypeError", "<not compared>"],
"offsets-badsize-float64:2.0": ["raise", "TypeError", "<not compared>"],
"ranges-none-2": ["raise", "TypeError", "'NoneType' object is not iterable"],
"ranges-int-2": ["raise", "TypeError", "'int' object is not iterable"],
"offsets-none-2": ["raise", "TypeError", "'NoneType' object is not iterable"],
"ranges-none-0": ["raise", "TypeError", "'NoneType' object is not iterable"],
"ranges-int-0": ["raise", "TypeError", "'int' object is not iterable"],
"offsets-none-0": ["raise", "TypeError", "'NoneType' object is not iterable"],
"ranges-none--1": ["raise", "TypeError", "'NoneType' object is not iterable"],
"ranges-int--1": ["raise", "TypeError", "'int' object is not iterable"],
"offsets-none--1": ["raise", "TypeError", "'NoneType' object is not iterable"],
"ranges-scalars": ["raise", "TypeError", "<not compared>"],
"ranges-mixed-types": ["raise", "TypeError", "'<' not supported between instances of 'str' and 'int'"],
"ranges-mixed-types-stop": ["raise", "TypeError", "'>' not supported between instances of 'str' and 'int'"],
"ranges-mixed-types-separate": ["ok", ["dict", [[["int", 0], ["tuple", [["int", 0], ["int", 3]]]], [["int", 1], ["tuple", [["str", "a"], ["str", "b"]]]]]]],
"ranges-none-item": ["raise", "TypeError", "<not compared>"],
"ranges-strings": ["ok", ["dict", [[["int", 0], ["tuple", [["str", "a"], ["str", "d"]]]], [["int", 1], ["tuple", [["str", "b"], ["str", "a"]]]]]]],
"offsets-strings": ["raise", "TypeError", "unsupported operand type(s) for -: 'str' and 'str'"],
"to_offset_size-regular": ["ok", ["dict", [[["int", 0], ["dict", [[["str", "offset"], ["int", 0]], [["str", "size"], ["int", 3]]]]], [["int", 1], ["dict", [[["str", "offset"], ["int", 3]], [["str", "size"], ["int", 6]]]]], [["int", 2], ["dict", [[["str", "offset"], ["int", 9]], [["str", "size"], ["int", 7]]]]]]]],
"to_offset_size-gaps": ["ok", ["dict", [[["int", 0], ["dict", [[["str", "offset"], ["int", 0]], [["str", "size"], ["int", 3]]]]], [["int", 1], ["dict", [[["str", "offset"], ["int", 17]], [["str", "size"], ["int", 1]]]]], [["int", 2], ["dict", [[["str", "offset"], ["int", 31]], [["str", "size"], ["int", 69]]]]]]]],
"to_offset_size-empty": ["ok", ["dict", []]],
"to_offset_size-lists": ["ok", ["dict", [[["int", 0], ["dict", [[["str", "offset"], ["int", 4]], [["str", "size"], ["int", 5]]]]], [["int", 1], ["dict", [[["str", "offset"], ["int", 9]], [["str", "size"], ["int", 2]]]]]]]],
"to_offset_size-keys": ["ok", ["dict", [[["str", "a"], ["dict", [[["str", "offset"], ["int", 1]], [["str", "size"], ["int", 1]]]]], [["tuple", [["int", 1], ["int", 2]]], ["dict", [[["str", "offset"], ["int", 3]], [["str", "size"], ["int", 4]]]]], [["None"], ["dict", [[["str", "offset"], ["int", 0]], [["str", "size"], ["int", 0]]]]], [["float", "2.5"], ["dict", [[["str", "offset"], ["int", 9]], [["str", "size"], ["int", -6]]]]]]]],
"to_offset_size-numpy": ["ok", ["dict", [[["numpy.int64", "0"], ["dict", [[["str", "offset"], ["numpy.int64", "3"]], [["str", "size"], ["numpy.int64", "7"]]]]], [["int", 1], ["dict", [[["str", "offset"], ["numpy.uint8", "4"]], [["str", "size"], ["numpy.uint8", "5"]]]]]]]],
"to_offset_size-floats": ["ok", ["dict", [[["int", 0], ["dict", [[["str", "offset"], ["float", "0.5"]], [["str", "size"], ["float", "1.5"]]]]]]]],
"to_offset_size-reversed-order": ["ok", ["dict", [[["int", 3], ["dict", [[["str", "offset"], ["int", 30]], [["str", "size"], ["int", 10]]]]], [["int", 1], ["dict", [[["str", "offset"], ["int", 10]], [["str", "size"], ["int", 10]]]]], [["int", 2], ["dict", [[["str", "offset"], ["int", 20]], [["str", "size"], ["int", 10]]]]]]]],
"to_offset_size-generators": ["ok", ["dict", [[["int", 0], ["dict", [[["str", "offset"], ["int", 3]], [["str", "size"], ["int", 1]]]]]]]],
"to_offset_size-too-long": ["raise", "ValueError", "too many values to unpack (expected 2)"],
"to_offset_size-too-short": ["raise", "ValueError", "not enough values to unpack (expected 2, got 1)"],
"to_offset_size-scalar": ["raise", "TypeError", "cannot unpack non-iterable int object"],
"to_offset_size-strings": ["raise", "TypeError", "unsupported operand type(s) for -: 'str' and 'str'"],
"to_offset_size-string-pair": ["raise", "TypeError", "unsupported operand type(s) for -: 'str' and 'str'"],
"to_offset_size-list": ["raise", "AttributeError", "'list' object has no attribute 'items'"],
"to_offset_size-none": ["raise", "AttributeError", "'NoneType' object has no attribute 'items'"],
"to_offset_size-independent": ["dict", [[["int", 0], ["tuple", [["int", 0], ["int", 3]]]]]],
"Array-NoneType:None": ["ok", ["tuple", [["int", 1024], ["dict", [[["int", 0], ["dict", [[["str", "offset"], ["int", 12]], [["str", "size"], ["int", 456]]]]]]], ["tuple", [["int", 1024], ["int", 20]]]]]],
"Array-lists-NoneType:None": ["ok", ["tuple", [["int", 1024], ["dict", [[["int", 0], ["dict", [[["str", "offset"], ["int", 12]], [["str", "size"], ["int", 456]]]]]]], ["tuple", [["int", 1024], ["int", 20]]]]]],
"Array-int:-1": ["ok", ["tuple", [["int", 9], ["dict", [[["int", 0], ["dict", [[["str", "offset"], ["int", 12]], [["str", "size"], ["int", 456]]]]]]], ["tuple", [["int", 9], ["int", 20]]]]]],
"Array-lists-int:-1": ["ok", ["tuple", [["int", 9], ["dict", [[["int", 0], ["dict", [[["str", "offset"], ["int", 12]], [["str", "size"], ["int", 456]]]]]]], ["tuple", [["int", 9], ["int", 20]]]]]],
"Array-int:1": ["ok", ["tuple", [["int", 1], ["dict", [[["int", 0], ["dict", [[["str", "offset"], ["int", 12]], [["str", "size"], ["int", 40]]]]], [["int", 1], ["dict", [[["str", "offset"], ["int", 64]], [["str", "size"], ["int", 40]]]]], [["int", 2], ["dict", [[["str", "offset"], ["int", 116]], [["str", "size"], ["int", 40]]]]], [["int", 3], ["dict", [[["str", "offset"], ["int", 168]], [["str", "size"], ["int", 40]]]]], [["int", 4], ["dict", [[["str", "offset"], ["int", 220]], [["str", "size"], ["int", 40]]]]], [["int", 5], ["dict", [[["str", "offset"], ["int", 272]], [["str", "size"], ["int", 40]]]]], [["int", 6], ["dict", [[["str", "offset"], ["int", 324]], [["str", "size"], ["int", 40]]]]], [["int", 7], ["dict", [[["str", "offset"], ["int", 376]], [["str", "size"], ["int", 40]]]]], [["int", 8], ["dict", [[["str", "offset"], ["int", 428]], [["str", "size"], ["int", 40]]]]]]], ["tuple", [["int", 1], ["int", 20]]]]]],
"Array-lists-int:1": ["ok", ["tuple", [["int", 1], ["dict", [[["int", 0], ["dict", [[["str", "offset"], ["int", 12]], [["str", "size"], ["int", 40]]]]], [["int", 1], ["dict", [[["str", "offset"], ["int", 64]], [["str", "size"], ["int", 40]]]]], [["int", 2], ["dict", [[["str", "offset"], ["int", 116]], [["str", "size"], ["int", 40]]]]], [["int", 3], ["dict", [[["str", "offset"], ["int", 168]], [["str", "size"], ["int", 40]]]]], [["int", 4], ["dict", [[["str", "offset"], ["int", 220]], [["str", "size"], ["int", 40]]]]], [["int", 5], ["dict", [[["str", "offset"], ["int", 272]], [["str", "size"], ["int", 40]]]]], [["int", 6], ["dict", [[["str", "offset"], ["int", 324]], [["str", "size"], ["int", 40]]]]], [["int", 7], ["dict", [[["str", "offset"], ["int", 376]], [["str", "size"], ["int", 40]]]]], [["int", 8], ["dict", [[["str", "offset"], ["int", 428]], [["str", "size"], ["int", 40]]]]]]], ["tuple", [["int", 1], ["int", 20]]]]]],
"Array-int:2": ["ok", ["tuple", [["int", 2], ["dict", [[["int", 0], ["dict", [[["str", "offset"], ["int", 12]], [["str", "size"], ["int", 92]]]]], [["int", 1], ["dict", [[["str", "offset"], ["int", 116]], [["str", "size"], ["int", 92]]]]], [["int", 2], ["dict", [[["str", "offset"], ["int", 220]], [["str", "size"], ["int", 92]]]]], [["int", 3], ["dict", [[["str", "offset"], ["int", 324]], [["str", "size"], ["int", 92]]]]], [["int", 4], ["dict", [[["str", "offset"], ["int", 428]], [["str", "size"], ["int", 40]]]]]]], ["tuple", [["int", 2], ["int", 20]]]]]],
"Array-lists-int:2": ["ok", ["tuple", [["int", 2], ["dict", [[["int", 0], ["dict", [[["str", "offset"], ["int", 12]], [["str", "size"], ["int", 92]]]]], [["int", 1], ["dict", [[["str", "offset"], ["int", 116]], [["str", "size"], ["int", 92]]]]], [["int", 2], ["dict", [[["str", "offset"], ["int", 220]], [["str", "size"], ["int", 92]]]]], [["int", 3], ["dict", [[["str", "offset"], ["int", 324]], [["str", "size"], ["int", 92]]]]], [["int", 4], ["dict", [[["str", "offset"], ["int", 428]], [["str", "size"], ["int", 40]]]]]]], ["tuple", [["int", 2], ["int", 20]]]]]],
"Array-int:4": ["ok", ["tuple", [["int", 4], ["dict", [[["int", 0], ["dict", [[["str", "offset"], ["int", 12]], [["str", "size"], ["int", 196]]]]], [["int", 1], ["dict", [[["str", "offset"], ["int", 220]], [["str", "size"], ["int", 196]]]]], [["int", 2], ["dict", [[["str", "offset"], ["int", 428]], [["str", "size"], ["int", 40]]]]]]], ["tuple", [["int", 4], ["int", 20]]]]]],
"Array-lists-int:4": ["ok", ["tuple", [["int", 4], ["dict", [[["int", 0], ["dict", [[["str", "offset"], ["int", 12]], [["str", "size"], ["int", 196]]]]], [["int", 1], ["dict", [[["str", "offset"], ["int", 220]], [["str", "size"], ["int", 196]]]]], [["int", 2], ["dict", [[["str", "offset"], ["int", 428]], [["str", "size"], ["int", 40]]]]]]], ["tuple", [["int", 4], ["int", 20]]]]]],
"Array-int:8": ["ok", ["tuple", [["int", 8], ["dict", [[["int", 0], ["dict", [[["str", "offset"], ["int", 12]], [["str", "size"], ["int", 404]]]]], [["int", 1], ["dict", [[["str", "offset"], ["int", 428]], [["str", "size"], ["int", 40]]]]]]], ["tuple", [["int", 8], ["int", 20]]]]]],
"Array-lists-int:8": ["ok", ["tuple", [["int", 8], ["dict", [[["int", 0], ["dict", [[["str", "offset"], ["int", 12]], [["str", "size"], ["int", 404]]]]], [["int", 1], ["dict", [[["str", "offset"], ["int", 428]], [["str", "size"], ["int", 40]]]]]]], ["tuple", [["int", 8], ["int", 20]]]]]],
"Array-int:9": ["ok", ["tuple", [["int", 9], ["dict", [[["int", 0], ["dict", [[["str", "offset"], ["int", 12]], [["str", "size"], ["int", 456]]]]]]], ["tuple", [["int", 9], ["int", 20]]]]]],
"Array-lists-int:9": ["ok", ["tuple", [["int", 9], ["dict", [[["int", 0], ["dict", [[["str", "offset"], ["int", 12]], [["str", "size"], ["int", 456]]]]]]], ["tuple", [["int", 9], ["int", 20]]]]]],
"Array-int:10": ["ok", ["tuple", [["int", 9], ["dict", [[["int", 0], ["dict", [[["str", "offset"], ["int", 12]], [["str", "size"], ["int", 456]]]]]]], ["tuple", [["int", 9], ["int", 20]]]]]],
"Array-lists-int:10": ["ok", ["tuple", [["int", 9], ["dict", [[["int", 0], ["dict", [[["str", "offset"], ["int", 12]], [["str", "size"], ["int", 456]]]]]]], ["tuple", [["int", 9], ["int", 20]]]]]],
"Array-int:1000": ["ok", ["tuple", [["int", 9], ["dict", [[["int", 0], ["dict", [[["str", "offset"], ["int", 12]], [["str", "size"], ["int", 456]]]]]]], ["tuple", [["int", 9], ["int", 20]]]]]],
"Array-lists-int:1000": ["ok", ["tuple", [["int", 9], ["dict", [[["int", 0], ["dict", [[["str", "offset"], ["int", 12]], [["str", "size"], ["int", 456]]]]]]], ["tuple", [["int", 9], ["int", 20]]]]]],
"Array-int:0": ["ok", ["tuple", [["int", 0], ["dict", []], ["tuple", [["int", 0], ["int", 20]]]]]],
"Array-lists-int:0": ["ok", ["tuple", [["int", 0], ["dict", []], ["tuple", [["int", 0], ["int", 20]]]]]],
"Array-int:-2": ["ok", ["tuple", [["int", -2], ["dict", []], ["tuple", [["int", -2], ["int", 20]]]]]],
"Array-lists-int:-2": ["ok", ["tuple", [["int", -2], ["dict", []], ["tuple", [["int", -2], ["int", 20]]]]]],
"Array-str:auto": ["ok", ["tuple", [["numpy.int64", "9"], ["dict", [[["int", 0], ["dict", [[["str", "offset"], ["int", 12]], [["str", "size"], ["int", 456]]]]]]], ["tuple", [["numpy.int64", "9"], ["int", 20]]]]]],
"Array-lists-str:auto": ["ok", ["tuple", [["numpy.int64", "9"], ["dict", [[["int", 0], ["dict", [[["str", "offset"], ["int", 12]], [["str", "size"], ["int", 456]]]]]]], ["tuple", [["numpy.int64", "9"], ["int", 20]]]]]],
"Array-str:80B": ["ok", ["tuple", [["numpy.int64", "2"], ["dict", [[["int", 0], ["dict", [[["str", "offset"], ["int", 12]], [["str", "size"], ["int", 92]]]]], [["int", 1], ["dict", [[["str", "offset"], ["int", 116]], [["str", "size"], ["int", 92]]]]], [["int", 2], ["dict", [[["str", "offset"], ["int", 220]], [["str", "size"], ["int", 92]]]]], [["int", 3], ["dict", [[["str", "offset"], ["int", 324]], [["str", "size"], ["int", 92]]]]], [["int", 4], ["dict", [[["str", "offset"], ["int", 428]], [["str", "size"], ["int", 40]]]]]]], ["tuple", [["numpy.int64", "2"], ["int", 20]]]]]],
"Array-lists-str:80B": ["ok", ["tuple", [["numpy.int64", "2"], ["dict", [[["int", 0], ["dict", [[["str", "offset"], ["int", 12]], [["str", "size"], ["int", 92]]]]], [["int", 1], ["dict", [[["str", "offset"], ["int", 116]], [["str", "size"], ["int", 92]]]]], [["int", 2], ["dict", [[["str", "offset"], ["int", 220]], [["str", "size"], ["int", 92]]]]], [["int", 3], ["dict", [[["str", "offset"], ["int", 324]], [["str", "size"], ["int", 92]]]]], [["int", 4], ["dict", [[["str", "offset"], ["int", 428]], [["str", "size"], ["int", 40]]]]]]], ["tuple", [["numpy.int64", "2"], ["int", 20]]]]]],
"Array-str:100B": ["ok", ["tuple", [["numpy.int64", "2"], ["dict", [[["int", 0], ["dict", [[["str", "offset"], ["int", 12]], [["str", "size"], ["int", 92]]]]], [["int", 1], ["dict", [[["str", "offset"], ["int", 116]], [["str", "size"], ["int", 92]]]]], [["int", 2], ["dict", [[["str", "offset"], ["int", 220]], [["str", "size"], ["int", 92]]]]], [["int", 3], ["dict", [[["str", "offset"], ["int", 324]], [["str", "size"], ["int", 92]]]]], [["int", 4], ["dict", [[["str", "offset"], ["int", 428]], [["str", "size"], ["int", 40]]]]]]], ["tuple", [["numpy.int64", "2"], ["int", 20]]]]]],
"Array-lists-str:100B": ["ok", ["tuple", [["numpy.int64", "2"], ["dict", [[["int", 0], ["dict", [[["str", "offset"], ["int", 12]], [["str", "size"], ["int", 92]]]]], [["int", 1], ["dict", [[["str", "offset"], ["int", 116]], [["str", "size"], ["int", 92]]]]], [["int", 2], ["dict", [[["str", "offset"], ["int", 220]], [["str", "size"], ["int", 92]]]]], [["int", 3], ["dict", [[["str", "offset"], ["int", 324]], [["str", "size"], ["int", 92]]]]], [["int", 4], ["dict", [[["str", "offset"], ["int", 428]], [["str", "size"], ["int", 40]]]]]]], ["tuple", [["numpy.int64", "2"], ["int", 20]]]]]],
"Array-str:1kB": ["ok", ["tuple", [["numpy.int64", "9"], ["dict", [[["int", 0], ["dict", [[["str", "offset"], ["int", 12]], [["str", "size"], ["int", 456]]]]]]], ["tuple", [["numpy.int64", "9"], ["int", 20]]]]]],
"Array-lists-str:1kB": ["ok", ["tuple", [["numpy.int64", "9"], ["dict", [[["int", 0], ["dict", [[["str", "offset"], ["int", 12]], [["str", "size"], ["int", 456]]]]]]], ["tuple", [["numpy.int64", "9"], ["int", 20]]]]]],
"Array-str:0B": ["ok", ["tuple", [["numpy.int64", "1"], ["dict", [[["int", 0], ["dict", [[["str", "offset"], ["int", 12]], [["str", "size"], ["int", 40]]]]], [["int", 1], ["dict", [[["str", "offset"], ["int", 64]], [["str", "size"], ["int", 40]]]]], [["int", 2], ["dict", [[["str", "offset"], ["int", 116]], [["str", "size"], ["int", 40]]]]], [["int", 3], ["dict", [[["str", "offset"], ["int", 168]], [["str", "size"], ["int", 40]]]]], [["int", 4], ["dict", [[["str", "offset"], ["int", 220]], [["str", "size"], ["int", 40]]]]], [["int", 5], ["dict", [[["str", "offset"], ["int", 272]], [["str", "size"], ["int", 40]]]]], [["int", 6], ["dict", [[["str", "offset"], ["int", 324]], [["str", "size"], ["int", 40]]]]], [["int", 7], ["dict", [[["str", "offset"], ["int", 376]], [["str", "size"], ["int", 40]]]]], [["int", 8], ["dict", [[["str", "offset"], ["int", 428]], [["str", "size"], ["int", 40]]]]]]], ["tuple", [["numpy.int64", "1"], ["int", 20]]]]]],
"Array-lists-str:0B": ["ok", ["tuple", [["numpy.int64", "1"], ["dict", [[["int", 0], ["dict", [[["str", "offset"], ["int", 12]], [["str", "size"], ["int", 40]]]]], [["int", 1], ["dict", [[["str", "offset"], ["int", 64]], [["str", "size"], ["int", 40]]]]], [["int", 2], ["dict", [[["str", "offset"], ["int", 116]], [["str", "size"], ["int", 40]]]]], [["int", 3], ["dict", [[["str", "offset"], ["int", 168]], [["str", "size"], ["int", 40]]]]], [["int", 4], ["dict", [[["str", "offset"], ["int", 220]], [["str", "size"], ["int", 40]]]]], [["int", 5], ["dict", [[["str", "offset"], ["int", 272]], [["str", "size"], ["int", 40]]]]], [["int", 6], ["dict", [[["str", "offset"], ["int", 324]], [["str", "size"], ["int", 40]]]]], [["int", 7], ["dict", [[["str", "offset"], ["int", 376]], [["str", "size"], ["int", 40]]]]], [["int", 8], ["dict", [[["str", "offset"], ["int", 428]], [["str", "size"], ["int", 40]]]]]]], ["tuple", [["numpy.int64", "1"], ["int", 20]]]]]],
"Array-bool:True": ["ok", ["tuple", [["bool", true], ["dict", [[["int", 0], ["dict", [[["str", "offset"], ["int", 12]], [["str", "size"], ["int", 40]]]]], [["int", 1], ["dict", [[["str", "offset"], ["int", 64]], [["str", "size"], ["int", 40]]]]], [["int", 2], ["dict", [[["str", "offset"], ["int", 116]], [["str", "size"], ["int", 40]]]]], [["int", 3], ["dict", [[["str", "offset"], ["int", 168]], [["str", "size"], ["int", 40]]]]], [["int", 4], ["dict", [[["str", "offset"], ["int", 220]], [["str", "size"], ["int", 40]]]]], [["int", 5], ["dict", [[["str", "offset"], ["int", 272]], [["str", "size"], ["int", 40]]]]], [["int", 6], ["dict", [[["str", "offset"], ["int", 324]], [["str", "size"], ["int", 40]]]]], [["int", 7], ["dict", [[["str", "offset"], ["int", 376]], [["str", "size"], ["int", 40]]]]], [["int", 8], ["dict", [[["str", "offset"], ["int", 428]], [["str", "size"], ["int", 40]]]]]]], ["tuple", [["bool", true], ["int", 20]]]]]],
"Array-lists-bool:True": ["ok", ["tuple", [["bool", true], ["dict", [[["int", 0], ["dict", [[["str", "offset"], ["int", 12]], [["str", "size"], ["int", 40]]]]], [["int", 1], ["dict", [[["str", "offset"], ["int", 64]], [["str", "size"], ["int", 40]]]]], [["int", 2], ["dict", [[["str", "offset"], ["int", 116]], [["str", "size"], ["int", 40]]]]], [["int", 3], ["dict", [[["str", "offset"], ["int", 168]], [["str", "size"], ["int", 40]]]]], [["int", 4], ["dict", [[["str", "offset"], ["int", 220]], [["str", "size"], ["int", 40]]]]], [["int", 5], ["dict", [[["str", "offset"], ["int", 272]], [["str", "size"], ["int", 40]]]]], [["int", 6], ["dict", [[["str", "offset"], ["int", 324]], [["str", "size"], ["int", 40]]]]], [["int", 7], ["dict", [[["str", "offset"], ["int", 376]], [["str", "size"], ["int", 40]]]]], [["int", 8], ["dict", [[["str", "offset"], ["int", 428]], [["str", "size"], ["int", 40]]]]]]], ["tuple", [["bool", true], ["int", 20]]]]]],
"Array-int64:3": ["ok", ["tuple", [["numpy.int64", "3"], ["dict", [[["int", 0], ["dict", [[["str", "offset"], ["int", 12]], [["str", "size"], ["int", 144]]]]], [["int", 1], ["dict", [[["str", "offset"], ["int", 168]], [["str", "size"], ["int", 144]]]]], [["int", 2], ["dict", [[["str", "offset"], ["int", 324]], [["str", "size"], ["int", 144]]]]]]], ["tuple", [["numpy.int64", "3"], ["int", 20]]]]]],
"Array-lists-int64:3": ["ok", ["tuple", [["numpy.int64", "3"], ["dict", [[["int", 0], ["dict", [[["str", "offset"], ["int", 12]], [["str", "size"], ["int", 144]]]]], [["int", 1], ["dict", [[["str", "offset"], ["int", 168]], [["str", "size"], ["int", 144]]]]], [["int", 2], ["dict", [[["str", "offset"], ["int", 324]], [["str", "size"], ["int", 144]]]]]]], ["tuple", [["numpy.int64", "3"], ["int", 20]]]]]],
"Array-empty": ["ok", ["tuple", [["int", 0], ["dict", []], ["tuple", [["int", 0], ["int", 20]]]]]],
"Array-empty-auto": ["raise", "ValueError", "<not compared>"],
"Array-float": ["raise", "TypeError", "<not compared>"]
}'''


def main():
    results = collect()
    if "--record" in sys.argv:
        json.dump(results, sys.stdout)
        return 0

    expected = json.loads(EXPECTED)
    assert list(results) == list(expected), "different set of cases"
    failures = [label for label in expected if results[label] != expected[label]]
    for label in failures:
        print(f"MISMATCH {label}:\n  expected {expected[label]}\n  actual   {results[label]}")
    print(f"{len(expected) - len(failures)} of {len(expected)} cases identical to the recording")
    return 1 if failures else 0


def test_equivalence():
    assert main() == 0


if __name__ == "__main__":
    sys.exit(main())
