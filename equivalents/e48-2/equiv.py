"""Equivalence check for refactoring 2 (utils.to_dict, utils.rename,
utils.remove_nesting_layer).

Expected outcomes were recorded from the unchanged code at HEAD
(``python _eq/2/equiv.py --dump`` prints the table for the importable code).
"""

import collections
import datetime
import inspect
import io
import sys

import construct
import numpy as np
from construct import Bytes, Enum, GreedyRange, Int8ub, Int16ub, PaddedString, Struct

from ceos_alos2 import utils


def describe(obj):
    """value plus exact types, recursively"""
    if isinstance(obj, dict):
        return (type(obj).__name__, [(describe(k), describe(v)) for k, v in obj.items()])
    if isinstance(obj, (list, tuple)):
        return (type(obj).__name__, [describe(v) for v in obj])
    if inspect.isgenerator(obj):
        return ("generator", obj.__qualname__, [describe(v) for v in obj])
    if isinstance(obj, io.IOBase):
        return (type(obj).__name__, "<stream>")
    return (type(obj).__name__, repr(obj))


def outcome(func, *args):
    try:
        result = func(*args)
    except Exception as e:  # noqa: BLE001
        return ("raise", type(e).__name__, str(e))
    return ("ok", describe(result))


class MyList(list):
    pass


class MyTuple(tuple):
    pass


class MyDict(dict):
    pass


Point = collections.namedtuple("Point", ["x", "y"])
Single = collections.namedtuple("Single", ["x"])

record = Struct(
    "kind" / Enum(Int8ub, a=1, b=2),
    "count" / Int8ub,
    "name" / PaddedString(4, "ascii"),
    "raw" / Bytes(2),
    "inner" / Struct("u" / Int16ub, "deep" / Struct("v" / Int8ub)),
    "items" / GreedyRange(Struct("p" / Int8ub, "q" / Enum(Int8ub, x=0, y=7))),
)
parsed_known = record.parse(b"\x01\x03ab  \xff\x00\x01\x02\x09\x05\x00\x06\x07")
parsed_unknown_enum = record.parse(b"\x09\x00abcd\x00\x00\x00\x00\x00")
parsed_array = construct.Array(3, Int8ub).parse(b"\x01\x02\x03")
parsed_nested_lists = construct.Array(2, construct.Array(2, Int8ub)).parse(b"\x01\x02\x03\x04")


def to_dict_cases():
    now = datetime.datetime(2020, 1, 2, 3, 4, 5)
    return [
        1, 1.5, "a", b"a", 1 + 2j, now, True,
        np.float64(1.5), np.str_("x"), np.bytes_(b"x"),
        parsed_known.kind, parsed_unknown_enum.kind,
        [], (), [1, "a", [2, (3, 4)]], (1, [2, {"a": (3,)}]),
        MyList([1, (2,)]), MyTuple((1, [2])),
        construct.ListContainer([1, construct.ListContainer([2, 3]), (4,)]),
        parsed_array, parsed_nested_lists,
        {}, {"a": 1, "_io": "dropped", "b": {"_io": 2, "c": [1, {"_io": 3, "d": 4}]}},
        MyDict(a=MyDict(b=1)), collections.OrderedDict([("z", 1), ("a", (1, 2))]),
        {1: "int key", ("t",): "tuple key", "_io": 0},
        construct.Container(a=1, b=construct.Container(_io=None, c=construct.ListContainer([1]))),
        parsed_known, parsed_unknown_enum,
        [parsed_known, (parsed_unknown_enum,)],
        # failures
        None, np.int64(3), np.array([1, 2]), {"a": None}, [1, None], {1, 2}, object,
        datetime.date(2020, 1, 1), datetime.timedelta(1),
        Point(1, 2), Single(1), Single([1, 2]),
        range(3), iter([1]), {"a": range(2)},
    ]


def rename_cases():
    return [
        ({}, {}),
        ({"a": 1, "b": 2}, {}),
        ({"a": 1, "b": 2}, {"a": "x"}),
        ({"a": 1, "b": 2}, {"a": "b"}),
        ({"a": 1, "b": 2}, {"b": "a"}),
        ({"a": 1, "b": 2, "c": 3}, {"a": "c", "c": "a"}),
        ({"a": 1, "b": 2, "c": 3}, {"a": "z", "b": "z", "c": "z"}),
        ({"a": 1}, {"q": "r"}),
        ({"a": 1, 2: "two", (1, 2): None}, {2: "a", (1, 2): 2}),
        ({"a": 1}, {"a": None}),
        ({"a": 1, "b": 2}, {"a": ["unhashable"]}),
        (collections.OrderedDict([("b", 1), ("a", 2)]), {"a": "A"}),
        (MyDict(a=1), MyDict(a="b")),
        (construct.Container(a=1, _io=2), {"_io": "io"}),
        ({"a": 1}, collections.defaultdict(lambda: "dflt")),
        ({"a": 1}, collections.ChainMap({"a": "c"}, {"a": "d"})),
        # failures
        (None, {}),
        ([("a", 1)], {}),
        ({"a": 1}, None),
        ({"a": 1}, [("a", "b")]),
        ({}, None),
    ]


def nesting_cases():
    return [
        {},
        {"a": 1},
        {"a": {"b": 1, "c": 2}},
        {"a": 1, "b": {"c": 2, "d": {"e": 3}}, "f": [1, {"g": 2}]},
        {"a": 1, "b": {"a": 2}},
        {"b": {"a": 2}, "a": 1},
        {"x": {"a": 1, "b": 2}, "y": {"b": 3, "c": 4}, "b": 5},
        {"a": {}, "b": {}},
        {"a": MyDict(b=1), "c": collections.OrderedDict(d=2), "e": construct.Container(f=3)},
        {"a": collections.ChainMap({"b": 1})},
        {"a": collections.UserDict({"b": 1})},
        collections.OrderedDict([("z", {"y": 1}), ("x", 2)]),
        MyDict(a={"b": 1}),
        parsed_known,
        utils.to_dict(parsed_known),
        {"a": {("t", 1): 2, None: 3}},
        # failures
        None, [("a", 1)], 5, "abc",
    ]


def all_outcomes():
    return {
        "to_dict": [outcome(utils.to_dict, case) for case in to_dict_cases()],
        "rename": [outcome(utils.rename, *case) for case in rename_cases()],
        "remove_nesting_layer": [
            outcome(utils.remove_nesting_layer, case) for case in nesting_cases()
        ],
    }


EXPECTED = {'to_dict': [('ok', ('int', '1')),
             ('ok', ('float', '1.5')),
             ('ok', ('str', "'a'")),
             ('ok', ('bytes', "b'a'")),
             ('ok', ('complex', '(1+2j)')),
             ('ok', ('datetime', 'datetime.datetime(2020, 1, 2, 3, 4, 5)')),
             ('ok', ('bool', 'True')),
             ('ok', ('float64', 'np.float64(1.5)')),
             ('ok', ('str_', "np.str_('x')")),
             ('ok', ('bytes_', "np.bytes_(b'x')")),
             ('ok', ('str', "'a'")),
             ('ok', ('EnumInteger', '9')),
             ('ok', ('list', [])),
             ('ok', ('tuple', [])),
             ('ok',
              ('list',
               [('int', '1'),
                ('str', "'a'"),
                ('list', [('int', '2'), ('tuple', [('int', '3'), ('int', '4')])])])),
             ('ok',
              ('tuple',
               [('int', '1'),
                ('list', [('int', '2'), ('dict', [(('str', "'a'"), ('tuple', [('int', '3')]))])])])),
             ('ok', ('MyList', [('int', '1'), ('tuple', [('int', '2')])])),
             ('ok', ('MyTuple', [('int', '1'), ('list', [('int', '2')])])),
             ('ok',
              ('list', [('int', '1'), ('list', [('int', '2'), ('int', '3')]), ('tuple', [('int', '4')])])),
             ('ok', ('list', [('int', '1'), ('int', '2'), ('int', '3')])),
             ('ok',
              ('list', [('list', [('int', '1'), ('int', '2')]), ('list', [('int', '3'), ('int', '4')])])),
             ('ok', ('dict', [])),
             ('ok',
              ('dict',
               [(('str', "'a'"), ('int', '1')),
                (('str', "'b'"),
                 ('dict',
                  [(('str', "'c'"),
                    ('list', [('int', '1'), ('dict', [(('str', "'d'"), ('int', '4'))])]))]))])),
             ('ok', ('dict', [(('str', "'a'"), ('dict', [(('str', "'b'"), ('int', '1'))]))])),
             ('ok',
              ('dict',
               [(('str', "'z'"), ('int', '1')), (('str', "'a'"), ('tuple', [('int', '1'), ('int', '2')]))])),
             ('ok',
              ('dict',
               [(('int', '1'), ('str', "'int key'")),
                (('tuple', [('str', "'t'")]), ('str', "'tuple key'"))])),
             ('ok',
              ('dict',
               [(('str', "'a'"), ('int', '1')),
                (('str', "'b'"), ('dict', [(('str', "'c'"), ('list', [('int', '1')]))]))])),
             ('ok',
              ('dict',
               [(('str', "'kind'"), ('str', "'a'")),
                (('str', "'count'"), ('int', '3')),
                (('str', "'name'"), ('str', "'ab  '")),
                (('str', "'raw'"), ('bytes', "b'\\xff\\x00'")),
                (('str', "'inner'"),
                 ('dict',
                  [(('str', "'u'"), ('int', '258')),
                   (('str', "'deep'"), ('dict', [(('str', "'v'"), ('int', '9'))]))])),
                (('str', "'items'"),
                 ('list',
                  [('dict', [(('str', "'p'"), ('int', '5')), (('str', "'q'"), ('str', "'x'"))]),
                   ('dict', [(('str', "'p'"), ('int', '6')), (('str', "'q'"), ('str', "'y'"))])]))])),
             ('ok',
              ('dict',
               [(('str', "'kind'"), ('EnumInteger', '9')),
                (('str', "'count'"), ('int', '0')),
                (('str', "'name'"), ('str', "'abcd'")),
                (('str', "'raw'"), ('bytes', "b'\\x00\\x00'")),
                (('str', "'inner'"),
                 ('dict',
                  [(('str', "'u'"), ('int', '0')),
                   (('str', "'deep'"), ('dict', [(('str', "'v'"), ('int', '0'))]))])),
                (('str', "'items'"), ('list', []))])),
             ('ok',
              ('list',
               [('dict',
                 [(('str', "'kind'"), ('str', "'a'")),
                  (('str', "'count'"), ('int', '3')),
                  (('str', "'name'"), ('str', "'ab  '")),
                  (('str', "'raw'"), ('bytes', "b'\\xff\\x00'")),
                  (('str', "'inner'"),
                   ('dict',
                    [(('str', "'u'"), ('int', '258')),
                     (('str', "'deep'"), ('dict', [(('str', "'v'"), ('int', '9'))]))])),
                  (('str', "'items'"),
                   ('list',
                    [('dict', [(('str', "'p'"), ('int', '5')), (('str', "'q'"), ('str', "'x'"))]),
                     ('dict', [(('str', "'p'"), ('int', '6')), (('str', "'q'"), ('str', "'y'"))])]))]),
                ('tuple',
                 [('dict',
                   [(('str', "'kind'"), ('EnumInteger', '9')),
                    (('str', "'count'"), ('int', '0')),
                    (('str', "'name'"), ('str', "'abcd'")),
                    (('str', "'raw'"), ('bytes', "b'\\x00\\x00'")),
                    (('str', "'inner'"),
                     ('dict',
                      [(('str', "'u'"), ('int', '0')),
                       (('str', "'deep'"), ('dict', [(('str', "'v'"), ('int', '0'))]))])),
                    (('str', "'items'"), ('list', []))])])])),
             ('raise', 'AttributeError', "'NoneType' object has no attribute 'items'"),
             ('raise', 'AttributeError', "'numpy.int64' object has no attribute 'items'"),
             ('raise', 'AttributeError', "'numpy.ndarray' object has no attribute 'items'"),
             ('raise', 'AttributeError', "'NoneType' object has no attribute 'items'"),
             ('raise', 'AttributeError', "'NoneType' object has no attribute 'items'"),
             ('raise', 'AttributeError', "'set' object has no attribute 'items'"),
             ('raise', 'AttributeError', "type object 'object' has no attribute 'items'"),
             ('raise', 'AttributeError', "'datetime.date' object has no attribute 'items'"),
             ('raise', 'AttributeError', "'datetime.timedelta' object has no attribute 'items'"),
             ('raise', 'TypeError', "Point.__new__() missing 1 required positional argument: 'y'"),
             ('ok', ('Single', [('generator', 'to_dict.<locals>.<genexpr>', [('int', '1')])])),
             ('ok',
              ('Single',
               [('generator', 'to_dict.<locals>.<genexpr>', [('list', [('int', '1'), ('int', '2')])])])),
             ('raise', 'AttributeError', "'range' object has no attribute 'items'"),
             ('raise', 'AttributeError', "'list_iterator' object has no attribute 'items'"),
             ('raise', 'AttributeError', "'range' object has no attribute 'items'")],
 'rename': [('ok', ('dict', [])),
            ('ok', ('dict', [(('str', "'a'"), ('int', '1')), (('str', "'b'"), ('int', '2'))])),
            ('ok', ('dict', [(('str', "'x'"), ('int', '1')), (('str', "'b'"), ('int', '2'))])),
            ('ok', ('dict', [(('str', "'b'"), ('int', '2'))])),
            ('ok', ('dict', [(('str', "'a'"), ('int', '2'))])),
            ('ok',
             ('dict',
              [(('str', "'c'"), ('int', '1')),
               (('str', "'b'"), ('int', '2')),
               (('str', "'a'"), ('int', '3'))])),
            ('ok', ('dict', [(('str', "'z'"), ('int', '3'))])),
            ('ok', ('dict', [(('str', "'a'"), ('int', '1'))])),
            ('ok', ('dict', [(('str', "'a'"), ('str', "'two'")), (('int', '2'), ('NoneType', 'None'))])),
            ('ok', ('dict', [(('NoneType', 'None'), ('int', '1'))])),
            ('raise', 'TypeError', "unhashable type: 'list'"),
            ('ok', ('dict', [(('str', "'b'"), ('int', '1')), (('str', "'A'"), ('int', '2'))])),
            ('ok', ('dict', [(('str', "'b'"), ('int', '1'))])),
            ('ok', ('dict', [(('str', "'a'"), ('int', '1')), (('str', "'io'"), ('int', '2'))])),
            ('ok', ('dict', [(('str', "'a'"), ('int', '1'))])),
            ('ok', ('dict', [(('str', "'c'"), ('int', '1'))])),
            ('raise', 'AttributeError', "'NoneType' object has no attribute 'keys'"),
            ('raise', 'AttributeError', "'list' object has no attribute 'keys'"),
            ('raise', 'AttributeError', "'NoneType' object has no attribute 'get'"),
            ('raise', 'AttributeError', "'list' object has no attribute 'get'"),
            ('ok', ('dict', []))],
 'remove_nesting_layer': [('ok', ('dict', [])),
                          ('ok', ('dict', [(('str', "'a'"), ('int', '1'))])),
                          ('ok', ('dict', [(('str', "'b'"), ('int', '1')), (('str', "'c'"), ('int', '2'))])),
                          ('ok',
                           ('dict',
                            [(('str', "'a'"), ('int', '1')),
                             (('str', "'c'"), ('int', '2')),
                             (('str', "'d'"), ('dict', [(('str', "'e'"), ('int', '3'))])),
                             (('str', "'f'"),
                              ('list', [('int', '1'), ('dict', [(('str', "'g'"), ('int', '2'))])]))])),
                          ('ok', ('dict', [(('str', "'a'"), ('int', '2'))])),
                          ('ok', ('dict', [(('str', "'a'"), ('int', '1'))])),
                          ('ok',
                           ('dict',
                            [(('str', "'a'"), ('int', '1')),
                             (('str', "'b'"), ('int', '5')),
                             (('str', "'c'"), ('int', '4'))])),
                          ('ok', ('dict', [])),
                          ('ok',
                           ('dict',
                            [(('str', "'b'"), ('int', '1')),
                             (('str', "'d'"), ('int', '2')),
                             (('str', "'f'"), ('int', '3'))])),
                          ('ok', ('dict', [(('str', "'a'"), ('ChainMap', "ChainMap({'b': 1})"))])),
                          ('ok', ('dict', [(('str', "'a'"), ('UserDict', "{'b': 1}"))])),
                          ('ok', ('dict', [(('str', "'y'"), ('int', '1')), (('str', "'x'"), ('int', '2'))])),
                          ('ok', ('dict', [(('str', "'b'"), ('int', '1'))])),
                          ('ok',
                           ('dict',
                            [(('str', "'_io'"), ('BytesIO', '<stream>')),
                             (('str', "'kind'"), ('EnumIntegerString', "EnumIntegerString.new(1, 'a')")),
                             (('str', "'count'"), ('int', '3')),
                             (('str', "'name'"), ('str', "'ab  '")),
                             (('str', "'raw'"), ('bytes', "b'\\xff\\x00'")),
                             (('str', "'u'"), ('int', '258')),
                             (('str', "'deep'"),
                              ('Container',
                               [(('str', "'_io'"), ('BytesIO', '<stream>')),
                                (('str', "'v'"), ('int', '9'))])),
                             (('str', "'items'"),
                              ('ListContainer',
                               [('Container',
                                 [(('str', "'_io'"), ('BytesIO', '<stream>')),
                                  (('str', "'p'"), ('int', '5')),
                                  (('str', "'q'"), ('EnumIntegerString', "EnumIntegerString.new(0, 'x')"))]),
                                ('Container',
                                 [(('str', "'_io'"), ('BytesIO', '<stream>')),
                                  (('str', "'p'"), ('int', '6')),
                                  (('str', "'q'"),
                                   ('EnumIntegerString', "EnumIntegerString.new(7, 'y')"))])]))])),
                          ('ok',
                           ('dict',
                            [(('str', "'kind'"), ('str', "'a'")),
                             (('str', "'count'"), ('int', '3')),
                             (('str', "'name'"), ('str', "'ab  '")),
                             (('str', "'raw'"), ('bytes', "b'\\xff\\x00'")),
                             (('str', "'u'"), ('int', '258')),
                             (('str', "'deep'"), ('dict', [(('str', "'v'"), ('int', '9'))])),
                             (('str', "'items'"),
                              ('list',
                               [('dict', [(('str', "'p'"), ('int', '5')), (('str', "'q'"), ('str', "'x'"))]),
                                ('dict',
                                 [(('str', "'p'"), ('int', '6')), (('str', "'q'"), ('str', "'y'"))])]))])),
                          ('ok',
                           ('dict',
                            [(('tuple', [('str', "'t'"), ('int', '1')]), ('int', '2')),
                             (('NoneType', 'None'), ('int', '3'))])),
                          ('raise', 'AttributeError', "'NoneType' object has no attribute 'items'"),
                          ('raise', 'AttributeError', "'list' object has no attribute 'items'"),
                          ('raise', 'AttributeError', "'int' object has no attribute 'items'"),
                          ('raise', 'AttributeError', "'str' object has no attribute 'items'")]}


def test_outcomes():
    actual = all_outcomes()
    assert actual.keys() == EXPECTED.keys()
    for name in EXPECTED:
        assert len(actual[name]) == len(EXPECTED[name]), name
        for index, (a, e) in enumerate(zip(actual[name], EXPECTED[name])):
            assert a == e, (name, index, a, e)


def test_inputs_not_mutated_and_results_fresh():
    mapping = {"a": 1, "b": {"c": 2}}
    translations = {"a": "x"}
    renamed = utils.rename(mapping, translations)
    flattened = utils.remove_nesting_layer(mapping)
    converted = utils.to_dict(mapping)
    assert mapping == {"a": 1, "b": {"c": 2}} and translations == {"a": "x"}
    assert renamed is not mapping and flattened is not mapping and converted is not mapping
    # shallow: values are passed through as they are
    assert renamed["b"] is mapping["b"]
    assert converted["b"] is not mapping["b"]

    scalar = 2.5
    assert utils.to_dict(scalar) is scalar
    lst = [1, 2]
    assert utils.to_dict(lst) is not lst


def test_lazy_iteration_order():
    # the items of the mapping are consumed one by one, in order
    events = []

    class Spy(dict):
        def items(self):
            for k, v in super().items():
                events.append(k)
                yield k, v

    spy = Spy(a=1, b=Spy(c=2, d=3), e=4)
    assert utils.remove_nesting_layer(spy) == {"a": 1, "c": 2, "d": 3, "e": 4}
    assert events == ["a", "b", "c", "d", "e"]

    events.clear()
    assert utils.to_dict(spy) == {"a": 1, "b": {"c": 2, "d": 3}, "e": 4}
    assert events == ["a", "b", "c", "d", "e"]


def test_translations_lookups():
    calls = []

    class Spy(dict):
        def get(self, key, default=None):
            calls.append((key, default))
            return super().get(key, default)

    assert utils.rename({"a": 1, "b": 2}, Spy(a="x")) == {"x": 1, "b": 2}
    assert calls == [("a", "a"), ("b", "b")]


if __name__ == "__main__":
    if "--dump" in sys.argv:
        import pprint

        pprint.pprint(all_outcomes(), width=110, sort_dicts=False)
        sys.exit(0)
    for name, func in sorted(globals().items()):
        if name.startswith("test_"):
            func()
    print("ok:", {k: len(v) for k, v in EXPECTED.items()})
