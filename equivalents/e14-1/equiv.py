"""Equivalence check for refactoring 1 (``ceos_alos2.sar_image.metadata.extract_attrs``).

Run as::

    cd /tmp/wt3/e14 && PYTHONPATH=/tmp/wt3/e14 /venv/bin/python _eq/1/equiv.py

or through pytest (``test_equivalence``). ``EXPECTED`` was recorded from the
unchanged code (``python _eq/1/equiv.py --record`` prints a fresh table).
"""

import copy
import decimal
import fractions
import math
import sys

import numpy as np

from ceos_alos2.sar_image import metadata
from ceos_alos2.sar_image.file_descriptor import file_descriptor_record
from ceos_alos2.utils import to_dict


def canon(obj):
    """Type-aware, order-preserving textual form of a result."""
    if isinstance(obj, dict):
        items = ", ".join(f"{canon(k)}: {canon(v)}" for k, v in obj.items())
        return f"{type(obj).__name__}{{{items}}}"
    if isinstance(obj, (list, tuple)):
        items = ", ".join(canon(v) for v in obj)
        return f"{type(obj).__name__}[{items}]"
    if isinstance(obj, np.ndarray):
        return f"ndarray<{obj.dtype}>{obj.tolist()!r}"
    return f"{type(obj).__name__}:{obj!r}"


def outcome(func, *args):
    try:
        result = func(*args)
    except BaseException as exc:  # noqa: BLE001
        return f"raise {type(exc).__name__}: {exc}"
    return "ok " + canon(result)


def ascii_field(value, width):
    text = "" if value is None else str(value)
    return text.rjust(width).encode("ascii")


def build_file_descriptor(
    *, interleaving="BSQ", max_range=None, n_burst=None, lines_per_burst=None, overlap=None
):
    """A 720 byte SAR image file descriptor with the given header attrs."""
    raw = bytearray(b" " * 720)
    raw[0:12] = (1).to_bytes(4, "big") + bytes([50, 192, 18, 18]) + (720).to_bytes(4, "big")
    raw[180:186] = ascii_field(3, 6)
    raw[186:192] = ascii_field(100, 6)
    raw[236:244] = ascii_field(3, 8)
    raw[248:256] = ascii_field(20, 8)
    raw[268:272] = interleaving.ljust(4).encode("ascii")
    raw[428:432] = b"C*8 "
    raw[440:448] = ascii_field(max_range, 8)
    raw[448:452] = ascii_field(n_burst, 4)
    raw[452:456] = ascii_field(lines_per_burst, 4)
    raw[456:460] = ascii_field(overlap, 4)
    return to_dict(file_descriptor_record.parse(bytes(raw)))


class Weird:
    """Neither equal to -1 nor a float: math.isnan has to complain."""

    def __repr__(self):
        return "Weird()"


def build_cases():
    cases = {
        "empty": {},
        "preamble_only": {"preamble": {"record_length": 720}},
        "preamble_scalar": {"preamble": 1, "interleaving_id": "BIP"},
        "flat_known": {
            "interleaving_id": "BSQ",
            "number_of_burst_data": 5,
            "number_of_lines_per_burst": 1,
            "number_of_overlap_lines_with_adjacent_bursts": 3,
        },
        "flat_all_missing": {
            "interleaving_id": "BSQ",
            "maximum_data_range_of_pixel": -1,
            "number_of_burst_data": -1,
            "number_of_lines_per_burst": -1,
            "number_of_overlap_lines_with_adjacent_bursts": -1,
        },
        "order_is_input_order": {
            "number_of_overlap_lines_with_adjacent_bursts": 2,
            "maximum_data_range_of_pixel": 9,
            "interleaving_id": "x",
            "number_of_burst_data": 0,
        },
        "range_27": {"maximum_data_range_of_pixel": 27},
        "range_0": {"maximum_data_range_of_pixel": 0},
        "range_nan": {"maximum_data_range_of_pixel": float("nan")},
        "range_inf": {"maximum_data_range_of_pixel": math.inf},
        "range_float": {"maximum_data_range_of_pixel": 3.5},
        "range_minus_one_float": {"maximum_data_range_of_pixel": -1.0},
        "range_minus_two": {"maximum_data_range_of_pixel": -2},
        "range_bool": {"maximum_data_range_of_pixel": True},
        "range_np_int": {"maximum_data_range_of_pixel": np.int32(-1)},
        "range_np_nan": {"maximum_data_range_of_pixel": np.float32("nan")},
        "range_np_float": {"maximum_data_range_of_pixel": np.float64(65535)},
        "range_decimal": {"maximum_data_range_of_pixel": decimal.Decimal("12")},
        "range_fraction": {"maximum_data_range_of_pixel": fractions.Fraction(-1)},
        "range_str": {"maximum_data_range_of_pixel": "27"},
        "range_none": {"maximum_data_range_of_pixel": None},
        "range_weird": {"maximum_data_range_of_pixel": Weird()},
        "range_list": {"maximum_data_range_of_pixel": [1]},
        "range_complex": {"maximum_data_range_of_pixel": 1j},
        "burst_zero": {"number_of_burst_data": 0, "number_of_lines_per_burst": 0},
        "burst_none": {"number_of_burst_data": None},
        "burst_str": {"number_of_lines_per_burst": "-1"},
        "burst_list_nonempty": {"number_of_burst_data": [1, 2]},
        "burst_list_empty": {"number_of_overlap_lines_with_adjacent_bursts": []},
        "burst_tuple_empty": {"number_of_burst_data": ()},
        "burst_nan": {"number_of_burst_data": float("nan")},
        "interleaving_empty_string": {"interleaving_id": ""},
        "interleaving_empty_list": {"interleaving_id": []},
        "interleaving_list": {"interleaving_id": ["BSQ"]},
        "interleaving_none": {"interleaving_id": None},
        "interleaving_minus_one": {"interleaving_id": -1},
        "unknown_dropped": {"a": 1, "b": {"c": 2}, "interleaving_id": "BSQ"},
        "nested_one_level": {
            "sar_related_data_in_the_record": {"interleaving_id": "BSQ", "other": 1},
            "prefix_suffix_data_locators": {
                "maximum_data_range_of_pixel": 255,
                "number_of_burst_data": -1,
                "number_of_lines_per_burst": 4,
            },
            "scansar_burst_data_information": {
                "number_of_overlap_lines_with_adjacent_bursts": -1,
                "blanks": "",
            },
        },
        "nested_two_levels_dropped": {"a": {"b": {"interleaving_id": "BSQ"}}},
        "nested_preamble_kept_out": {"a": {"preamble": 1, "interleaving_id": "q"}},
        "preamble_contents_ignored": {
            "preamble": {"interleaving_id": "from preamble"},
            "number_of_burst_data": 2,
        },
        "later_section_wins": {
            "a": {"interleaving_id": "first", "number_of_burst_data": 1},
            "b": {"interleaving_id": "second"},
            "number_of_burst_data": -1,
        },
        "flat_then_nested_collision": {
            "maximum_data_range_of_pixel": -1,
            "x": {"maximum_data_range_of_pixel": 7},
        },
        "translation_target_as_input": {"valid_range": [3, 4], "maximum_data_range_of_pixel": 5},
        "non_string_keys": {1: 2, ("interleaving_id",): 3, None: 4, "interleaving_id": 5},
        "section_empty_dict": {"a": {}, "interleaving_id": {}},
        "parsed_blank": build_file_descriptor(),
        "parsed_level15": build_file_descriptor(max_range=65535),
        "parsed_specan": build_file_descriptor(
            interleaving="BIP", n_burst=12, lines_per_burst=300, overlap=25
        ),
        "parsed_zeroes": build_file_descriptor(
            interleaving="", max_range=0, n_burst=0, lines_per_burst=0, overlap=0
        ),
        "parsed_minus_one": build_file_descriptor(max_range=-1, n_burst=-1),
        "header_none": None,
        "header_list": [("interleaving_id", "BSQ")],
        "header_str": "interleaving_id",
        "header_int": 5,
    }
    return cases


EXPECTED = {
    'empty': 'ok dict{}',
    'preamble_only': 'ok dict{}',
    'preamble_scalar': "ok dict{str:'interleaving_id': str:'BIP'}",
    'flat_known': "ok dict{str:'interleaving_id': str:'BSQ', str:'number_of_burst_data': int:5, str:'number_of_lines_per_burst': int:1, str:'number_of_overlap_lines_with_adjacent_bursts': int:3}",
    'flat_all_missing': "ok dict{str:'interleaving_id': str:'BSQ'}",
    'order_is_input_order': "ok dict{str:'number_of_overlap_lines_with_adjacent_bursts': int:2, str:'valid_range': list[int:0, int:9], str:'interleaving_id': str:'x', str:'number_of_burst_data': int:0}",
    'range_27': "ok dict{str:'valid_range': list[int:0, int:27]}",
    'range_0': "ok dict{str:'valid_range': list[int:0, int:0]}",
    'range_nan': 'ok dict{}',
    'range_inf': "ok dict{str:'valid_range': list[int:0, float:inf]}",
    'range_float': "ok dict{str:'valid_range': list[int:0, float:3.5]}",
    'range_minus_one_float': 'ok dict{}',
    'range_minus_two': "ok dict{str:'valid_range': list[int:0, int:-2]}",
    'range_bool': "ok dict{str:'valid_range': list[int:0, bool:True]}",
    'range_np_int': 'ok dict{}',
    'range_np_nan': 'ok dict{}',
    'range_np_float': "ok dict{str:'valid_range': list[int:0, float64:np.float64(65535.0)]}",
    'range_decimal': "ok dict{str:'valid_range': list[int:0, Decimal:Decimal('12')]}",
    'range_fraction': 'ok dict{}',
    'range_str': 'raise TypeError: must be real number, not str',
    'range_none': 'raise TypeError: must be real number, not NoneType',
    'range_weird': 'raise TypeError: must be real number, not Weird',
    'range_list': 'raise TypeError: must be real number, not list',
    'range_complex': 'raise TypeError: must be real number, not complex',
    'burst_zero': "ok dict{str:'number_of_burst_data': int:0, str:'number_of_lines_per_burst': int:0}",
    'burst_none': "ok dict{str:'number_of_burst_data': NoneType:None}",
    'burst_str': "ok dict{str:'number_of_lines_per_burst': str:'-1'}",
    'burst_list_nonempty': "ok dict{str:'number_of_burst_data': list[int:1, int:2]}",
    'burst_list_empty': 'ok dict{}',
    'burst_tuple_empty': "ok dict{str:'number_of_burst_data': tuple[]}",
    'burst_nan': "ok dict{str:'number_of_burst_data': float:nan}",
    'interleaving_empty_string': "ok dict{str:'interleaving_id': str:''}",
    'interleaving_empty_list': 'ok dict{}',
    'interleaving_list': "ok dict{str:'interleaving_id': list[str:'BSQ']}",
    'interleaving_none': "ok dict{str:'interleaving_id': NoneType:None}",
    'interleaving_minus_one': "ok dict{str:'interleaving_id': int:-1}",
    'unknown_dropped': "ok dict{str:'interleaving_id': str:'BSQ'}",
    'nested_one_level': "ok dict{str:'interleaving_id': str:'BSQ', str:'valid_range': list[int:0, int:255], str:'number_of_lines_per_burst': int:4}",
    'nested_two_levels_dropped': 'ok dict{}',
    'nested_preamble_kept_out': "ok dict{str:'interleaving_id': str:'q'}",
    'preamble_contents_ignored': "ok dict{str:'number_of_burst_data': int:2}",
    'later_section_wins': "ok dict{str:'interleaving_id': str:'second'}",
    'flat_then_nested_collision': "ok dict{str:'valid_range': list[int:0, int:7]}",
    'translation_target_as_input': "ok dict{str:'valid_range': list[int:0, int:5]}",
    'non_string_keys': "ok dict{str:'interleaving_id': int:5}",
    'section_empty_dict': 'ok dict{}',
    'parsed_blank': "ok dict{str:'interleaving_id': str:'BSQ'}",
    'parsed_level15': "ok dict{str:'interleaving_id': str:'BSQ', str:'valid_range': list[int:0, int:65535]}",
    'parsed_specan': "ok dict{str:'interleaving_id': str:'BIP', str:'number_of_burst_data': int:12, str:'number_of_lines_per_burst': int:300, str:'number_of_overlap_lines_with_adjacent_bursts': int:25}",
    'parsed_zeroes': "ok dict{str:'interleaving_id': str:'', str:'valid_range': list[int:0, int:0], str:'number_of_burst_data': int:0, str:'number_of_lines_per_burst': int:0, str:'number_of_overlap_lines_with_adjacent_bursts': int:0}",
    'parsed_minus_one': "ok dict{str:'interleaving_id': str:'BSQ'}",
    'header_none': "raise AttributeError: 'NoneType' object has no attribute 'items'",
    'header_list': "raise AttributeError: 'list' object has no attribute 'items'",
    'header_str': "raise AttributeError: 'str' object has no attribute 'items'",
    'header_int': "raise AttributeError: 'int' object has no attribute 'items'",
}


def run():
    cases = build_cases()
    results = {}
    for name, header in cases.items():
        snapshot = copy.deepcopy(header)
        results[name] = outcome(metadata.extract_attrs, header)
        # the input is never modified
        assert canon(snapshot) == canon(header), name
    return results


def check_fresh_results():
    header = {"maximum_data_range_of_pixel": 5, "number_of_burst_data": -1}
    first = metadata.extract_attrs(header)
    second = metadata.extract_attrs(header)
    assert type(first) is dict and first == second == {"valid_range": [0, 5]}
    assert first is not second
    assert first["valid_range"] is not second["valid_range"]
    first["valid_range"].append(1)
    assert metadata.extract_attrs(header) == {"valid_range": [0, 5]}

    # same callable, same signature
    import inspect

    assert str(inspect.signature(metadata.extract_attrs)) == "(header)"
    for name in ("extract_format_type", "extract_shape", "extract_attrs", "transform_metadata"):
        assert callable(getattr(metadata, name))


def test_equivalence():
    results = run()
    assert list(results) == list(EXPECTED)
    for name, actual in results.items():
        assert actual == EXPECTED[name], f"{name}: {actual!r} != {EXPECTED[name]!r}"
    check_fresh_results()


if __name__ == "__main__":
    if "--record" in sys.argv:
        print("EXPECTED = {")
        for name, value in run().items():
            print(f"    {name!r}: {value!r},")
        print("}")
    else:
        test_equivalence()
        print(f"ok: {len(EXPECTED)} cases")
