"""Equivalence check for refactoring 5: extract_encoding and to_variable in
ceos_alos2/xarray.py.

Run: PYTHONPATH=/tmp/wt6/e42 python _eq/5/equiv.py   (or with pytest)
The EXPECTED table was recorded from the unchanged code (git HEAD).
"""
import types

import fsspec
import numpy as np
import xarray as xr

from ceos_alos2 import array, xarray
from ceos_alos2.hierarchy import Variable


class Recorder:
    """attribute access is logged: the order of accesses must not change the outcome"""

    def __init__(self, **attributes):
        object.__setattr__(self, "_attributes", attributes)
        object.__setattr__(self, "accessed", [])

    def __getattr__(self, name):
        attributes = object.__getattribute__(self, "_attributes")
        if name not in attributes:
            raise AttributeError(f"no attribute {name}")
        value = attributes[name]
        if isinstance(value, Exception):
            raise value
        return value


def make_array(n_rows=5, n_cols=3, dtype="uint16", records_per_chunk=2, path="/e42/variables"):
    type_code = {"uint16": "IU2", "complex64": "C*8"}[dtype]
    itemsize = np.dtype(dtype).itemsize
    rng = np.random.default_rng(n_rows + 17 * n_cols)
    values = rng.integers(0, 200, (n_rows, n_cols)).astype({"uint16": ">u2", "complex64": ">c8"}[dtype])
    content = b"\x01" * 6
    byte_ranges = []
    for row in values:
        content += b"\x02" * 3
        byte_ranges.append((len(content), len(content) + n_cols * itemsize))
        content += row.tobytes()
    memfs = fsspec.filesystem("memory")
    memfs.pipe_file(f"{path}/IMG-{dtype}-{n_rows}-{n_cols}", content)
    fs = fsspec.filesystem("dir", path=path, fs=memfs)
    return array.Array(
        fs=fs,
        url=f"IMG-{dtype}-{n_rows}-{n_cols}",
        byte_ranges=byte_ranges,
        shape=(n_rows, n_cols),
        dtype=dtype,
        type_code=type_code,
        records_per_chunk=records_per_chunk,
    )


def describe_variable(var, source):
    data = var._data
    layers = []
    current = data
    while True:
        layers.append(type(current).__name__)
        if isinstance(current, (np.ndarray, array.Array)) or not hasattr(current, "array"):
            break
        current = current.array
    info = {
        "type": type(var).__name__,
        "dims": var.dims,
        "attrs": dict(var.attrs),
        "attrs-copied": var.attrs is not source.attrs,
        "encoding": dict(var.encoding),
        "layers": layers,
        "innermost-is-source": current is source.data,
        "shape": var.shape,
        "dtype": str(var.dtype),
    }
    if isinstance(data, xr.core.indexing.LazilyIndexedArray):
        wrapper = data.array
        info["lock"] = type(wrapper.lock).__name__
        info["wrapper-shape"] = wrapper.shape
        info["wrapper-dtype"] = str(wrapper.dtype)
        info["key"] = repr(data.key)
    try:
        info["first"] = np.asarray(var[0].values)
        info["values"] = np.asarray(var.values)
        info["sub"] = np.asarray(var[1:, ::2].values) if var.ndim == 2 else None
    except Exception as e:  # noqa: BLE001
        info["values"] = e
    return info


def convert(source):
    return describe_variable(xarray.to_variable(source), source)


def two_locks():
    arr = make_array()
    a = xarray.to_variable(Variable(["y", "x"], arr, {}))
    b = xarray.to_variable(Variable(["y", "x"], arr, {}))
    return [a._data.array.lock is not b._data.array.lock, a._data.array.array is b._data.array.array]


def cases():
    out = []

    def add(name, func, *args, **kwargs):
        out.append((name, lambda: func(*args, **kwargs)))

    ns = types.SimpleNamespace

    # extract_encoding on stand-ins
    chunk_values = [None, -1, 0, 1, 3, 100, -2, -1.0, 2.5, True, np.int64(-1), np.int64(4), "auto",
                    (1, 2)]
    sizes = {"x": 10, "y": 20}
    for a in chunk_values:
        add(f"enc-1d-{a!r}", xarray.extract_encoding, ns(chunks={"x": a}, sizes=sizes))
        for b in chunk_values:
            add(
                f"enc-2d-{a!r}-{b!r}",
                xarray.extract_encoding,
                ns(chunks={"y": a, "x": b}, sizes=sizes),
            )
    add("enc-empty", xarray.extract_encoding, ns(chunks={}, sizes={}))
    add("enc-empty-no-sizes", xarray.extract_encoding, ns(chunks={}))
    add("enc-all-none-no-sizes", xarray.extract_encoding, ns(chunks={"x": None, "y": None}))
    add("enc-given-no-sizes", xarray.extract_encoding, ns(chunks={"x": 2, "y": 3}))
    add("enc-default-no-sizes", xarray.extract_encoding, ns(chunks={"x": 2, "y": -1}))
    add("enc-none-then-no-sizes", xarray.extract_encoding, ns(chunks={"x": None, "y": 4}))
    add("enc-missing-size", xarray.extract_encoding, ns(chunks={"x": 2, "z": -1}, sizes=sizes))
    add("enc-missing-size-first", xarray.extract_encoding,
        ns(chunks={"z": None, "x": 2}, sizes=sizes))
    add("enc-no-chunks", xarray.extract_encoding, ns(sizes=sizes))
    add("enc-chunks-none", xarray.extract_encoding, ns(chunks=None, sizes=sizes))
    add("enc-chunks-list", xarray.extract_encoding, ns(chunks=[1, 2], sizes=sizes))
    add("enc-array-chunk", xarray.extract_encoding,
        ns(chunks={"x": np.array([1, 2])}, sizes=sizes))
    add("enc-sizes-raises", xarray.extract_encoding,
        Recorder(chunks={"x": 3, "y": -1}, sizes=RuntimeError("sizes")))
    add("enc-sizes-raises-unused", xarray.extract_encoding,
        Recorder(chunks={"x": 3, "y": 4}, sizes=RuntimeError("sizes")))
    add("enc-order", lambda: list(xarray.extract_encoding(
        ns(chunks={"b": 1, "a": -1, "c": None}, sizes={"a": 5, "b": 6, "c": 7}))["preferred_chunksizes"]))
    add("enc-kw", lambda: xarray.extract_encoding(var=ns(chunks={"x": -1}, sizes=sizes)))

    def fresh():
        var = ns(chunks={"x": 2}, sizes=sizes)
        result = xarray.extract_encoding(var)
        return [result["preferred_chunksizes"] is not var.chunks, var.chunks]

    add("enc-fresh", fresh)

    # extract_encoding / to_variable on hierarchy variables
    for dtype in ["uint16", "complex64"]:
        for rpc in [None, -1, 1, 2, 5, 9, "auto", "7B"]:
            for n_rows, n_cols in [(5, 3), (1, 4), (4, 1)]:
                def build(dtype=dtype, rpc=rpc, n_rows=n_rows, n_cols=n_cols):
                    arr = make_array(n_rows, n_cols, dtype, rpc)
                    return Variable(["rows", "cols"], arr, {"units": "1", "n": n_rows})

                name = f"{dtype}-{rpc!r}-{n_rows}x{n_cols}"
                add(f"enc-array-{name}", lambda build=build: xarray.extract_encoding(build()))
                add(f"var-array-{name}", lambda build=build: convert(build()))

    sources = {
        "np-1d": Variable("x", np.array([1, 2, 3], dtype="int8"), {"a": 1}),
        "np-2d": Variable(["x", "y"], np.arange(12).reshape(3, 4), {"b": "abc"}),
        "np-0d": Variable([], np.array(4.5), {}),
        "np-0d-tuple": Variable((), np.array(4.5), {}),
        "np-str": Variable("t", np.array(["a", "bc"]), {"long_name": "text"}),
        "np-datetime": Variable("t", np.array(["2020-01-01", "2021-06-01"], dtype="datetime64[ns]"), {}),
        "np-object": Variable("t", np.array([None, "a"], dtype=object), {}),
        "np-empty": Variable("x", np.array([], dtype="float32"), {}),
        "list-data": Variable("x", [1, 2, 3], {}),
        "scalar-data": Variable([], 3, {}),
        "tuple-dims": Variable(("x", "y"), np.zeros((2, 2)), {}),
        "attrs-nested": Variable("x", np.arange(2), {"a": {"b": [1, 2]}, "c": None}),
        "attrs-none": Variable("x", np.arange(2), None),
        "dims-mismatch": Variable(["x", "y"], np.arange(3), {}),
        "dims-dup": Variable(["x", "x"], np.zeros((2, 2)), {}),
        "array-1dim-name": Variable("rows", make_array(), {}),
        "array-3dims": Variable(["a", "b", "c"], make_array(), {}),
    }
    for name, source in sources.items():
        add(f"enc-{name}", xarray.extract_encoding, source)
        add(f"var-{name}", convert, source)

    # stand-ins: which attribute problem is reported must not change
    arr = np.arange(6).reshape(2, 3)
    good = dict(dims=["x", "y"], data=arr, attrs={"k": "v"}, chunks={}, sizes={"x": 2, "y": 3})
    for missing in ["dims", "data", "attrs", "chunks", "sizes"]:
        reduced = {k: v for k, v in good.items() if k != missing}
        add(f"standin-missing-{missing}", lambda reduced=reduced: convert(Recorder(**reduced)))
        failing = dict(good, **{missing: RuntimeError(f"{missing} failed")})
        add(f"standin-raising-{missing}", lambda failing=failing: convert(Recorder(**failing)))
        for other in ["dims", "data", "attrs", "chunks"]:
            if other == missing:
                continue
            both = {k: v for k, v in failing.items() if k != other}
            add(
                f"standin-raising-{missing}-missing-{other}",
                lambda both=both: convert(Recorder(**both)),
            )
    add("standin-good", lambda: convert(Recorder(**good)))
    add("standin-chunked", lambda: convert(Recorder(**dict(good, chunks={"x": 1, "y": -1}))))
    add("standin-array", lambda: convert(Recorder(**dict(
        good, data=make_array(2, 3), chunks={"x": None, "y": 2}))))
    add("standin-bad-encoding-and-dims", lambda: convert(Recorder(**dict(
        good, dims=["x"], chunks={"x": -1}, sizes={}))))

    add("two-locks", two_locks)
    add("to-variable-kw", lambda: describe_variable(
        xarray.to_variable(var=sources["np-2d"]), sources["np-2d"]))

    return out


# recorded from the unchanged code
EXPECTED = {'enc-1d-None': 'dict{}',
 'enc-2d-None-None': 'dict{}',
 'enc-2d-None--1': "dict{builtins.str:'preferred_chunksizes': dict{builtins.str:'y': "
                   "builtins.int:20, builtins.str:'x': builtins.int:10}}",
 'enc-2d-None-0': "dict{builtins.str:'preferred_chunksizes': dict{builtins.str:'y': "
                  "builtins.int:20, builtins.str:'x': builtins.int:0}}",
 'enc-2d-None-1': "dict{builtins.str:'preferred_chunksizes': dict{builtins.str:'y': "
                  "builtins.int:20, builtins.str:'x': builtins.int:1}}",
 'enc-2d-None-3': "dict{builtins.str:'preferred_chunksizes': dict{builtins.str:'y': "
                  "builtins.int:20, builtins.str:'x': builtins.int:3}}",
 'enc-2d-None-100': "dict{builtins.str:'preferred_chunksizes': dict{builtins.str:'y': "
                    "builtins.int:20, builtins.str:'x': builtins.int:100}}",
 'enc-2d-None--2': "dict{builtins.str:'preferred_chunksizes': dict{builtins.str:'y': "
                   "builtins.int:20, builtins.str:'x': builtins.int:-2}}",
 'enc-2d-None--1.0': "dict{builtins.str:'preferred_chunksizes': dict{builtins.str:'y': "
                     "builtins.int:20, builtins.str:'x': builtins.int:10}}",
 'enc-2d-None-2.5': "dict{builtins.str:'preferred_chunksizes': dict{builtins.str:'y': "
                    "builtins.int:20, builtins.str:'x': builtins.float:2.5}}",
 'enc-2d-None-True': "dict{builtins.str:'preferred_chunksizes': dict{builtins.str:'y': "
                     "builtins.int:20, builtins.str:'x': builtins.bool:True}}",
 'enc-2d-None-np.int64(-1)': "dict{builtins.str:'preferred_chunksizes': dict{builtins.str:'y': "
                             "builtins.int:20, builtins.str:'x': builtins.int:10}}",
 'enc-2d-None-np.int64(4)': "dict{builtins.str:'preferred_chunksizes': dict{builtins.str:'y': "
                            "builtins.int:20, builtins.str:'x': numpy.int64(np.int64(4))}}",
 "enc-2d-None-'auto'": "dict{builtins.str:'preferred_chunksizes': dict{builtins.str:'y': "
                       "builtins.int:20, builtins.str:'x': builtins.str:'auto'}}",
 'enc-2d-None-(1, 2)': "dict{builtins.str:'preferred_chunksizes': dict{builtins.str:'y': "
                       "builtins.int:20, builtins.str:'x': tuple(builtins.int:1, builtins.int:2)}}",
 'enc-1d--1': "dict{builtins.str:'preferred_chunksizes': dict{builtins.str:'x': builtins.int:10}}",
 'enc-2d--1-None': "dict{builtins.str:'preferred_chunksizes': dict{builtins.str:'y': "
                   "builtins.int:20, builtins.str:'x': builtins.int:10}}",
 'enc-2d--1--1': "dict{builtins.str:'preferred_chunksizes': dict{builtins.str:'y': "
                 "builtins.int:20, builtins.str:'x': builtins.int:10}}",
 'enc-2d--1-0': "dict{builtins.str:'preferred_chunksizes': dict{builtins.str:'y': builtins.int:20, "
                "builtins.str:'x': builtins.int:0}}",
 'enc-2d--1-1': "dict{builtins.str:'preferred_chunksizes': dict{builtins.str:'y': builtins.int:20, "
                "builtins.str:'x': builtins.int:1}}",
 'enc-2d--1-3': "dict{builtins.str:'preferred_chunksizes': dict{builtins.str:'y': builtins.int:20, "
                "builtins.str:'x': builtins.int:3}}",
 'enc-2d--1-100': "dict{builtins.str:'preferred_chunksizes': dict{builtins.str:'y': "
                  "builtins.int:20, builtins.str:'x': builtins.int:100}}",
 'enc-2d--1--2': "dict{builtins.str:'preferred_chunksizes': dict{builtins.str:'y': "
                 "builtins.int:20, builtins.str:'x': builtins.int:-2}}",
 'enc-2d--1--1.0': "dict{builtins.str:'preferred_chunksizes': dict{builtins.str:'y': "
                   "builtins.int:20, builtins.str:'x': builtins.int:10}}",
 'enc-2d--1-2.5': "dict{builtins.str:'preferred_chunksizes': dict{builtins.str:'y': "
                  "builtins.int:20, builtins.str:'x': builtins.float:2.5}}",
 'enc-2d--1-True': "dict{builtins.str:'preferred_chunksizes': dict{builtins.str:'y': "
                   "builtins.int:20, builtins.str:'x': builtins.bool:True}}",
 'enc-2d--1-np.int64(-1)': "dict{builtins.str:'preferred_chunksizes': dict{builtins.str:'y': "
                           "builtins.int:20, builtins.str:'x': builtins.int:10}}",
 'enc-2d--1-np.int64(4)': "dict{builtins.str:'preferred_chunksizes': dict{builtins.str:'y': "
                          "builtins.int:20, builtins.str:'x': numpy.int64(np.int64(4))}}",
 "enc-2d--1-'auto'": "dict{builtins.str:'preferred_chunksizes': dict{builtins.str:'y': "
                     "builtins.int:20, builtins.str:'x': builtins.str:'auto'}}",
 'enc-2d--1-(1, 2)': "dict{builtins.str:'preferred_chunksizes': dict{builtins.str:'y': "
                     "builtins.int:20, builtins.str:'x': tuple(builtins.int:1, builtins.int:2)}}",
 'enc-1d-0': "dict{builtins.str:'preferred_chunksizes': dict{builtins.str:'x': builtins.int:0}}",
 'enc-2d-0-None': "dict{builtins.str:'preferred_chunksizes': dict{builtins.str:'y': "
                  "builtins.int:0, builtins.str:'x': builtins.int:10}}",
 'enc-2d-0--1': "dict{builtins.str:'preferred_chunksizes': dict{builtins.str:'y': builtins.int:0, "
                "builtins.str:'x': builtins.int:10}}",
 'enc-2d-0-0': "dict{builtins.str:'preferred_chunksizes': dict{builtins.str:'y': builtins.int:0, "
               "builtins.str:'x': builtins.int:0}}",
 'enc-2d-0-1': "dict{builtins.str:'preferred_chunksizes': dict{builtins.str:'y': builtins.int:0, "
               "builtins.str:'x': builtins.int:1}}",
 'enc-2d-0-3': "dict{builtins.str:'preferred_chunksizes': dict{builtins.str:'y': builtins.int:0, "
               "builtins.str:'x': builtins.int:3}}",
 'enc-2d-0-100': "dict{builtins.str:'preferred_chunksizes': dict{builtins.str:'y': builtins.int:0, "
                 "builtins.str:'x': builtins.int:100}}",
 'enc-2d-0--2': "dict{builtins.str:'preferred_chunksizes': dict{builtins.str:'y': builtins.int:0, "
                "builtins.str:'x': builtins.int:-2}}",
 'enc-2d-0--1.0': "dict{builtins.str:'preferred_chunksizes': dict{builtins.str:'y': "
                  "builtins.int:0, builtins.str:'x': builtins.int:10}}",
 'enc-2d-0-2.5': "dict{builtins.str:'preferred_chunksizes': dict{builtins.str:'y': builtins.int:0, "
                 "builtins.str:'x': builtins.float:2.5}}",
 'enc-2d-0-True': "dict{builtins.str:'preferred_chunksizes': dict{builtins.str:'y': "
                  "builtins.int:0, builtins.str:'x': builtins.bool:True}}",
 'enc-2d-0-np.int64(-1)': "dict{builtins.str:'preferred_chunksizes': dict{builtins.str:'y': "
                          "builtins.int:0, builtins.str:'x': builtins.int:10}}",
 'enc-2d-0-np.int64(4)': "dict{builtins.str:'preferred_chunksizes': dict{builtins.str:'y': "
                         "builtins.int:0, builtins.str:'x': numpy.int64(np.int64(4))}}",
 "enc-2d-0-'auto'": "dict{builtins.str:'preferred_chunksizes': dict{builtins.str:'y': "
                    "builtins.int:0, builtins.str:'x': builtins.str:'auto'}}",
 'enc-2d-0-(1, 2)': "dict{builtins.str:'preferred_chunksizes': dict{builtins.str:'y': "
                    "builtins.int:0, builtins.str:'x': tuple(builtins.int:1, builtins.int:2)}}",
 'enc-1d-1': "dict{builtins.str:'preferred_chunksizes': dict{builtins.str:'x': builtins.int:1}}",
 'enc-2d-1-None': "dict{builtins.str:'preferred_chunksizes': dict{builtins.str:'y': "
                  "builtins.int:1, builtins.str:'x': builtins.int:10}}",
 'enc-2d-1--1': "dict{builtins.str:'preferred_chunksizes': dict{builtins.str:'y': builtins.int:1, "
                "builtins.str:'x': builtins.int:10}}",
 'enc-2d-1-0': "dict{builtins.str:'preferred_chunksizes': dict{builtins.str:'y': builtins.int:1, "
               "builtins.str:'x': builtins.int:0}}",
 'enc-2d-1-1': "dict{builtins.str:'preferred_chunksizes': dict{builtins.str:'y': builtins.int:1, "
               "builtins.str:'x': builtins.int:1}}",
 'enc-2d-1-3': "dict{builtins.str:'preferred_chunksizes': dict{builtins.str:'y': builtins.int:1, "
               "builtins.str:'x': builtins.int:3}}",
 'enc-2d-1-100': "dict{builtins.str:'preferred_chunksizes': dict{builtins.str:'y': builtins.int:1, "
                 "builtins.str:'x': builtins.int:100}}",
 'enc-2d-1--2': "dict{builtins.str:'preferred_chunksizes': dict{builtins.str:'y': builtins.int:1, "
                "builtins.str:'x': builtins.int:-2}}",
 'enc-2d-1--1.0': "dict{builtins.str:'preferred_chunksizes': dict{builtins.str:'y': "
                  "builtins.int:1, builtins.str:'x': builtins.int:10}}",
 'enc-2d-1-2.5': "dict{builtins.str:'preferred_chunksizes': dict{builtins.str:'y': builtins.int:1, "
                 "builtins.str:'x': builtins.float:2.5}}",
 'enc-2d-1-True': "dict{builtins.str:'preferred_chunksizes': dict{builtins.str:'y': "
                  "builtins.int:1, builtins.str:'x': builtins.bool:True}}",
 'enc-2d-1-np.int64(-1)': "dict{builtins.str:'preferred_chunksizes': dict{builtins.str:'y': "
                          "builtins.int:1, builtins.str:'x': builtins.int:10}}",
 'enc-2d-1-np.int64(4)': "dict{builtins.str:'preferred_chunksizes': dict{builtins.str:'y': "
                         "builtins.int:1, builtins.str:'x': numpy.int64(np.int64(4))}}",
 "enc-2d-1-'auto'": "dict{builtins.str:'preferred_chunksizes': dict{builtins.str:'y': "
                    "builtins.int:1, builtins.str:'x': builtins.str:'auto'}}",
 'enc-2d-1-(1, 2)': "dict{builtins.str:'preferred_chunksizes': dict{builtins.str:'y': "
                    "builtins.int:1, builtins.str:'x': tuple(builtins.int:1, builtins.int:2)}}",
 'enc-1d-3': "dict{builtins.str:'preferred_chunksizes': dict{builtins.str:'x': builtins.int:3}}",
 'enc-2d-3-None': "dict{builtins.str:'preferred_chunksizes': dict{builtins.str:'y': "
                  "builtins.int:3, builtins.str:'x': builtins.int:10}}",
 'enc-2d-3--1': "dict{builtins.str:'preferred_chunksizes': dict{builtins.str:'y': builtins.int:3, "
                "builtins.str:'x': builtins.int:10}}",
 'enc-2d-3-0': "dict{builtins.str:'preferred_chunksizes': dict{builtins.str:'y': builtins.int:3, "
               "builtins.str:'x': builtins.int:0}}",
 'enc-2d-3-1': "dict{builtins.str:'preferred_chunksizes': dict{builtins.str:'y': builtins.int:3, "
               "builtins.str:'x': builtins.int:1}}",
 'enc-2d-3-3': "dict{builtins.str:'preferred_chunksizes': dict{builtins.str:'y': builtins.int:3, "
               "builtins.str:'x': builtins.int:3}}",
 'enc-2d-3-100': "dict{builtins.str:'preferred_chunksizes': dict{builtins.str:'y': builtins.int:3, "
                 "builtins.str:'x': builtins.int:100}}",
 'enc-2d-3--2': "dict{builtins.str:'preferred_chunksizes': dict{builtins.str:'y': builtins.int:3, "
                "builtins.str:'x': builtins.int:-2}}",
 'enc-2d-3--1.0': "dict{builtins.str:'preferred_chunksizes': dict{builtins.str:'y': "
                  "builtins.int:3, builtins.str:'x': builtins.int:10}}",
 'enc-2d-3-2.5': "dict{builtins.str:'preferred_chunksizes': dict{builtins.str:'y': builtins.int:3, "
                 "builtins.str:'x': builtins.float:2.5}}",
 'enc-2d-3-True': "dict{builtins.str:'preferred_chunksizes': dict{builtins.str:'y': "
                  "builtins.int:3, builtins.str:'x': builtins.bool:True}}",
 'enc-2d-3-np.int64(-1)': "dict{builtins.str:'preferred_chunksizes': dict{builtins.str:'y': "
                          "builtins.int:3, builtins.str:'x': builtins.int:10}}",
 'enc-2d-3-np.int64(4)': "dict{builtins.str:'preferred_chunksizes': dict{builtins.str:'y': "
                         "builtins.int:3, builtins.str:'x': numpy.int64(np.int64(4))}}",
 "enc-2d-3-'auto'": "dict{builtins.str:'preferred_chunksizes': dict{builtins.str:'y': "
                    "builtins.int:3, builtins.str:'x': builtins.str:'auto'}}",
 'enc-2d-3-(1, 2)': "dict{builtins.str:'preferred_chunksizes': dict{builtins.str:'y': "
                    "builtins.int:3, builtins.str:'x': tuple(builtins.int:1, builtins.int:2)}}",
 'enc-1d-100': "dict{builtins.str:'preferred_chunksizes': dict{builtins.str:'x': "
               'builtins.int:100}}',
 'enc-2d-100-None': "dict{builtins.str:'preferred_chunksizes': dict{builtins.str:'y': "
                    "builtins.int:100, builtins.str:'x': builtins.int:10}}",
 'enc-2d-100--1': "dict{builtins.str:'preferred_chunksizes': dict{builtins.str:'y': "
                  "builtins.int:100, builtins.str:'x': builtins.int:10}}",
 'enc-2d-100-0': "dict{builtins.str:'preferred_chunksizes': dict{builtins.str:'y': "
                 "builtins.int:100, builtins.str:'x': builtins.int:0}}",
 'enc-2d-100-1': "dict{builtins.str:'preferred_chunksizes': dict{builtins.str:'y': "
                 "builtins.int:100, builtins.str:'x': builtins.int:1}}",
 'enc-2d-100-3': "dict{builtins.str:'preferred_chunksizes': dict{builtins.str:'y': "
                 "builtins.int:100, builtins.str:'x': builtins.int:3}}",
 'enc-2d-100-100': "dict{builtins.str:'preferred_chunksizes': dict{builtins.str:'y': "
                   "builtins.int:100, builtins.str:'x': builtins.int:100}}",
 'enc-2d-100--2': "dict{builtins.str:'preferred_chunksizes': dict{builtins.str:'y': "
                  "builtins.int:100, builtins.str:'x': builtins.int:-2}}",
 'enc-2d-100--1.0': "dict{builtins.str:'preferred_chunksizes': dict{builtins.str:'y': "
                    "builtins.int:100, builtins.str:'x': builtins.int:10}}",
 'enc-2d-100-2.5': "dict{builtins.str:'preferred_chunksizes': dict{builtins.str:'y': "
                   "builtins.int:100, builtins.str:'x': builtins.float:2.5}}",
 'enc-2d-100-True': "dict{builtins.str:'preferred_chunksizes': dict{builtins.str:'y': "
                    "builtins.int:100, builtins.str:'x': builtins.bool:True}}",
 'enc-2d-100-np.int64(-1)': "dict{builtins.str:'preferred_chunksizes': dict{builtins.str:'y': "
                            "builtins.int:100, builtins.str:'x': builtins.int:10}}",
 'enc-2d-100-np.int64(4)': "dict{builtins.str:'preferred_chunksizes': dict{builtins.str:'y': "
                           "builtins.int:100, builtins.str:'x': numpy.int64(np.int64(4))}}",
 "enc-2d-100-'auto'": "dict{builtins.str:'preferred_chunksizes': dict{builtins.str:'y': "
                      "builtins.int:100, builtins.str:'x': builtins.str:'auto'}}",
 'enc-2d-100-(1, 2)': "dict{builtins.str:'preferred_chunksizes': dict{builtins.str:'y': "
                      "builtins.int:100, builtins.str:'x': tuple(builtins.int:1, builtins.int:2)}}",
 'enc-1d--2': "dict{builtins.str:'preferred_chunksizes': dict{builtins.str:'x': builtins.int:-2}}",
 'enc-2d--2-None': "dict{builtins.str:'preferred_chunksizes': dict{builtins.str:'y': "
                   "builtins.int:-2, builtins.str:'x': builtins.int:10}}",
 'enc-2d--2--1': "dict{builtins.str:'preferred_chunksizes': dict{builtins.str:'y': "
                 "builtins.int:-2, builtins.str:'x': builtins.int:10}}",
 'enc-2d--2-0': "dict{builtins.str:'preferred_chunksizes': dict{builtins.str:'y': builtins.int:-2, "
                "builtins.str:'x': builtins.int:0}}",
 'enc-2d--2-1': "dict{builtins.str:'preferred_chunksizes': dict{builtins.str:'y': builtins.int:-2, "
                "builtins.str:'x': builtins.int:1}}",
 'enc-2d--2-3': "dict{builtins.str:'preferred_chunksizes': dict{builtins.str:'y': builtins.int:-2, "
                "builtins.str:'x': builtins.int:3}}",
 'enc-2d--2-100': "dict{builtins.str:'preferred_chunksizes': dict{builtins.str:'y': "
                  "builtins.int:-2, builtins.str:'x': builtins.int:100}}",
 'enc-2d--2--2': "dict{builtins.str:'preferred_chunksizes': dict{builtins.str:'y': "
                 "builtins.int:-2, builtins.str:'x': builtins.int:-2}}",
 'enc-2d--2--1.0': "dict{builtins.str:'preferred_chunksizes': dict{builtins.str:'y': "
                   "builtins.int:-2, builtins.str:'x': builtins.int:10}}",
 'enc-2d--2-2.5': "dict{builtins.str:'preferred_chunksizes': dict{builtins.str:'y': "
                  "builtins.int:-2, builtins.str:'x': builtins.float:2.5}}",
 'enc-2d--2-True': "dict{builtins.str:'preferred_chunksizes': dict{builtins.str:'y': "
                   "builtins.int:-2, builtins.str:'x': builtins.bool:True}}",
 'enc-2d--2-np.int64(-1)': "dict{builtins.str:'preferred_chunksizes': dict{builtins.str:'y': "
                           "builtins.int:-2, builtins.str:'x': builtins.int:10}}",
 'enc-2d--2-np.int64(4)': "dict{builtins.str:'preferred_chunksizes': dict{builtins.str:'y': "
                          "builtins.int:-2, builtins.str:'x': numpy.int64(np.int64(4))}}",
 "enc-2d--2-'auto'": "dict{builtins.str:'preferred_chunksizes': dict{builtins.str:'y': "
                     "builtins.int:-2, builtins.str:'x': builtins.str:'auto'}}",
 'enc-2d--2-(1, 2)': "dict{builtins.str:'preferred_chunksizes': dict{builtins.str:'y': "
                     "builtins.int:-2, builtins.str:'x': tuple(builtins.int:1, builtins.int:2)}}",
 'enc-1d--1.0': "dict{builtins.str:'preferred_chunksizes': dict{builtins.str:'x': "
                'builtins.int:10}}',
 'enc-2d--1.0-None': "dict{builtins.str:'preferred_chunksizes': dict{builtins.str:'y': "
                     "builtins.int:20, builtins.str:'x': builtins.int:10}}",
 'enc-2d--1.0--1': "dict{builtins.str:'preferred_chunksizes': dict{builtins.str:'y': "
                   "builtins.int:20, builtins.str:'x': builtins.int:10}}",
 'enc-2d--1.0-0': "dict{builtins.str:'preferred_chunksizes': dict{builtins.str:'y': "
                  "builtins.int:20, builtins.str:'x': builtins.int:0}}",
 'enc-2d--1.0-1': "dict{builtins.str:'preferred_chunksizes': dict{builtins.str:'y': "
                  "builtins.int:20, builtins.str:'x': builtins.int:1}}",
 'enc-2d--1.0-3': "dict{builtins.str:'preferred_chunksizes': dict{builtins.str:'y': "
                  "builtins.int:20, builtins.str:'x': builtins.int:3}}",
 'enc-2d--1.0-100': "dict{builtins.str:'preferred_chunksizes': dict{builtins.str:'y': "
                    "builtins.int:20, builtins.str:'x': builtins.int:100}}",
 'enc-2d--1.0--2': "dict{builtins.str:'preferred_chunksizes': dict{builtins.str:'y': "
                   "builtins.int:20, builtins.str:'x': builtins.int:-2}}",
 'enc-2d--1.0--1.0': "dict{builtins.str:'preferred_chunksizes': dict{builtins.str:'y': "
                     "builtins.int:20, builtins.str:'x': builtins.int:10}}",
 'enc-2d--1.0-2.5': "dict{builtins.str:'preferred_chunksizes': dict{builtins.str:'y': "
                    "builtins.int:20, builtins.str:'x': builtins.float:2.5}}",
 'enc-2d--1.0-True': "dict{builtins.str:'preferred_chunksizes': dict{builtins.str:'y': "
                     "builtins.int:20, builtins.str:'x': builtins.bool:True}}",
 'enc-2d--1.0-np.int64(-1)': "dict{builtins.str:'preferred_chunksizes': dict{builtins.str:'y': "
                             "builtins.int:20, builtins.str:'x': builtins.int:10}}",
 'enc-2d--1.0-np.int64(4)': "dict{builtins.str:'preferred_chunksizes': dict{builtins.str:'y': "
                            "builtins.int:20, builtins.str:'x': numpy.int64(np.int64(4))}}",
 "enc-2d--1.0-'auto'": "dict{builtins.str:'preferred_chunksizes': dict{builtins.str:'y': "
                       "builtins.int:20, builtins.str:'x': builtins.str:'auto'}}",
 'enc-2d--1.0-(1, 2)': "dict{builtins.str:'preferred_chunksizes': dict{builtins.str:'y': "
                       "builtins.int:20, builtins.str:'x': tuple(builtins.int:1, builtins.int:2)}}",
 'enc-1d-2.5': "dict{builtins.str:'preferred_chunksizes': dict{builtins.str:'x': "
               'builtins.float:2.5}}',
 'enc-2d-2.5-None': "dict{builtins.str:'preferred_chunksizes': dict{builtins.str:'y': "
                    "builtins.float:2.5, builtins.str:'x': builtins.int:10}}",
 'enc-2d-2.5--1': "dict{builtins.str:'preferred_chunksizes': dict{builtins.str:'y': "
                  "builtins.float:2.5, builtins.str:'x': builtins.int:10}}",
 'enc-2d-2.5-0': "dict{builtins.str:'preferred_chunksizes': dict{builtins.str:'y': "
                 "builtins.float:2.5, builtins.str:'x': builtins.int:0}}",
 'enc-2d-2.5-1': "dict{builtins.str:'preferred_chunksizes': dict{builtins.str:'y': "
                 "builtins.float:2.5, builtins.str:'x': builtins.int:1}}",
 'enc-2d-2.5-3': "dict{builtins.str:'preferred_chunksizes': dict{builtins.str:'y': "
                 "builtins.float:2.5, builtins.str:'x': builtins.int:3}}",
 'enc-2d-2.5-100': "dict{builtins.str:'preferred_chunksizes': dict{builtins.str:'y': "
                   "builtins.float:2.5, builtins.str:'x': builtins.int:100}}",
 'enc-2d-2.5--2': "dict{builtins.str:'preferred_chunksizes': dict{builtins.str:'y': "
                  "builtins.float:2.5, builtins.str:'x': builtins.int:-2}}",
 'enc-2d-2.5--1.0': "dict{builtins.str:'preferred_chunksizes': dict{builtins.str:'y': "
                    "builtins.float:2.5, builtins.str:'x': builtins.int:10}}",
 'enc-2d-2.5-2.5': "dict{builtins.str:'preferred_chunksizes': dict{builtins.str:'y': "
                   "builtins.float:2.5, builtins.str:'x': builtins.float:2.5}}",
 'enc-2d-2.5-True': "dict{builtins.str:'preferred_chunksizes': dict{builtins.str:'y': "
                    "builtins.float:2.5, builtins.str:'x': builtins.bool:True}}",
 'enc-2d-2.5-np.int64(-1)': "dict{builtins.str:'preferred_chunksizes': dict{builtins.str:'y': "
                            "builtins.float:2.5, builtins.str:'x': builtins.int:10}}",
 'enc-2d-2.5-np.int64(4)': "dict{builtins.str:'preferred_chunksizes': dict{builtins.str:'y': "
                           "builtins.float:2.5, builtins.str:'x': numpy.int64(np.int64(4))}}",
 "enc-2d-2.5-'auto'": "dict{builtins.str:'preferred_chunksizes': dict{builtins.str:'y': "
                      "builtins.float:2.5, builtins.str:'x': builtins.str:'auto'}}",
 'enc-2d-2.5-(1, 2)': "dict{builtins.str:'preferred_chunksizes': dict{builtins.str:'y': "
                      "builtins.float:2.5, builtins.str:'x': tuple(builtins.int:1, "
                      'builtins.int:2)}}',
 'enc-1d-True': "dict{builtins.str:'preferred_chunksizes': dict{builtins.str:'x': "
                'builtins.bool:True}}',
 'enc-2d-True-None': "dict{builtins.str:'preferred_chunksizes': dict{builtins.str:'y': "
                     "builtins.bool:True, builtins.str:'x': builtins.int:10}}",
 'enc-2d-True--1': "dict{builtins.str:'preferred_chunksizes': dict{builtins.str:'y': "
                   "builtins.bool:True, builtins.str:'x': builtins.int:10}}",
 'enc-2d-True-0': "dict{builtins.str:'preferred_chunksizes': dict{builtins.str:'y': "
                  "builtins.bool:True, builtins.str:'x': builtins.int:0}}",
 'enc-2d-True-1': "dict{builtins.str:'preferred_chunksizes': dict{builtins.str:'y': "
                  "builtins.bool:True, builtins.str:'x': builtins.int:1}}",
 'enc-2d-True-3': "dict{builtins.str:'preferred_chunksizes': dict{builtins.str:'y': "
                  "builtins.bool:True, builtins.str:'x': builtins.int:3}}",
 'enc-2d-True-100': "dict{builtins.str:'preferred_chunksizes': dict{builtins.str:'y': "
                    "builtins.bool:True, builtins.str:'x': builtins.int:100}}",
 'enc-2d-True--2': "dict{builtins.str:'preferred_chunksizes': dict{builtins.str:'y': "
                   "builtins.bool:True, builtins.str:'x': builtins.int:-2}}",
 'enc-2d-True--1.0': "dict{builtins.str:'preferred_chunksizes': dict{builtins.str:'y': "
                     "builtins.bool:True, builtins.str:'x': builtins.int:10}}",
 'enc-2d-True-2.5': "dict{builtins.str:'preferred_chunksizes': dict{builtins.str:'y': "
                    "builtins.bool:True, builtins.str:'x': builtins.float:2.5}}",
 'enc-2d-True-True': "dict{builtins.str:'preferred_chunksizes': dict{builtins.str:'y': "
                     "builtins.bool:True, builtins.str:'x': builtins.bool:True}}",
 'enc-2d-True-np.int64(-1)': "dict{builtins.str:'preferred_chunksizes': dict{builtins.str:'y': "
                             "builtins.bool:True, builtins.str:'x': builtins.int:10}}",
 'enc-2d-True-np.int64(4)': "dict{builtins.str:'preferred_chunksizes': dict{builtins.str:'y': "
                            "builtins.bool:True, builtins.str:'x': numpy.int64(np.int64(4))}}",
 "enc-2d-True-'auto'": "dict{builtins.str:'preferred_chunksizes': dict{builtins.str:'y': "
                       "builtins.bool:True, builtins.str:'x': builtins.str:'auto'}}",
 'enc-2d-True-(1, 2)': "dict{builtins.str:'preferred_chunksizes': dict{builtins.str:'y': "
                       "builtins.bool:True, builtins.str:'x': tuple(builtins.int:1, "
                       'builtins.int:2)}}',
 'enc-1d-np.int64(-1)': "dict{builtins.str:'preferred_chunksizes': dict{builtins.str:'x': "
                        'builtins.int:10}}',
 'enc-2d-np.int64(-1)-None': "dict{builtins.str:'preferred_chunksizes': dict{builtins.str:'y': "
                             "builtins.int:20, builtins.str:'x': builtins.int:10}}",
 'enc-2d-np.int64(-1)--1': "dict{builtins.str:'preferred_chunksizes': dict{builtins.str:'y': "
                           "builtins.int:20, builtins.str:'x': builtins.int:10}}",
 'enc-2d-np.int64(-1)-0': "dict{builtins.str:'preferred_chunksizes': dict{builtins.str:'y': "
                          "builtins.int:20, builtins.str:'x': builtins.int:0}}",
 'enc-2d-np.int64(-1)-1': "dict{builtins.str:'preferred_chunksizes': dict{builtins.str:'y': "
                          "builtins.int:20, builtins.str:'x': builtins.int:1}}",
 'enc-2d-np.int64(-1)-3': "dict{builtins.str:'preferred_chunksizes': dict{builtins.str:'y': "
                          "builtins.int:20, builtins.str:'x': builtins.int:3}}",
 'enc-2d-np.int64(-1)-100': "dict{builtins.str:'preferred_chunksizes': dict{builtins.str:'y': "
                            "builtins.int:20, builtins.str:'x': builtins.int:100}}",
 'enc-2d-np.int64(-1)--2': "dict{builtins.str:'preferred_chunksizes': dict{builtins.str:'y': "
                           "builtins.int:20, builtins.str:'x': builtins.int:-2}}",
 'enc-2d-np.int64(-1)--1.0': "dict{builtins.str:'preferred_chunksizes': dict{builtins.str:'y': "
                             "builtins.int:20, builtins.str:'x': builtins.int:10}}",
 'enc-2d-np.int64(-1)-2.5': "dict{builtins.str:'preferred_chunksizes': dict{builtins.str:'y': "
                            "builtins.int:20, builtins.str:'x': builtins.float:2.5}}",
 'enc-2d-np.int64(-1)-True': "dict{builtins.str:'preferred_chunksizes': dict{builtins.str:'y': "
                             "builtins.int:20, builtins.str:'x': builtins.bool:True}}",
 'enc-2d-np.int64(-1)-np.int64(-1)': "dict{builtins.str:'preferred_chunksizes': "
                                     "dict{builtins.str:'y': builtins.int:20, builtins.str:'x': "
                                     'builtins.int:10}}',
 'enc-2d-np.int64(-1)-np.int64(4)': "dict{builtins.str:'preferred_chunksizes': "
                                    "dict{builtins.str:'y': builtins.int:20, builtins.str:'x': "
                                    'numpy.int64(np.int64(4))}}',
 "enc-2d-np.int64(-1)-'auto'": "dict{builtins.str:'preferred_chunksizes': dict{builtins.str:'y': "
                               "builtins.int:20, builtins.str:'x': builtins.str:'auto'}}",
 'enc-2d-np.int64(-1)-(1, 2)': "dict{builtins.str:'preferred_chunksizes': dict{builtins.str:'y': "
                               "builtins.int:20, builtins.str:'x': tuple(builtins.int:1, "
                               'builtins.int:2)}}',
 'enc-1d-np.int64(4)': "dict{builtins.str:'preferred_chunksizes': dict{builtins.str:'x': "
                       'numpy.int64(np.int64(4))}}',
 'enc-2d-np.int64(4)-None': "dict{builtins.str:'preferred_chunksizes': dict{builtins.str:'y': "
                            "numpy.int64(np.int64(4)), builtins.str:'x': builtins.int:10}}",
 'enc-2d-np.int64(4)--1': "dict{builtins.str:'preferred_chunksizes': dict{builtins.str:'y': "
                          "numpy.int64(np.int64(4)), builtins.str:'x': builtins.int:10}}",
 'enc-2d-np.int64(4)-0': "dict{builtins.str:'preferred_chunksizes': dict{builtins.str:'y': "
                         "numpy.int64(np.int64(4)), builtins.str:'x': builtins.int:0}}",
 'enc-2d-np.int64(4)-1': "dict{builtins.str:'preferred_chunksizes': dict{builtins.str:'y': "
                         "numpy.int64(np.int64(4)), builtins.str:'x': builtins.int:1}}",
 'enc-2d-np.int64(4)-3': "dict{builtins.str:'preferred_chunksizes': dict{builtins.str:'y': "
                         "numpy.int64(np.int64(4)), builtins.str:'x': builtins.int:3}}",
 'enc-2d-np.int64(4)-100': "dict{builtins.str:'preferred_chunksizes': dict{builtins.str:'y': "
                           "numpy.int64(np.int64(4)), builtins.str:'x': builtins.int:100}}",
 'enc-2d-np.int64(4)--2': "dict{builtins.str:'preferred_chunksizes': dict{builtins.str:'y': "
                          "numpy.int64(np.int64(4)), builtins.str:'x': builtins.int:-2}}",
 'enc-2d-np.int64(4)--1.0': "dict{builtins.str:'preferred_chunksizes': dict{builtins.str:'y': "
                            "numpy.int64(np.int64(4)), builtins.str:'x': builtins.int:10}}",
 'enc-2d-np.int64(4)-2.5': "dict{builtins.str:'preferred_chunksizes': dict{builtins.str:'y': "
                           "numpy.int64(np.int64(4)), builtins.str:'x': builtins.float:2.5}}",
 'enc-2d-np.int64(4)-True': "dict{builtins.str:'preferred_chunksizes': dict{builtins.str:'y': "
                            "numpy.int64(np.int64(4)), builtins.str:'x': builtins.bool:True}}",
 'enc-2d-np.int64(4)-np.int64(-1)': "dict{builtins.str:'preferred_chunksizes': "
                                    "dict{builtins.str:'y': numpy.int64(np.int64(4)), "
                                    "builtins.str:'x': builtins.int:10}}",
 'enc-2d-np.int64(4)-np.int64(4)': "dict{builtins.str:'preferred_chunksizes': "
                                   "dict{builtins.str:'y': numpy.int64(np.int64(4)), "
                                   "builtins.str:'x': numpy.int64(np.int64(4))}}",
 "enc-2d-np.int64(4)-'auto'": "dict{builtins.str:'preferred_chunksizes': dict{builtins.str:'y': "
                              "numpy.int64(np.int64(4)), builtins.str:'x': builtins.str:'auto'}}",
 'enc-2d-np.int64(4)-(1, 2)': "dict{builtins.str:'preferred_chunksizes': dict{builtins.str:'y': "
                              "numpy.int64(np.int64(4)), builtins.str:'x': tuple(builtins.int:1, "
                              'builtins.int:2)}}',
 "enc-1d-'auto'": "dict{builtins.str:'preferred_chunksizes': dict{builtins.str:'x': "
                  "builtins.str:'auto'}}",
 "enc-2d-'auto'-None": "dict{builtins.str:'preferred_chunksizes': dict{builtins.str:'y': "
                       "builtins.str:'auto', builtins.str:'x': builtins.int:10}}",
 "enc-2d-'auto'--1": "dict{builtins.str:'preferred_chunksizes': dict{builtins.str:'y': "
                     "builtins.str:'auto', builtins.str:'x': builtins.int:10}}",
 "enc-2d-'auto'-0": "dict{builtins.str:'preferred_chunksizes': dict{builtins.str:'y': "
                    "builtins.str:'auto', builtins.str:'x': builtins.int:0}}",
 "enc-2d-'auto'-1": "dict{builtins.str:'preferred_chunksizes': dict{builtins.str:'y': "
                    "builtins.str:'auto', builtins.str:'x': builtins.int:1}}",
 "enc-2d-'auto'-3": "dict{builtins.str:'preferred_chunksizes': dict{builtins.str:'y': "
                    "builtins.str:'auto', builtins.str:'x': builtins.int:3}}",
 "enc-2d-'auto'-100": "dict{builtins.str:'preferred_chunksizes': dict{builtins.str:'y': "
                      "builtins.str:'auto', builtins.str:'x': builtins.int:100}}",
 "enc-2d-'auto'--2": "dict{builtins.str:'preferred_chunksizes': dict{builtins.str:'y': "
                     "builtins.str:'auto', builtins.str:'x': builtins.int:-2}}",
 "enc-2d-'auto'--1.0": "dict{builtins.str:'preferred_chunksizes': dict{builtins.str:'y': "
                       "builtins.str:'auto', builtins.str:'x': builtins.int:10}}",
 "enc-2d-'auto'-2.5": "dict{builtins.str:'preferred_chunksizes': dict{builtins.str:'y': "
                      "builtins.str:'auto', builtins.str:'x': builtins.float:2.5}}",
 "enc-2d-'auto'-True": "dict{builtins.str:'preferred_chunksizes': dict{builtins.str:'y': "
                       "builtins.str:'auto', builtins.str:'x': builtins.bool:True}}",
 "enc-2d-'auto'-np.int64(-1)": "dict{builtins.str:'preferred_chunksizes': dict{builtins.str:'y': "
                               "builtins.str:'auto', builtins.str:'x': builtins.int:10}}",
 "enc-2d-'auto'-np.int64(4)": "dict{builtins.str:'preferred_chunksizes': dict{builtins.str:'y': "
                              "builtins.str:'auto', builtins.str:'x': numpy.int64(np.int64(4))}}",
 "enc-2d-'auto'-'auto'": "dict{builtins.str:'preferred_chunksizes': dict{builtins.str:'y': "
                         "builtins.str:'auto', builtins.str:'x': builtins.str:'auto'}}",
 "enc-2d-'auto'-(1, 2)": "dict{builtins.str:'preferred_chunksizes': dict{builtins.str:'y': "
                         "builtins.str:'auto', builtins.str:'x': tuple(builtins.int:1, "
                         'builtins.int:2)}}',
 'enc-1d-(1, 2)': "dict{builtins.str:'preferred_chunksizes': dict{builtins.str:'x': "
                  'tuple(builtins.int:1, builtins.int:2)}}',
 'enc-2d-(1, 2)-None': "dict{builtins.str:'preferred_chunksizes': dict{builtins.str:'y': "
                       "tuple(builtins.int:1, builtins.int:2), builtins.str:'x': builtins.int:10}}",
 'enc-2d-(1, 2)--1': "dict{builtins.str:'preferred_chunksizes': dict{builtins.str:'y': "
                     "tuple(builtins.int:1, builtins.int:2), builtins.str:'x': builtins.int:10}}",
 'enc-2d-(1, 2)-0': "dict{builtins.str:'preferred_chunksizes': dict{builtins.str:'y': "
                    "tuple(builtins.int:1, builtins.int:2), builtins.str:'x': builtins.int:0}}",
 'enc-2d-(1, 2)-1': "dict{builtins.str:'preferred_chunksizes': dict{builtins.str:'y': "
                    "tuple(builtins.int:1, builtins.int:2), builtins.str:'x': builtins.int:1}}",
 'enc-2d-(1, 2)-3': "dict{builtins.str:'preferred_chunksizes': dict{builtins.str:'y': "
                    "tuple(builtins.int:1, builtins.int:2), builtins.str:'x': builtins.int:3}}",
 'enc-2d-(1, 2)-100': "dict{builtins.str:'preferred_chunksizes': dict{builtins.str:'y': "
                      "tuple(builtins.int:1, builtins.int:2), builtins.str:'x': builtins.int:100}}",
 'enc-2d-(1, 2)--2': "dict{builtins.str:'preferred_chunksizes': dict{builtins.str:'y': "
                     "tuple(builtins.int:1, builtins.int:2), builtins.str:'x': builtins.int:-2}}",
 'enc-2d-(1, 2)--1.0': "dict{builtins.str:'preferred_chunksizes': dict{builtins.str:'y': "
                       "tuple(builtins.int:1, builtins.int:2), builtins.str:'x': builtins.int:10}}",
 'enc-2d-(1, 2)-2.5': "dict{builtins.str:'preferred_chunksizes': dict{builtins.str:'y': "
                      "tuple(builtins.int:1, builtins.int:2), builtins.str:'x': "
                      'builtins.float:2.5}}',
 'enc-2d-(1, 2)-True': "dict{builtins.str:'preferred_chunksizes': dict{builtins.str:'y': "
                       "tuple(builtins.int:1, builtins.int:2), builtins.str:'x': "
                       'builtins.bool:True}}',
 'enc-2d-(1, 2)-np.int64(-1)': "dict{builtins.str:'preferred_chunksizes': dict{builtins.str:'y': "
                               "tuple(builtins.int:1, builtins.int:2), builtins.str:'x': "
                               'builtins.int:10}}',
 'enc-2d-(1, 2)-np.int64(4)': "dict{builtins.str:'preferred_chunksizes': dict{builtins.str:'y': "
                              "tuple(builtins.int:1, builtins.int:2), builtins.str:'x': "
                              'numpy.int64(np.int64(4))}}',
 "enc-2d-(1, 2)-'auto'": "dict{builtins.str:'preferred_chunksizes': dict{builtins.str:'y': "
                         "tuple(builtins.int:1, builtins.int:2), builtins.str:'x': "
                         "builtins.str:'auto'}}",
 'enc-2d-(1, 2)-(1, 2)': "dict{builtins.str:'preferred_chunksizes': dict{builtins.str:'y': "
                         "tuple(builtins.int:1, builtins.int:2), builtins.str:'x': "
                         'tuple(builtins.int:1, builtins.int:2)}}',
 'enc-empty': 'dict{}',
 'enc-empty-no-sizes': 'dict{}',
 'enc-all-none-no-sizes': 'dict{}',
 'enc-given-no-sizes': "dict{builtins.str:'preferred_chunksizes': dict{builtins.str:'x': "
                       "builtins.int:2, builtins.str:'y': builtins.int:3}}",
 'enc-default-no-sizes': "raise builtins.AttributeError: 'types.SimpleNamespace' object has no "
                         "attribute 'sizes'",
 'enc-none-then-no-sizes': "raise builtins.AttributeError: 'types.SimpleNamespace' object has no "
                           "attribute 'sizes'",
 'enc-missing-size': "raise builtins.KeyError: 'z'",
 'enc-missing-size-first': "raise builtins.KeyError: 'z'",
 'enc-no-chunks': "raise builtins.AttributeError: 'types.SimpleNamespace' object has no attribute "
                  "'chunks'",
 'enc-chunks-none': "raise builtins.AttributeError: 'NoneType' object has no attribute 'values'",
 'enc-chunks-list': "raise builtins.AttributeError: 'list' object has no attribute 'values'",
 'enc-array-chunk': 'raise builtins.ValueError: The truth value of an array with more than one '
                    'element is ambiguous. Use a.any() or a.all()',
 'enc-sizes-raises': 'raise builtins.RuntimeError: sizes',
 'enc-sizes-raises-unused': "dict{builtins.str:'preferred_chunksizes': dict{builtins.str:'x': "
                            "builtins.int:3, builtins.str:'y': builtins.int:4}}",
 'enc-order': "list(builtins.str:'b', builtins.str:'a', builtins.str:'c')",
 'enc-kw': "dict{builtins.str:'preferred_chunksizes': dict{builtins.str:'x': builtins.int:10}}",
 'enc-fresh': "list(builtins.bool:True, dict{builtins.str:'x': builtins.int:2})",
 'enc-array-uint16-None-5x3': "dict{builtins.str:'preferred_chunksizes': dict{builtins.str:'rows': "
                              "builtins.int:1024, builtins.str:'cols': builtins.int:3}}",
 'var-array-uint16-None-5x3': "dict{builtins.str:'type': builtins.str:'Variable', "
                              "builtins.str:'dims': tuple(builtins.str:'rows', "
                              "builtins.str:'cols'), builtins.str:'attrs': "
                              "dict{builtins.str:'units': builtins.str:'1', builtins.str:'n': "
                              "builtins.int:5}, builtins.str:'attrs-copied': builtins.bool:True, "
                              "builtins.str:'encoding': dict{builtins.str:'preferred_chunksizes': "
                              "dict{builtins.str:'rows': builtins.int:1024, builtins.str:'cols': "
                              "builtins.int:3}}, builtins.str:'layers': "
                              "list(builtins.str:'LazilyIndexedArray', "
                              "builtins.str:'LazilyIndexedWrapper', builtins.str:'Array'), "
                              "builtins.str:'innermost-is-source': builtins.bool:True, "
                              "builtins.str:'shape': tuple(builtins.int:5, builtins.int:3), "
                              "builtins.str:'dtype': builtins.str:'uint16', builtins.str:'lock': "
                              "builtins.str:'SerializableLock', builtins.str:'wrapper-shape': "
                              'tuple(builtins.int:5, builtins.int:3), '
                              "builtins.str:'wrapper-dtype': builtins.str:'uint16', "
                              "builtins.str:'key': builtins.str:'BasicIndexer((slice(None, None, "
                              "None), slice(None, None, None)))', builtins.str:'first': "
                              "ndarray[<u2|(3,)|490091004f00], builtins.str:'values': "
                              'ndarray[<u2|(5, '
                              '3)|490091004f000300be00c4007b00900006006c003d002f005a0079002000], '
                              "builtins.str:'sub': ndarray[<u2|(4, "
                              '2)|0300c4007b0006006c002f005a002000]}',
 'enc-array-uint16-None-1x4': "dict{builtins.str:'preferred_chunksizes': dict{builtins.str:'rows': "
                              "builtins.int:1024, builtins.str:'cols': builtins.int:4}}",
 'var-array-uint16-None-1x4': "dict{builtins.str:'type': builtins.str:'Variable', "
                              "builtins.str:'dims': tuple(builtins.str:'rows', "
                              "builtins.str:'cols'), builtins.str:'attrs': "
                              "dict{builtins.str:'units': builtins.str:'1', builtins.str:'n': "
                              "builtins.int:1}, builtins.str:'attrs-copied': builtins.bool:True, "
                              "builtins.str:'encoding': dict{builtins.str:'preferred_chunksizes': "
                              "dict{builtins.str:'rows': builtins.int:1024, builtins.str:'cols': "
                              "builtins.int:4}}, builtins.str:'layers': "
                              "list(builtins.str:'LazilyIndexedArray', "
                              "builtins.str:'LazilyIndexedWrapper', builtins.str:'Array'), "
                              "builtins.str:'innermost-is-source': builtins.bool:True, "
                              "builtins.str:'shape': tuple(builtins.int:1, builtins.int:4), "
                              "builtins.str:'dtype': builtins.str:'uint16', builtins.str:'lock': "
                              "builtins.str:'SerializableLock', builtins.str:'wrapper-shape': "
                              'tuple(builtins.int:1, builtins.int:4), '
                              "builtins.str:'wrapper-dtype': builtins.str:'uint16', "
                              "builtins.str:'key': builtins.str:'BasicIndexer((slice(None, None, "
                              "None), slice(None, None, None)))', builtins.str:'first': "
                              "ndarray[<u2|(4,)|0a00740087006900], builtins.str:'values': "
                              "ndarray[<u2|(1, 4)|0a00740087006900], builtins.str:'sub': "
                              'ndarray[<u2|(0, 2)|]}',
 'enc-array-uint16-None-4x1': "dict{builtins.str:'preferred_chunksizes': dict{builtins.str:'rows': "
                              "builtins.int:1024, builtins.str:'cols': builtins.int:1}}",
 'var-array-uint16-None-4x1': "dict{builtins.str:'type': builtins.str:'Variable', "
                              "builtins.str:'dims': tuple(builtins.str:'rows', "
                              "builtins.str:'cols'), builtins.str:'attrs': "
                              "dict{builtins.str:'units': builtins.str:'1', builtins.str:'n': "
                              "builtins.int:4}, builtins.str:'attrs-copied': builtins.bool:True, "
                              "builtins.str:'encoding': dict{builtins.str:'preferred_chunksizes': "
                              "dict{builtins.str:'rows': builtins.int:1024, builtins.str:'cols': "
                              "builtins.int:1}}, builtins.str:'layers': "
                              "list(builtins.str:'LazilyIndexedArray', "
                              "builtins.str:'LazilyIndexedWrapper', builtins.str:'Array'), "
                              "builtins.str:'innermost-is-source': builtins.bool:True, "
                              "builtins.str:'shape': tuple(builtins.int:4, builtins.int:1), "
                              "builtins.str:'dtype': builtins.str:'uint16', builtins.str:'lock': "
                              "builtins.str:'SerializableLock', builtins.str:'wrapper-shape': "
                              'tuple(builtins.int:4, builtins.int:1), '
                              "builtins.str:'wrapper-dtype': builtins.str:'uint16', "
                              "builtins.str:'key': builtins.str:'BasicIndexer((slice(None, None, "
                              "None), slice(None, None, None)))', builtins.str:'first': "
                              "ndarray[<u2|(1,)|3c00], builtins.str:'values': ndarray[<u2|(4, "
                              "1)|3c009c004d007900], builtins.str:'sub': ndarray[<u2|(3, "
                              '1)|9c004d007900]}',
 'enc-array-uint16--1-5x3': "dict{builtins.str:'preferred_chunksizes': dict{builtins.str:'rows': "
                            "builtins.int:5, builtins.str:'cols': builtins.int:3}}",
 'var-array-uint16--1-5x3': "dict{builtins.str:'type': builtins.str:'Variable', "
                            "builtins.str:'dims': tuple(builtins.str:'rows', builtins.str:'cols'), "
                            "builtins.str:'attrs': dict{builtins.str:'units': builtins.str:'1', "
                            "builtins.str:'n': builtins.int:5}, builtins.str:'attrs-copied': "
                            "builtins.bool:True, builtins.str:'encoding': "
                            "dict{builtins.str:'preferred_chunksizes': dict{builtins.str:'rows': "
                            "builtins.int:5, builtins.str:'cols': builtins.int:3}}, "
                            "builtins.str:'layers': list(builtins.str:'LazilyIndexedArray', "
                            "builtins.str:'LazilyIndexedWrapper', builtins.str:'Array'), "
                            "builtins.str:'innermost-is-source': builtins.bool:True, "
                            "builtins.str:'shape': tuple(builtins.int:5, builtins.int:3), "
                            "builtins.str:'dtype': builtins.str:'uint16', builtins.str:'lock': "
                            "builtins.str:'SerializableLock', builtins.str:'wrapper-shape': "
                            "tuple(builtins.int:5, builtins.int:3), builtins.str:'wrapper-dtype': "
                            "builtins.str:'uint16', builtins.str:'key': "
                            "builtins.str:'BasicIndexer((slice(None, None, None), slice(None, "
                            "None, None)))', builtins.str:'first': ndarray[<u2|(3,)|490091004f00], "
                            "builtins.str:'values': ndarray[<u2|(5, "
                            '3)|490091004f000300be00c4007b00900006006c003d002f005a0079002000], '
                            "builtins.str:'sub': ndarray[<u2|(4, "
                            '2)|0300c4007b0006006c002f005a002000]}',
 'enc-array-uint16--1-1x4': "dict{builtins.str:'preferred_chunksizes': dict{builtins.str:'rows': "
                            "builtins.int:1, builtins.str:'cols': builtins.int:4}}",
 'var-array-uint16--1-1x4': "dict{builtins.str:'type': builtins.str:'Variable', "
                            "builtins.str:'dims': tuple(builtins.str:'rows', builtins.str:'cols'), "
                            "builtins.str:'attrs': dict{builtins.str:'units': builtins.str:'1', "
                            "builtins.str:'n': builtins.int:1}, builtins.str:'attrs-copied': "
                            "builtins.bool:True, builtins.str:'encoding': "
                            "dict{builtins.str:'preferred_chunksizes': dict{builtins.str:'rows': "
                            "builtins.int:1, builtins.str:'cols': builtins.int:4}}, "
                            "builtins.str:'layers': list(builtins.str:'LazilyIndexedArray', "
                            "builtins.str:'LazilyIndexedWrapper', builtins.str:'Array'), "
                            "builtins.str:'innermost-is-source': builtins.bool:True, "
                            "builtins.str:'shape': tuple(builtins.int:1, builtins.int:4), "
                            "builtins.str:'dtype': builtins.str:'uint16', builtins.str:'lock': "
                            "builtins.str:'SerializableLock', builtins.str:'wrapper-shape': "
                            "tuple(builtins.int:1, builtins.int:4), builtins.str:'wrapper-dtype': "
                            "builtins.str:'uint16', builtins.str:'key': "
                            "builtins.str:'BasicIndexer((slice(None, None, None), slice(None, "
                            "None, None)))', builtins.str:'first': "
                            "ndarray[<u2|(4,)|0a00740087006900], builtins.str:'values': "
                            "ndarray[<u2|(1, 4)|0a00740087006900], builtins.str:'sub': "
                            'ndarray[<u2|(0, 2)|]}',
 'enc-array-uint16--1-4x1': "dict{builtins.str:'preferred_chunksizes': dict{builtins.str:'rows': "
                            "builtins.int:4, builtins.str:'cols': builtins.int:1}}",
 'var-array-uint16--1-4x1': "dict{builtins.str:'type': builtins.str:'Variable', "
                            "builtins.str:'dims': tuple(builtins.str:'rows', builtins.str:'cols'), "
                            "builtins.str:'attrs': dict{builtins.str:'units': builtins.str:'1', "
                            "builtins.str:'n': builtins.int:4}, builtins.str:'attrs-copied': "
                            "builtins.bool:True, builtins.str:'encoding': "
                            "dict{builtins.str:'preferred_chunksizes': dict{builtins.str:'rows': "
                            "builtins.int:4, builtins.str:'cols': builtins.int:1}}, "
                            "builtins.str:'layers': list(builtins.str:'LazilyIndexedArray', "
                            "builtins.str:'LazilyIndexedWrapper', builtins.str:'Array'), "
                            "builtins.str:'innermost-is-source': builtins.bool:True, "
                            "builtins.str:'shape': tuple(builtins.int:4, builtins.int:1), "
                            "builtins.str:'dtype': builtins.str:'uint16', builtins.str:'lock': "
                            "builtins.str:'SerializableLock', builtins.str:'wrapper-shape': "
                            "tuple(builtins.int:4, builtins.int:1), builtins.str:'wrapper-dtype': "
                            "builtins.str:'uint16', builtins.str:'key': "
                            "builtins.str:'BasicIndexer((slice(None, None, None), slice(None, "
                            "None, None)))', builtins.str:'first': ndarray[<u2|(1,)|3c00], "
                            "builtins.str:'values': ndarray[<u2|(4, 1)|3c009c004d007900], "
                            "builtins.str:'sub': ndarray[<u2|(3, 1)|9c004d007900]}",
 'enc-array-uint16-1-5x3': "dict{builtins.str:'preferred_chunksizes': dict{builtins.str:'rows': "
                           "builtins.int:1, builtins.str:'cols': builtins.int:3}}",
 'var-array-uint16-1-5x3': "dict{builtins.str:'type': builtins.str:'Variable', "
                           "builtins.str:'dims': tuple(builtins.str:'rows', builtins.str:'cols'), "
                           "builtins.str:'attrs': dict{builtins.str:'units': builtins.str:'1', "
                           "builtins.str:'n': builtins.int:5}, builtins.str:'attrs-copied': "
                           "builtins.bool:True, builtins.str:'encoding': "
                           "dict{builtins.str:'preferred_chunksizes': dict{builtins.str:'rows': "
                           "builtins.int:1, builtins.str:'cols': builtins.int:3}}, "
                           "builtins.str:'layers': list(builtins.str:'LazilyIndexedArray', "
                           "builtins.str:'LazilyIndexedWrapper', builtins.str:'Array'), "
                           "builtins.str:'innermost-is-source': builtins.bool:True, "
                           "builtins.str:'shape': tuple(builtins.int:5, builtins.int:3), "
                           "builtins.str:'dtype': builtins.str:'uint16', builtins.str:'lock': "
                           "builtins.str:'SerializableLock', builtins.str:'wrapper-shape': "
                           "tuple(builtins.int:5, builtins.int:3), builtins.str:'wrapper-dtype': "
                           "builtins.str:'uint16', builtins.str:'key': "
                           "builtins.str:'BasicIndexer((slice(None, None, None), slice(None, None, "
                           "None)))', builtins.str:'first': ndarray[<u2|(3,)|490091004f00], "
                           "builtins.str:'values': ndarray[<u2|(5, "
                           '3)|490091004f000300be00c4007b00900006006c003d002f005a0079002000], '
                           "builtins.str:'sub': ndarray[<u2|(4, "
                           '2)|0300c4007b0006006c002f005a002000]}',
 'enc-array-uint16-1-1x4': "dict{builtins.str:'preferred_chunksizes': dict{builtins.str:'rows': "
                           "builtins.int:1, builtins.str:'cols': builtins.int:4}}",
 'var-array-uint16-1-1x4': "dict{builtins.str:'type': builtins.str:'Variable', "
                           "builtins.str:'dims': tuple(builtins.str:'rows', builtins.str:'cols'), "
                           "builtins.str:'attrs': dict{builtins.str:'units': builtins.str:'1', "
                           "builtins.str:'n': builtins.int:1}, builtins.str:'attrs-copied': "
                           "builtins.bool:True, builtins.str:'encoding': "
                           "dict{builtins.str:'preferred_chunksizes': dict{builtins.str:'rows': "
                           "builtins.int:1, builtins.str:'cols': builtins.int:4}}, "
                           "builtins.str:'layers': list(builtins.str:'LazilyIndexedArray', "
                           "builtins.str:'LazilyIndexedWrapper', builtins.str:'Array'), "
                           "builtins.str:'innermost-is-source': builtins.bool:True, "
                           "builtins.str:'shape': tuple(builtins.int:1, builtins.int:4), "
                           "builtins.str:'dtype': builtins.str:'uint16', builtins.str:'lock': "
                           "builtins.str:'SerializableLock', builtins.str:'wrapper-shape': "
                           "tuple(builtins.int:1, builtins.int:4), builtins.str:'wrapper-dtype': "
                           "builtins.str:'uint16', builtins.str:'key': "
                           "builtins.str:'BasicIndexer((slice(None, None, None), slice(None, None, "
                           "None)))', builtins.str:'first': ndarray[<u2|(4,)|0a00740087006900], "
                           "builtins.str:'values': ndarray[<u2|(1, 4)|0a00740087006900], "
                           "builtins.str:'sub': ndarray[<u2|(0, 2)|]}",
 'enc-array-uint16-1-4x1': "dict{builtins.str:'preferred_chunksizes': dict{builtins.str:'rows': "
                           "builtins.int:1, builtins.str:'cols': builtins.int:1}}",
 'var-array-uint16-1-4x1': "dict{builtins.str:'type': builtins.str:'Variable', "
                           "builtins.str:'dims': tuple(builtins.str:'rows', builtins.str:'cols'), "
                           "builtins.str:'attrs': dict{builtins.str:'units': builtins.str:'1', "
                           "builtins.str:'n': builtins.int:4}, builtins.str:'attrs-copied': "
                           "builtins.bool:True, builtins.str:'encoding': "
                           "dict{builtins.str:'preferred_chunksizes': dict{builtins.str:'rows': "
                           "builtins.int:1, builtins.str:'cols': builtins.int:1}}, "
                           "builtins.str:'layers': list(builtins.str:'LazilyIndexedArray', "
                           "builtins.str:'LazilyIndexedWrapper', builtins.str:'Array'), "
                           "builtins.str:'innermost-is-source': builtins.bool:True, "
                           "builtins.str:'shape': tuple(builtins.int:4, builtins.int:1), "
                           "builtins.str:'dtype': builtins.str:'uint16', builtins.str:'lock': "
                           "builtins.str:'SerializableLock', builtins.str:'wrapper-shape': "
                           "tuple(builtins.int:4, builtins.int:1), builtins.str:'wrapper-dtype': "
                           "builtins.str:'uint16', builtins.str:'key': "
                           "builtins.str:'BasicIndexer((slice(None, None, None), slice(None, None, "
                           "None)))', builtins.str:'first': ndarray[<u2|(1,)|3c00], "
                           "builtins.str:'values': ndarray[<u2|(4, 1)|3c009c004d007900], "
                           "builtins.str:'sub': ndarray[<u2|(3, 1)|9c004d007900]}",
 'enc-array-uint16-2-5x3': "dict{builtins.str:'preferred_chunksizes': dict{builtins.str:'rows': "
                           "builtins.int:2, builtins.str:'cols': builtins.int:3}}",
 'var-array-uint16-2-5x3': "dict{builtins.str:'type': builtins.str:'Variable', "
                           "builtins.str:'dims': tuple(builtins.str:'rows', builtins.str:'cols'), "
                           "builtins.str:'attrs': dict{builtins.str:'units': builtins.str:'1', "
                           "builtins.str:'n': builtins.int:5}, builtins.str:'attrs-copied': "
                           "builtins.bool:True, builtins.str:'encoding': "
                           "dict{builtins.str:'preferred_chunksizes': dict{builtins.str:'rows': "
                           "builtins.int:2, builtins.str:'cols': builtins.int:3}}, "
                           "builtins.str:'layers': list(builtins.str:'LazilyIndexedArray', "
                           "builtins.str:'LazilyIndexedWrapper', builtins.str:'Array'), "
                           "builtins.str:'innermost-is-source': builtins.bool:True, "
                           "builtins.str:'shape': tuple(builtins.int:5, builtins.int:3), "
                           "builtins.str:'dtype': builtins.str:'uint16', builtins.str:'lock': "
                           "builtins.str:'SerializableLock', builtins.str:'wrapper-shape': "
                           "tuple(builtins.int:5, builtins.int:3), builtins.str:'wrapper-dtype': "
                           "builtins.str:'uint16', builtins.str:'key': "
                           "builtins.str:'BasicIndexer((slice(None, None, None), slice(None, None, "
                           "None)))', builtins.str:'first': ndarray[<u2|(3,)|490091004f00], "
                           "builtins.str:'values': ndarray[<u2|(5, "
                           '3)|490091004f000300be00c4007b00900006006c003d002f005a0079002000], '
                           "builtins.str:'sub': ndarray[<u2|(4, "
                           '2)|0300c4007b0006006c002f005a002000]}',
 'enc-array-uint16-2-1x4': "dict{builtins.str:'preferred_chunksizes': dict{builtins.str:'rows': "
                           "builtins.int:1, builtins.str:'cols': builtins.int:4}}",
 'var-array-uint16-2-1x4': "dict{builtins.str:'type': builtins.str:'Variable', "
                           "builtins.str:'dims': tuple(builtins.str:'rows', builtins.str:'cols'), "
                           "builtins.str:'attrs': dict{builtins.str:'units': builtins.str:'1', "
                           "builtins.str:'n': builtins.int:1}, builtins.str:'attrs-copied': "
                           "builtins.bool:True, builtins.str:'encoding': "
                           "dict{builtins.str:'preferred_chunksizes': dict{builtins.str:'rows': "
                           "builtins.int:1, builtins.str:'cols': builtins.int:4}}, "
                           "builtins.str:'layers': list(builtins.str:'LazilyIndexedArray', "
                           "builtins.str:'LazilyIndexedWrapper', builtins.str:'Array'), "
                           "builtins.str:'innermost-is-source': builtins.bool:True, "
                           "builtins.str:'shape': tuple(builtins.int:1, builtins.int:4), "
                           "builtins.str:'dtype': builtins.str:'uint16', builtins.str:'lock': "
                           "builtins.str:'SerializableLock', builtins.str:'wrapper-shape': "
                           "tuple(builtins.int:1, builtins.int:4), builtins.str:'wrapper-dtype': "
                           "builtins.str:'uint16', builtins.str:'key': "
                           "builtins.str:'BasicIndexer((slice(None, None, None), slice(None, None, "
                           "None)))', builtins.str:'first': ndarray[<u2|(4,)|0a00740087006900], "
                           "builtins.str:'values': ndarray[<u2|(1, 4)|0a00740087006900], "
                           "builtins.str:'sub': ndarray[<u2|(0, 2)|]}",
 'enc-array-uint16-2-4x1': "dict{builtins.str:'preferred_chunksizes': dict{builtins.str:'rows': "
                           "builtins.int:2, builtins.str:'cols': builtins.int:1}}",
 'var-array-uint16-2-4x1': "dict{builtins.str:'type': builtins.str:'Variable', "
                           "builtins.str:'dims': tuple(builtins.str:'rows', builtins.str:'cols'), "
                           "builtins.str:'attrs': dict{builtins.str:'units': builtins.str:'1', "
                           "builtins.str:'n': builtins.int:4}, builtins.str:'attrs-copied': "
                           "builtins.bool:True, builtins.str:'encoding': "
                           "dict{builtins.str:'preferred_chunksizes': dict{builtins.str:'rows': "
                           "builtins.int:2, builtins.str:'cols': builtins.int:1}}, "
                           "builtins.str:'layers': list(builtins.str:'LazilyIndexedArray', "
                           "builtins.str:'LazilyIndexedWrapper', builtins.str:'Array'), "
                           "builtins.str:'innermost-is-source': builtins.bool:True, "
                           "builtins.str:'shape': tuple(builtins.int:4, builtins.int:1), "
                           "builtins.str:'dtype': builtins.str:'uint16', builtins.str:'lock': "
                           "builtins.str:'SerializableLock', builtins.str:'wrapper-shape': "
                           "tuple(builtins.int:4, builtins.int:1), builtins.str:'wrapper-dtype': "
                           "builtins.str:'uint16', builtins.str:'key': "
                           "builtins.str:'BasicIndexer((slice(None, None, None), slice(None, None, "
                           "None)))', builtins.str:'first': ndarray[<u2|(1,)|3c00], "
                           "builtins.str:'values': ndarray[<u2|(4, 1)|3c009c004d007900], "
                           "builtins.str:'sub': ndarray[<u2|(3, 1)|9c004d007900]}",
 'enc-array-uint16-5-5x3': "dict{builtins.str:'preferred_chunksizes': dict{builtins.str:'rows': "
                           "builtins.int:5, builtins.str:'cols': builtins.int:3}}",
 'var-array-uint16-5-5x3': "dict{builtins.str:'type': builtins.str:'Variable', "
                           "builtins.str:'dims': tuple(builtins.str:'rows', builtins.str:'cols'), "
                           "builtins.str:'attrs': dict{builtins.str:'units': builtins.str:'1', "
                           "builtins.str:'n': builtins.int:5}, builtins.str:'attrs-copied': "
                           "builtins.bool:True, builtins.str:'encoding': "
                           "dict{builtins.str:'preferred_chunksizes': dict{builtins.str:'rows': "
                           "builtins.int:5, builtins.str:'cols': builtins.int:3}}, "
                           "builtins.str:'layers': list(builtins.str:'LazilyIndexedArray', "
                           "builtins.str:'LazilyIndexedWrapper', builtins.str:'Array'), "
                           "builtins.str:'innermost-is-source': builtins.bool:True, "
                           "builtins.str:'shape': tuple(builtins.int:5, builtins.int:3), "
                           "builtins.str:'dtype': builtins.str:'uint16', builtins.str:'lock': "
                           "builtins.str:'SerializableLock', builtins.str:'wrapper-shape': "
                           "tuple(builtins.int:5, builtins.int:3), builtins.str:'wrapper-dtype': "
                           "builtins.str:'uint16', builtins.str:'key': "
                           "builtins.str:'BasicIndexer((slice(None, None, None), slice(None, None, "
                           "None)))', builtins.str:'first': ndarray[<u2|(3,)|490091004f00], "
                           "builtins.str:'values': ndarray[<u2|(5, "
                           '3)|490091004f000300be00c4007b00900006006c003d002f005a0079002000], '
                           "builtins.str:'sub': ndarray[<u2|(4, "
                           '2)|0300c4007b0006006c002f005a002000]}',
 'enc-array-uint16-5-1x4': "dict{builtins.str:'preferred_chunksizes': dict{builtins.str:'rows': "
                           "builtins.int:1, builtins.str:'cols': builtins.int:4}}",
 'var-array-uint16-5-1x4': "dict{builtins.str:'type': builtins.str:'Variable', "
                           "builtins.str:'dims': tuple(builtins.str:'rows', builtins.str:'cols'), "
                           "builtins.str:'attrs': dict{builtins.str:'units': builtins.str:'1', "
                           "builtins.str:'n': builtins.int:1}, builtins.str:'attrs-copied': "
                           "builtins.bool:True, builtins.str:'encoding': "
                           "dict{builtins.str:'preferred_chunksizes': dict{builtins.str:'rows': "
                           "builtins.int:1, builtins.str:'cols': builtins.int:4}}, "
                           "builtins.str:'layers': list(builtins.str:'LazilyIndexedArray', "
                           "builtins.str:'LazilyIndexedWrapper', builtins.str:'Array'), "
                           "builtins.str:'innermost-is-source': builtins.bool:True, "
                           "builtins.str:'shape': tuple(builtins.int:1, builtins.int:4), "
                           "builtins.str:'dtype': builtins.str:'uint16', builtins.str:'lock': "
                           "builtins.str:'SerializableLock', builtins.str:'wrapper-shape': "
                           "tuple(builtins.int:1, builtins.int:4), builtins.str:'wrapper-dtype': "
                           "builtins.str:'uint16', builtins.str:'key': "
                           "builtins.str:'BasicIndexer((slice(None, None, None), slice(None, None, "
                           "None)))', builtins.str:'first': ndarray[<u2|(4,)|0a00740087006900], "
                           "builtins.str:'values': ndarray[<u2|(1, 4)|0a00740087006900], "
                           "builtins.str:'sub': ndarray[<u2|(0, 2)|]}",
 'enc-array-uint16-5-4x1': "dict{builtins.str:'preferred_chunksizes': dict{builtins.str:'rows': "
                           "builtins.int:4, builtins.str:'cols': builtins.int:1}}",
 'var-array-uint16-5-4x1': "dict{builtins.str:'type': builtins.str:'Variable', "
                           "builtins.str:'dims': tuple(builtins.str:'rows', builtins.str:'cols'), "
                           "builtins.str:'attrs': dict{builtins.str:'units': builtins.str:'1', "
                           "builtins.str:'n': builtins.int:4}, builtins.str:'attrs-copied': "
                           "builtins.bool:True, builtins.str:'encoding': "
                           "dict{builtins.str:'preferred_chunksizes': dict{builtins.str:'rows': "
                           "builtins.int:4, builtins.str:'cols': builtins.int:1}}, "
                           "builtins.str:'layers': list(builtins.str:'LazilyIndexedArray', "
                           "builtins.str:'LazilyIndexedWrapper', builtins.str:'Array'), "
                           "builtins.str:'innermost-is-source': builtins.bool:True, "
                           "builtins.str:'shape': tuple(builtins.int:4, builtins.int:1), "
                           "builtins.str:'dtype': builtins.str:'uint16', builtins.str:'lock': "
                           "builtins.str:'SerializableLock', builtins.str:'wrapper-shape': "
                           "tuple(builtins.int:4, builtins.int:1), builtins.str:'wrapper-dtype': "
                           "builtins.str:'uint16', builtins.str:'key': "
                           "builtins.str:'BasicIndexer((slice(None, None, None), slice(None, None, "
                           "None)))', builtins.str:'first': ndarray[<u2|(1,)|3c00], "
                           "builtins.str:'values': ndarray[<u2|(4, 1)|3c009c004d007900], "
                           "builtins.str:'sub': ndarray[<u2|(3, 1)|9c004d007900]}",
 'enc-array-uint16-9-5x3': "dict{builtins.str:'preferred_chunksizes': dict{builtins.str:'rows': "
                           "builtins.int:5, builtins.str:'cols': builtins.int:3}}",
 'var-array-uint16-9-5x3': "dict{builtins.str:'type': builtins.str:'Variable', "
                           "builtins.str:'dims': tuple(builtins.str:'rows', builtins.str:'cols'), "
                           "builtins.str:'attrs': dict{builtins.str:'units': builtins.str:'1', "
                           "builtins.str:'n': builtins.int:5}, builtins.str:'attrs-copied': "
                           "builtins.bool:True, builtins.str:'encoding': "
                           "dict{builtins.str:'preferred_chunksizes': dict{builtins.str:'rows': "
                           "builtins.int:5, builtins.str:'cols': builtins.int:3}}, "
                           "builtins.str:'layers': list(builtins.str:'LazilyIndexedArray', "
                           "builtins.str:'LazilyIndexedWrapper', builtins.str:'Array'), "
                           "builtins.str:'innermost-is-source': builtins.bool:True, "
                           "builtins.str:'shape': tuple(builtins.int:5, builtins.int:3), "
                           "builtins.str:'dtype': builtins.str:'uint16', builtins.str:'lock': "
                           "builtins.str:'SerializableLock', builtins.str:'wrapper-shape': "
                           "tuple(builtins.int:5, builtins.int:3), builtins.str:'wrapper-dtype': "
                           "builtins.str:'uint16', builtins.str:'key': "
                           "builtins.str:'BasicIndexer((slice(None, None, None), slice(None, None, "
                           "None)))', builtins.str:'first': ndarray[<u2|(3,)|490091004f00], "
                           "builtins.str:'values': ndarray[<u2|(5, "
                           '3)|490091004f000300be00c4007b00900006006c003d002f005a0079002000], '
                           "builtins.str:'sub': ndarray[<u2|(4, "
                           '2)|0300c4007b0006006c002f005a002000]}',
 'enc-array-uint16-9-1x4': "dict{builtins.str:'preferred_chunksizes': dict{builtins.str:'rows': "
                           "builtins.int:1, builtins.str:'cols': builtins.int:4}}",
 'var-array-uint16-9-1x4': "dict{builtins.str:'type': builtins.str:'Variable', "
                           "builtins.str:'dims': tuple(builtins.str:'rows', builtins.str:'cols'), "
                           "builtins.str:'attrs': dict{builtins.str:'units': builtins.str:'1', "
                           "builtins.str:'n': builtins.int:1}, builtins.str:'attrs-copied': "
                           "builtins.bool:True, builtins.str:'encoding': "
                           "dict{builtins.str:'preferred_chunksizes': dict{builtins.str:'rows': "
                           "builtins.int:1, builtins.str:'cols': builtins.int:4}}, "
                           "builtins.str:'layers': list(builtins.str:'LazilyIndexedArray', "
                           "builtins.str:'LazilyIndexedWrapper', builtins.str:'Array'), "
                           "builtins.str:'innermost-is-source': builtins.bool:True, "
                           "builtins.str:'shape': tuple(builtins.int:1, builtins.int:4), "
                           "builtins.str:'dtype': builtins.str:'uint16', builtins.str:'lock': "
                           "builtins.str:'SerializableLock', builtins.str:'wrapper-shape': "
                           "tuple(builtins.int:1, builtins.int:4), builtins.str:'wrapper-dtype': "
                           "builtins.str:'uint16', builtins.str:'key': "
                           "builtins.str:'BasicIndexer((slice(None, None, None), slice(None, None, "
                           "None)))', builtins.str:'first': ndarray[<u2|(4,)|0a00740087006900], "
                           "builtins.str:'values': ndarray[<u2|(1, 4)|0a00740087006900], "
                           "builtins.str:'sub': ndarray[<u2|(0, 2)|]}",
 'enc-array-uint16-9-4x1': "dict{builtins.str:'preferred_chunksizes': dict{builtins.str:'rows': "
                           "builtins.int:4, builtins.str:'cols': builtins.int:1}}",
 'var-array-uint16-9-4x1': "dict{builtins.str:'type': builtins.str:'Variable', "
                           "builtins.str:'dims': tuple(builtins.str:'rows', builtins.str:'cols'), "
                           "builtins.str:'attrs': dict{builtins.str:'units': builtins.str:'1', "
                           "builtins.str:'n': builtins.int:4}, builtins.str:'attrs-copied': "
                           "builtins.bool:True, builtins.str:'encoding': "
                           "dict{builtins.str:'preferred_chunksizes': dict{builtins.str:'rows': "
                           "builtins.int:4, builtins.str:'cols': builtins.int:1}}, "
                           "builtins.str:'layers': list(builtins.str:'LazilyIndexedArray', "
                           "builtins.str:'LazilyIndexedWrapper', builtins.str:'Array'), "
                           "builtins.str:'innermost-is-source': builtins.bool:True, "
                           "builtins.str:'shape': tuple(builtins.int:4, builtins.int:1), "
                           "builtins.str:'dtype': builtins.str:'uint16', builtins.str:'lock': "
                           "builtins.str:'SerializableLock', builtins.str:'wrapper-shape': "
                           "tuple(builtins.int:4, builtins.int:1), builtins.str:'wrapper-dtype': "
                           "builtins.str:'uint16', builtins.str:'key': "
                           "builtins.str:'BasicIndexer((slice(None, None, None), slice(None, None, "
                           "None)))', builtins.str:'first': ndarray[<u2|(1,)|3c00], "
                           "builtins.str:'values': ndarray[<u2|(4, 1)|3c009c004d007900], "
                           "builtins.str:'sub': ndarray[<u2|(3, 1)|9c004d007900]}",
 "enc-array-uint16-'auto'-5x3": "dict{builtins.str:'preferred_chunksizes': "
                                "dict{builtins.str:'rows': numpy.int64(np.int64(5)), "
                                "builtins.str:'cols': builtins.int:3}}",
 "var-array-uint16-'auto'-5x3": "dict{builtins.str:'type': builtins.str:'Variable', "
                                "builtins.str:'dims': tuple(builtins.str:'rows', "
                                "builtins.str:'cols'), builtins.str:'attrs': "
                                "dict{builtins.str:'units': builtins.str:'1', builtins.str:'n': "
                                "builtins.int:5}, builtins.str:'attrs-copied': builtins.bool:True, "
                                "builtins.str:'encoding': "
                                "dict{builtins.str:'preferred_chunksizes': "
                                "dict{builtins.str:'rows': numpy.int64(np.int64(5)), "
                                "builtins.str:'cols': builtins.int:3}}, builtins.str:'layers': "
                                "list(builtins.str:'LazilyIndexedArray', "
                                "builtins.str:'LazilyIndexedWrapper', builtins.str:'Array'), "
                                "builtins.str:'innermost-is-source': builtins.bool:True, "
                                "builtins.str:'shape': tuple(builtins.int:5, builtins.int:3), "
                                "builtins.str:'dtype': builtins.str:'uint16', builtins.str:'lock': "
                                "builtins.str:'SerializableLock', builtins.str:'wrapper-shape': "
                                'tuple(builtins.int:5, builtins.int:3), '
                                "builtins.str:'wrapper-dtype': builtins.str:'uint16', "
                                "builtins.str:'key': builtins.str:'BasicIndexer((slice(None, None, "
                                "None), slice(None, None, None)))', builtins.str:'first': "
                                "ndarray[<u2|(3,)|490091004f00], builtins.str:'values': "
                                'ndarray[<u2|(5, '
                                '3)|490091004f000300be00c4007b00900006006c003d002f005a0079002000], '
                                "builtins.str:'sub': ndarray[<u2|(4, "
                                '2)|0300c4007b0006006c002f005a002000]}',
 "enc-array-uint16-'auto'-1x4": "dict{builtins.str:'preferred_chunksizes': "
                                "dict{builtins.str:'rows': numpy.int64(np.int64(1)), "
                                "builtins.str:'cols': builtins.int:4}}",
 "var-array-uint16-'auto'-1x4": "dict{builtins.str:'type': builtins.str:'Variable', "
                                "builtins.str:'dims': tuple(builtins.str:'rows', "
                                "builtins.str:'cols'), builtins.str:'attrs': "
                                "dict{builtins.str:'units': builtins.str:'1', builtins.str:'n': "
                                "builtins.int:1}, builtins.str:'attrs-copied': builtins.bool:True, "
                                "builtins.str:'encoding': "
                                "dict{builtins.str:'preferred_chunksizes': "
                                "dict{builtins.str:'rows': numpy.int64(np.int64(1)), "
                                "builtins.str:'cols': builtins.int:4}}, builtins.str:'layers': "
                                "list(builtins.str:'LazilyIndexedArray', "
                                "builtins.str:'LazilyIndexedWrapper', builtins.str:'Array'), "
                                "builtins.str:'innermost-is-source': builtins.bool:True, "
                                "builtins.str:'shape': tuple(builtins.int:1, builtins.int:4), "
                                "builtins.str:'dtype': builtins.str:'uint16', builtins.str:'lock': "
                                "builtins.str:'SerializableLock', builtins.str:'wrapper-shape': "
                                'tuple(builtins.int:1, builtins.int:4), '
                                "builtins.str:'wrapper-dtype': builtins.str:'uint16', "
                                "builtins.str:'key': builtins.str:'BasicIndexer((slice(None, None, "
                                "None), slice(None, None, None)))', builtins.str:'first': "
                                "ndarray[<u2|(4,)|0a00740087006900], builtins.str:'values': "
                                "ndarray[<u2|(1, 4)|0a00740087006900], builtins.str:'sub': "
                                'ndarray[<u2|(0, 2)|]}',
 "enc-array-uint16-'auto'-4x1": "dict{builtins.str:'preferred_chunksizes': "
                                "dict{builtins.str:'rows': numpy.int64(np.int64(4)), "
                                "builtins.str:'cols': builtins.int:1}}",
 "var-array-uint16-'auto'-4x1": "dict{builtins.str:'type': builtins.str:'Variable', "
                                "builtins.str:'dims': tuple(builtins.str:'rows', "
                                "builtins.str:'cols'), builtins.str:'attrs': "
                                "dict{builtins.str:'units': builtins.str:'1', builtins.str:'n': "
                                "builtins.int:4}, builtins.str:'attrs-copied': builtins.bool:True, "
                                "builtins.str:'encoding': "
                                "dict{builtins.str:'preferred_chunksizes': "
                                "dict{builtins.str:'rows': numpy.int64(np.int64(4)), "
                                "builtins.str:'cols': builtins.int:1}}, builtins.str:'layers': "
                                "list(builtins.str:'LazilyIndexedArray', "
                                "builtins.str:'LazilyIndexedWrapper', builtins.str:'Array'), "
                                "builtins.str:'innermost-is-source': builtins.bool:True, "
                                "builtins.str:'shape': tuple(builtins.int:4, builtins.int:1), "
                                "builtins.str:'dtype': builtins.str:'uint16', builtins.str:'lock': "
                                "builtins.str:'SerializableLock', builtins.str:'wrapper-shape': "
                                'tuple(builtins.int:4, builtins.int:1), '
                                "builtins.str:'wrapper-dtype': builtins.str:'uint16', "
                                "builtins.str:'key': builtins.str:'BasicIndexer((slice(None, None, "
                                "None), slice(None, None, None)))', builtins.str:'first': "
                                "ndarray[<u2|(1,)|3c00], builtins.str:'values': ndarray[<u2|(4, "
                                "1)|3c009c004d007900], builtins.str:'sub': ndarray[<u2|(3, "
                                '1)|9c004d007900]}',
 "enc-array-uint16-'7B'-5x3": "dict{builtins.str:'preferred_chunksizes': dict{builtins.str:'rows': "
                              "numpy.int64(np.int64(1)), builtins.str:'cols': builtins.int:3}}",
 "var-array-uint16-'7B'-5x3": "dict{builtins.str:'type': builtins.str:'Variable', "
                              "builtins.str:'dims': tuple(builtins.str:'rows', "
                              "builtins.str:'cols'), builtins.str:'attrs': "
                              "dict{builtins.str:'units': builtins.str:'1', builtins.str:'n': "
                              "builtins.int:5}, builtins.str:'attrs-copied': builtins.bool:True, "
                              "builtins.str:'encoding': dict{builtins.str:'preferred_chunksizes': "
                              "dict{builtins.str:'rows': numpy.int64(np.int64(1)), "
                              "builtins.str:'cols': builtins.int:3}}, builtins.str:'layers': "
                              "list(builtins.str:'LazilyIndexedArray', "
                              "builtins.str:'LazilyIndexedWrapper', builtins.str:'Array'), "
                              "builtins.str:'innermost-is-source': builtins.bool:True, "
                              "builtins.str:'shape': tuple(builtins.int:5, builtins.int:3), "
                              "builtins.str:'dtype': builtins.str:'uint16', builtins.str:'lock': "
                              "builtins.str:'SerializableLock', builtins.str:'wrapper-shape': "
                              'tuple(builtins.int:5, builtins.int:3), '
                              "builtins.str:'wrapper-dtype': builtins.str:'uint16', "
                              "builtins.str:'key': builtins.str:'BasicIndexer((slice(None, None, "
                              "None), slice(None, None, None)))', builtins.str:'first': "
                              "ndarray[<u2|(3,)|490091004f00], builtins.str:'values': "
                              'ndarray[<u2|(5, '
                              '3)|490091004f000300be00c4007b00900006006c003d002f005a0079002000], '
                              "builtins.str:'sub': ndarray[<u2|(4, "
                              '2)|0300c4007b0006006c002f005a002000]}',
 "enc-array-uint16-'7B'-1x4": "dict{builtins.str:'preferred_chunksizes': dict{builtins.str:'rows': "
                              "numpy.int64(np.int64(1)), builtins.str:'cols': builtins.int:4}}",
 "var-array-uint16-'7B'-1x4": "dict{builtins.str:'type': builtins.str:'Variable', "
                              "builtins.str:'dims': tuple(builtins.str:'rows', "
                              "builtins.str:'cols'), builtins.str:'attrs': "
                              "dict{builtins.str:'units': builtins.str:'1', builtins.str:'n': "
                              "builtins.int:1}, builtins.str:'attrs-copied': builtins.bool:True, "
                              "builtins.str:'encoding': dict{builtins.str:'preferred_chunksizes': "
                              "dict{builtins.str:'rows': numpy.int64(np.int64(1)), "
                              "builtins.str:'cols': builtins.int:4}}, builtins.str:'layers': "
                              "list(builtins.str:'LazilyIndexedArray', "
                              "builtins.str:'LazilyIndexedWrapper', builtins.str:'Array'), "
                              "builtins.str:'innermost-is-source': builtins.bool:True, "
                              "builtins.str:'shape': tuple(builtins.int:1, builtins.int:4), "
                              "builtins.str:'dtype': builtins.str:'uint16', builtins.str:'lock': "
                              "builtins.str:'SerializableLock', builtins.str:'wrapper-shape': "
                              'tuple(builtins.int:1, builtins.int:4), '
                              "builtins.str:'wrapper-dtype': builtins.str:'uint16', "
                              "builtins.str:'key': builtins.str:'BasicIndexer((slice(None, None, "
                              "None), slice(None, None, None)))', builtins.str:'first': "
                              "ndarray[<u2|(4,)|0a00740087006900], builtins.str:'values': "
                              "ndarray[<u2|(1, 4)|0a00740087006900], builtins.str:'sub': "
                              'ndarray[<u2|(0, 2)|]}',
 "enc-array-uint16-'7B'-4x1": "dict{builtins.str:'preferred_chunksizes': dict{builtins.str:'rows': "
                              "numpy.int64(np.int64(3)), builtins.str:'cols': builtins.int:1}}",
 "var-array-uint16-'7B'-4x1": "dict{builtins.str:'type': builtins.str:'Variable', "
                              "builtins.str:'dims': tuple(builtins.str:'rows', "
                              "builtins.str:'cols'), builtins.str:'attrs': "
                              "dict{builtins.str:'units': builtins.str:'1', builtins.str:'n': "
                              "builtins.int:4}, builtins.str:'attrs-copied': builtins.bool:True, "
                              "builtins.str:'encoding': dict{builtins.str:'preferred_chunksizes': "
                              "dict{builtins.str:'rows': numpy.int64(np.int64(3)), "
                              "builtins.str:'cols': builtins.int:1}}, builtins.str:'layers': "
                              "list(builtins.str:'LazilyIndexedArray', "
                              "builtins.str:'LazilyIndexedWrapper', builtins.str:'Array'), "
                              "builtins.str:'innermost-is-source': builtins.bool:True, "
                              "builtins.str:'shape': tuple(builtins.int:4, builtins.int:1), "
                              "builtins.str:'dtype': builtins.str:'uint16', builtins.str:'lock': "
                              "builtins.str:'SerializableLock', builtins.str:'wrapper-shape': "
                              'tuple(builtins.int:4, builtins.int:1), '
                              "builtins.str:'wrapper-dtype': builtins.str:'uint16', "
                              "builtins.str:'key': builtins.str:'BasicIndexer((slice(None, None, "
                              "None), slice(None, None, None)))', builtins.str:'first': "
                              "ndarray[<u2|(1,)|3c00], builtins.str:'values': ndarray[<u2|(4, "
                              "1)|3c009c004d007900], builtins.str:'sub': ndarray[<u2|(3, "
                              '1)|9c004d007900]}',
 'enc-array-complex64-None-5x3': "dict{builtins.str:'preferred_chunksizes': "
                                 "dict{builtins.str:'rows': builtins.int:1024, "
                                 "builtins.str:'cols': builtins.int:3}}",
 'var-array-complex64-None-5x3': "dict{builtins.str:'type': builtins.str:'Variable', "
                                 "builtins.str:'dims': tuple(builtins.str:'rows', "
                                 "builtins.str:'cols'), builtins.str:'attrs': "
                                 "dict{builtins.str:'units': builtins.str:'1', builtins.str:'n': "
                                 "builtins.int:5}, builtins.str:'attrs-copied': "
                                 "builtins.bool:True, builtins.str:'encoding': "
                                 "dict{builtins.str:'preferred_chunksizes': "
                                 "dict{builtins.str:'rows': builtins.int:1024, "
                                 "builtins.str:'cols': builtins.int:3}}, builtins.str:'layers': "
                                 "list(builtins.str:'LazilyIndexedArray', "
                                 "builtins.str:'LazilyIndexedWrapper', builtins.str:'Array'), "
                                 "builtins.str:'innermost-is-source': builtins.bool:True, "
                                 "builtins.str:'shape': tuple(builtins.int:5, builtins.int:3), "
                                 "builtins.str:'dtype': builtins.str:'complex64', "
                                 "builtins.str:'lock': builtins.str:'SerializableLock', "
                                 "builtins.str:'wrapper-shape': tuple(builtins.int:5, "
                                 "builtins.int:3), builtins.str:'wrapper-dtype': "
                                 "builtins.str:'complex64', builtins.str:'key': "
                                 "builtins.str:'BasicIndexer((slice(None, None, None), slice(None, "
                                 "None, None)))', builtins.str:'first': "
                                 'ndarray[<c8|(3,)|0000924200000000000011430000000000009e4200000000], '
                                 "builtins.str:'values': ndarray[<c8|(5, "
                                 '3)|0000924200000000000011430000000000009e4200000000000040400000000000003e430000000000004443000000000000f6420000000000001043000000000000c040000000000000d84200000000000074420000000000003c42000000000000b442000000000000f242000000000000004200000000], '
                                 "builtins.str:'sub': ndarray[<c8|(4, "
                                 '2)|000040400000000000004443000000000000f642000000000000c040000000000000d8420000000000003c42000000000000b442000000000000004200000000]}',
 'enc-array-complex64-None-1x4': "dict{builtins.str:'preferred_chunksizes': "
                                 "dict{builtins.str:'rows': builtins.int:1024, "
                                 "builtins.str:'cols': builtins.int:4}}",
 'var-array-complex64-None-1x4': "dict{builtins.str:'type': builtins.str:'Variable', "
                                 "builtins.str:'dims': tuple(builtins.str:'rows', "
                                 "builtins.str:'cols'), builtins.str:'attrs': "
                                 "dict{builtins.str:'units': builtins.str:'1', builtins.str:'n': "
                                 "builtins.int:1}, builtins.str:'attrs-copied': "
                                 "builtins.bool:True, builtins.str:'encoding': "
                                 "dict{builtins.str:'preferred_chunksizes': "
                                 "dict{builtins.str:'rows': builtins.int:1024, "
                                 "builtins.str:'cols': builtins.int:4}}, builtins.str:'layers': "
                                 "list(builtins.str:'LazilyIndexedArray', "
                                 "builtins.str:'LazilyIndexedWrapper', builtins.str:'Array'), "
                                 "builtins.str:'innermost-is-source': builtins.bool:True, "
                                 "builtins.str:'shape': tuple(builtins.int:1, builtins.int:4), "
                                 "builtins.str:'dtype': builtins.str:'complex64', "
                                 "builtins.str:'lock': builtins.str:'SerializableLock', "
                                 "builtins.str:'wrapper-shape': tuple(builtins.int:1, "
                                 "builtins.int:4), builtins.str:'wrapper-dtype': "
                                 "builtins.str:'complex64', builtins.str:'key': "
                                 "builtins.str:'BasicIndexer((slice(None, None, None), slice(None, "
                                 "None, None)))', builtins.str:'first': "
                                 'ndarray[<c8|(4,)|00002041000000000000e8420000000000000743000000000000d24200000000], '
                                 "builtins.str:'values': ndarray[<c8|(1, "
                                 '4)|00002041000000000000e8420000000000000743000000000000d24200000000], '
                                 "builtins.str:'sub': ndarray[<c8|(0, 2)|]}",
 'enc-array-complex64-None-4x1': "dict{builtins.str:'preferred_chunksizes': "
                                 "dict{builtins.str:'rows': builtins.int:1024, "
                                 "builtins.str:'cols': builtins.int:1}}",
 'var-array-complex64-None-4x1': "dict{builtins.str:'type': builtins.str:'Variable', "
                                 "builtins.str:'dims': tuple(builtins.str:'rows', "
                                 "builtins.str:'cols'), builtins.str:'attrs': "
                                 "dict{builtins.str:'units': builtins.str:'1', builtins.str:'n': "
                                 "builtins.int:4}, builtins.str:'attrs-copied': "
                                 "builtins.bool:True, builtins.str:'encoding': "
                                 "dict{builtins.str:'preferred_chunksizes': "
                                 "dict{builtins.str:'rows': builtins.int:1024, "
                                 "builtins.str:'cols': builtins.int:1}}, builtins.str:'layers': "
                                 "list(builtins.str:'LazilyIndexedArray', "
                                 "builtins.str:'LazilyIndexedWrapper', builtins.str:'Array'), "
                                 "builtins.str:'innermost-is-source': builtins.bool:True, "
                                 "builtins.str:'shape': tuple(builtins.int:4, builtins.int:1), "
                                 "builtins.str:'dtype': builtins.str:'complex64', "
                                 "builtins.str:'lock': builtins.str:'SerializableLock', "
                                 "builtins.str:'wrapper-shape': tuple(builtins.int:4, "
                                 "builtins.int:1), builtins.str:'wrapper-dtype': "
                                 "builtins.str:'complex64', builtins.str:'key': "
                                 "builtins.str:'BasicIndexer((slice(None, None, None), slice(None, "
                                 "None, None)))', builtins.str:'first': "
                                 "ndarray[<c8|(1,)|0000704200000000], builtins.str:'values': "
                                 'ndarray[<c8|(4, '
                                 '1)|000070420000000000001c430000000000009a42000000000000f24200000000], '
                                 "builtins.str:'sub': ndarray[<c8|(3, "
                                 '1)|00001c430000000000009a42000000000000f24200000000]}',
 'enc-array-complex64--1-5x3': "dict{builtins.str:'preferred_chunksizes': "
                               "dict{builtins.str:'rows': builtins.int:5, builtins.str:'cols': "
                               'builtins.int:3}}',
 'var-array-complex64--1-5x3': "dict{builtins.str:'type': builtins.str:'Variable', "
                               "builtins.str:'dims': tuple(builtins.str:'rows', "
                               "builtins.str:'cols'), builtins.str:'attrs': "
                               "dict{builtins.str:'units': builtins.str:'1', builtins.str:'n': "
                               "builtins.int:5}, builtins.str:'attrs-copied': builtins.bool:True, "
                               "builtins.str:'encoding': dict{builtins.str:'preferred_chunksizes': "
                               "dict{builtins.str:'rows': builtins.int:5, builtins.str:'cols': "
                               "builtins.int:3}}, builtins.str:'layers': "
                               "list(builtins.str:'LazilyIndexedArray', "
                               "builtins.str:'LazilyIndexedWrapper', builtins.str:'Array'), "
                               "builtins.str:'innermost-is-source': builtins.bool:True, "
                               "builtins.str:'shape': tuple(builtins.int:5, builtins.int:3), "
                               "builtins.str:'dtype': builtins.str:'complex64', "
                               "builtins.str:'lock': builtins.str:'SerializableLock', "
                               "builtins.str:'wrapper-shape': tuple(builtins.int:5, "
                               "builtins.int:3), builtins.str:'wrapper-dtype': "
                               "builtins.str:'complex64', builtins.str:'key': "
                               "builtins.str:'BasicIndexer((slice(None, None, None), slice(None, "
                               "None, None)))', builtins.str:'first': "
                               'ndarray[<c8|(3,)|0000924200000000000011430000000000009e4200000000], '
                               "builtins.str:'values': ndarray[<c8|(5, "
                               '3)|0000924200000000000011430000000000009e4200000000000040400000000000003e430000000000004443000000000000f6420000000000001043000000000000c040000000000000d84200000000000074420000000000003c42000000000000b442000000000000f242000000000000004200000000], '
                               "builtins.str:'sub': ndarray[<c8|(4, "
                               '2)|000040400000000000004443000000000000f642000000000000c040000000000000d8420000000000003c42000000000000b442000000000000004200000000]}',
 'enc-array-complex64--1-1x4': "dict{builtins.str:'preferred_chunksizes': "
                               "dict{builtins.str:'rows': builtins.int:1, builtins.str:'cols': "
                               'builtins.int:4}}',
 'var-array-complex64--1-1x4': "dict{builtins.str:'type': builtins.str:'Variable', "
                               "builtins.str:'dims': tuple(builtins.str:'rows', "
                               "builtins.str:'cols'), builtins.str:'attrs': "
                               "dict{builtins.str:'units': builtins.str:'1', builtins.str:'n': "
                               "builtins.int:1}, builtins.str:'attrs-copied': builtins.bool:True, "
                               "builtins.str:'encoding': dict{builtins.str:'preferred_chunksizes': "
                               "dict{builtins.str:'rows': builtins.int:1, builtins.str:'cols': "
                               "builtins.int:4}}, builtins.str:'layers': "
                               "list(builtins.str:'LazilyIndexedArray', "
                               "builtins.str:'LazilyIndexedWrapper', builtins.str:'Array'), "
                               "builtins.str:'innermost-is-source': builtins.bool:True, "
                               "builtins.str:'shape': tuple(builtins.int:1, builtins.int:4), "
                               "builtins.str:'dtype': builtins.str:'complex64', "
                               "builtins.str:'lock': builtins.str:'SerializableLock', "
                               "builtins.str:'wrapper-shape': tuple(builtins.int:1, "
                               "builtins.int:4), builtins.str:'wrapper-dtype': "
                               "builtins.str:'complex64', builtins.str:'key': "
                               "builtins.str:'BasicIndexer((slice(None, None, None), slice(None, "
                               "None, None)))', builtins.str:'first': "
                               'ndarray[<c8|(4,)|00002041000000000000e8420000000000000743000000000000d24200000000], '
                               "builtins.str:'values': ndarray[<c8|(1, "
                               '4)|00002041000000000000e8420000000000000743000000000000d24200000000], '
                               "builtins.str:'sub': ndarray[<c8|(0, 2)|]}",
 'enc-array-complex64--1-4x1': "dict{builtins.str:'preferred_chunksizes': "
                               "dict{builtins.str:'rows': builtins.int:4, builtins.str:'cols': "
                               'builtins.int:1}}',
 'var-array-complex64--1-4x1': "dict{builtins.str:'type': builtins.str:'Variable', "
                               "builtins.str:'dims': tuple(builtins.str:'rows', "
                               "builtins.str:'cols'), builtins.str:'attrs': "
                               "dict{builtins.str:'units': builtins.str:'1', builtins.str:'n': "
                               "builtins.int:4}, builtins.str:'attrs-copied': builtins.bool:True, "
                               "builtins.str:'encoding': dict{builtins.str:'preferred_chunksizes': "
                               "dict{builtins.str:'rows': builtins.int:4, builtins.str:'cols': "
                               "builtins.int:1}}, builtins.str:'layers': "
                               "list(builtins.str:'LazilyIndexedArray', "
                               "builtins.str:'LazilyIndexedWrapper', builtins.str:'Array'), "
                               "builtins.str:'innermost-is-source': builtins.bool:True, "
                               "builtins.str:'shape': tuple(builtins.int:4, builtins.int:1), "
                               "builtins.str:'dtype': builtins.str:'complex64', "
                               "builtins.str:'lock': builtins.str:'SerializableLock', "
                               "builtins.str:'wrapper-shape': tuple(builtins.int:4, "
                               "builtins.int:1), builtins.str:'wrapper-dtype': "
                               "builtins.str:'complex64', builtins.str:'key': "
                               "builtins.str:'BasicIndexer((slice(None, None, None), slice(None, "
                               "None, None)))', builtins.str:'first': "
                               "ndarray[<c8|(1,)|0000704200000000], builtins.str:'values': "
                               'ndarray[<c8|(4, '
                               '1)|000070420000000000001c430000000000009a42000000000000f24200000000], '
                               "builtins.str:'sub': ndarray[<c8|(3, "
                               '1)|00001c430000000000009a42000000000000f24200000000]}',
 'enc-array-complex64-1-5x3': "dict{builtins.str:'preferred_chunksizes': dict{builtins.str:'rows': "
                              "builtins.int:1, builtins.str:'cols': builtins.int:3}}",
 'var-array-complex64-1-5x3': "dict{builtins.str:'type': builtins.str:'Variable', "
                              "builtins.str:'dims': tuple(builtins.str:'rows', "
                              "builtins.str:'cols'), builtins.str:'attrs': "
                              "dict{builtins.str:'units': builtins.str:'1', builtins.str:'n': "
                              "builtins.int:5}, builtins.str:'attrs-copied': builtins.bool:True, "
                              "builtins.str:'encoding': dict{builtins.str:'preferred_chunksizes': "
                              "dict{builtins.str:'rows': builtins.int:1, builtins.str:'cols': "
                              "builtins.int:3}}, builtins.str:'layers': "
                              "list(builtins.str:'LazilyIndexedArray', "
                              "builtins.str:'LazilyIndexedWrapper', builtins.str:'Array'), "
                              "builtins.str:'innermost-is-source': builtins.bool:True, "
                              "builtins.str:'shape': tuple(builtins.int:5, builtins.int:3), "
                              "builtins.str:'dtype': builtins.str:'complex64', "
                              "builtins.str:'lock': builtins.str:'SerializableLock', "
                              "builtins.str:'wrapper-shape': tuple(builtins.int:5, "
                              "builtins.int:3), builtins.str:'wrapper-dtype': "
                              "builtins.str:'complex64', builtins.str:'key': "
                              "builtins.str:'BasicIndexer((slice(None, None, None), slice(None, "
                              "None, None)))', builtins.str:'first': "
                              'ndarray[<c8|(3,)|0000924200000000000011430000000000009e4200000000], '
                              "builtins.str:'values': ndarray[<c8|(5, "
                              '3)|0000924200000000000011430000000000009e4200000000000040400000000000003e430000000000004443000000000000f6420000000000001043000000000000c040000000000000d84200000000000074420000000000003c42000000000000b442000000000000f242000000000000004200000000], '
                              "builtins.str:'sub': ndarray[<c8|(4, "
                              '2)|000040400000000000004443000000000000f642000000000000c040000000000000d8420000000000003c42000000000000b442000000000000004200000000]}',
 'enc-array-complex64-1-1x4': "dict{builtins.str:'preferred_chunksizes': dict{builtins.str:'rows': "
                              "builtins.int:1, builtins.str:'cols': builtins.int:4}}",
 'var-array-complex64-1-1x4': "dict{builtins.str:'type': builtins.str:'Variable', "
                              "builtins.str:'dims': tuple(builtins.str:'rows', "
                              "builtins.str:'cols'), builtins.str:'attrs': "
                              "dict{builtins.str:'units': builtins.str:'1', builtins.str:'n': "
                              "builtins.int:1}, builtins.str:'attrs-copied': builtins.bool:True, "
                              "builtins.str:'encoding': dict{builtins.str:'preferred_chunksizes': "
                              "dict{builtins.str:'rows': builtins.int:1, builtins.str:'cols': "
                              "builtins.int:4}}, builtins.str:'layers': "
                              "list(builtins.str:'LazilyIndexedArray', "
                              "builtins.str:'LazilyIndexedWrapper', builtins.str:'Array'), "
                              "builtins.str:'innermost-is-source': builtins.bool:True, "
                              "builtins.str:'shape': tuple(builtins.int:1, builtins.int:4), "
                              "builtins.str:'dtype': builtins.str:'complex64', "
                              "builtins.str:'lock': builtins.str:'SerializableLock', "
                              "builtins.str:'wrapper-shape': tuple(builtins.int:1, "
                              "builtins.int:4), builtins.str:'wrapper-dtype': "
                              "builtins.str:'complex64', builtins.str:'key': "
                              "builtins.str:'BasicIndexer((slice(None, None, None), slice(None, "
                              "None, None)))', builtins.str:'first': "
                              'ndarray[<c8|(4,)|00002041000000000000e8420000000000000743000000000000d24200000000], '
                              "builtins.str:'values': ndarray[<c8|(1, "
                              '4)|00002041000000000000e8420000000000000743000000000000d24200000000], '
                              "builtins.str:'sub': ndarray[<c8|(0, 2)|]}",
 'enc-array-complex64-1-4x1': "dict{builtins.str:'preferred_chunksizes': dict{builtins.str:'rows': "
                              "builtins.int:1, builtins.str:'cols': builtins.int:1}}",
 'var-array-complex64-1-4x1': "dict{builtins.str:'type': builtins.str:'Variable', "
                              "builtins.str:'dims': tuple(builtins.str:'rows', "
                              "builtins.str:'cols'), builtins.str:'attrs': "
                              "dict{builtins.str:'units': builtins.str:'1', builtins.str:'n': "
                              "builtins.int:4}, builtins.str:'attrs-copied': builtins.bool:True, "
                              "builtins.str:'encoding': dict{builtins.str:'preferred_chunksizes': "
                              "dict{builtins.str:'rows': builtins.int:1, builtins.str:'cols': "
                              "builtins.int:1}}, builtins.str:'layers': "
                              "list(builtins.str:'LazilyIndexedArray', "
                              "builtins.str:'LazilyIndexedWrapper', builtins.str:'Array'), "
                              "builtins.str:'innermost-is-source': builtins.bool:True, "
                              "builtins.str:'shape': tuple(builtins.int:4, builtins.int:1), "
                              "builtins.str:'dtype': builtins.str:'complex64', "
                              "builtins.str:'lock': builtins.str:'SerializableLock', "
                              "builtins.str:'wrapper-shape': tuple(builtins.int:4, "
                              "builtins.int:1), builtins.str:'wrapper-dtype': "
                              "builtins.str:'complex64', builtins.str:'key': "
                              "builtins.str:'BasicIndexer((slice(None, None, None), slice(None, "
                              "None, None)))', builtins.str:'first': "
                              "ndarray[<c8|(1,)|0000704200000000], builtins.str:'values': "
                              'ndarray[<c8|(4, '
                              '1)|000070420000000000001c430000000000009a42000000000000f24200000000], '
                              "builtins.str:'sub': ndarray[<c8|(3, "
                              '1)|00001c430000000000009a42000000000000f24200000000]}',
 'enc-array-complex64-2-5x3': "dict{builtins.str:'preferred_chunksizes': dict{builtins.str:'rows': "
                              "builtins.int:2, builtins.str:'cols': builtins.int:3}}",
 'var-array-complex64-2-5x3': "dict{builtins.str:'type': builtins.str:'Variable', "
                              "builtins.str:'dims': tuple(builtins.str:'rows', "
                              "builtins.str:'cols'), builtins.str:'attrs': "
                              "dict{builtins.str:'units': builtins.str:'1', builtins.str:'n': "
                              "builtins.int:5}, builtins.str:'attrs-copied': builtins.bool:True, "
                              "builtins.str:'encoding': dict{builtins.str:'preferred_chunksizes': "
                              "dict{builtins.str:'rows': builtins.int:2, builtins.str:'cols': "
                              "builtins.int:3}}, builtins.str:'layers': "
                              "list(builtins.str:'LazilyIndexedArray', "
                              "builtins.str:'LazilyIndexedWrapper', builtins.str:'Array'), "
                              "builtins.str:'innermost-is-source': builtins.bool:True, "
                              "builtins.str:'shape': tuple(builtins.int:5, builtins.int:3), "
                              "builtins.str:'dtype': builtins.str:'complex64', "
                              "builtins.str:'lock': builtins.str:'SerializableLock', "
                              "builtins.str:'wrapper-shape': tuple(builtins.int:5, "
                              "builtins.int:3), builtins.str:'wrapper-dtype': "
                              "builtins.str:'complex64', builtins.str:'key': "
                              "builtins.str:'BasicIndexer((slice(None, None, None), slice(None, "
                              "None, None)))', builtins.str:'first': "
                              'ndarray[<c8|(3,)|0000924200000000000011430000000000009e4200000000], '
                              "builtins.str:'values': ndarray[<c8|(5, "
                              '3)|0000924200000000000011430000000000009e4200000000000040400000000000003e430000000000004443000000000000f6420000000000001043000000000000c040000000000000d84200000000000074420000000000003c42000000000000b442000000000000f242000000000000004200000000], '
                              "builtins.str:'sub': ndarray[<c8|(4, "
                              '2)|000040400000000000004443000000000000f642000000000000c040000000000000d8420000000000003c42000000000000b442000000000000004200000000]}',
 'enc-array-complex64-2-1x4': "dict{builtins.str:'preferred_chunksizes': dict{builtins.str:'rows': "
                              "builtins.int:1, builtins.str:'cols': builtins.int:4}}",
 'var-array-complex64-2-1x4': "dict{builtins.str:'type': builtins.str:'Variable', "
                              "builtins.str:'dims': tuple(builtins.str:'rows', "
                              "builtins.str:'cols'), builtins.str:'attrs': "
                              "dict{builtins.str:'units': builtins.str:'1', builtins.str:'n': "
                              "builtins.int:1}, builtins.str:'attrs-copied': builtins.bool:True, "
                              "builtins.str:'encoding': dict{builtins.str:'preferred_chunksizes': "
                              "dict{builtins.str:'rows': builtins.int:1, builtins.str:'cols': "
                              "builtins.int:4}}, builtins.str:'layers': "
                              "list(builtins.str:'LazilyIndexedArray', "
                              "builtins.str:'LazilyIndexedWrapper', builtins.str:'Array'), "
                              "builtins.str:'innermost-is-source': builtins.bool:True, "
                              "builtins.str:'shape': tuple(builtins.int:1, builtins.int:4), "
                              "builtins.str:'dtype': builtins.str:'complex64', "
                              "builtins.str:'lock': builtins.str:'SerializableLock', "
                              "builtins.str:'wrapper-shape': tuple(builtins.int:1, "
                              "builtins.int:4), builtins.str:'wrapper-dtype': "
                              "builtins.str:'complex64', builtins.str:'key': "
                              "builtins.str:'BasicIndexer((slice(None, None, None), slice(None, "
                              "None, None)))', builtins.str:'first': "
                              'ndarray[<c8|(4,)|00002041000000000000e8420000000000000743000000000000d24200000000], '
                              "builtins.str:'values': ndarray[<c8|(1, "
                              '4)|00002041000000000000e8420000000000000743000000000000d24200000000], '
                              "builtins.str:'sub': ndarray[<c8|(0, 2)|]}",
 'enc-array-complex64-2-4x1': "dict{builtins.str:'preferred_chunksizes': dict{builtins.str:'rows': "
                              "builtins.int:2, builtins.str:'cols': builtins.int:1}}",
 'var-array-complex64-2-4x1': "dict{builtins.str:'type': builtins.str:'Variable', "
                              "builtins.str:'dims': tuple(builtins.str:'rows', "
                              "builtins.str:'cols'), builtins.str:'attrs': "
                              "dict{builtins.str:'units': builtins.str:'1', builtins.str:'n': "
                              "builtins.int:4}, builtins.str:'attrs-copied': builtins.bool:True, "
                              "builtins.str:'encoding': dict{builtins.str:'preferred_chunksizes': "
                              "dict{builtins.str:'rows': builtins.int:2, builtins.str:'cols': "
                              "builtins.int:1}}, builtins.str:'layers': "
                              "list(builtins.str:'LazilyIndexedArray', "
                              "builtins.str:'LazilyIndexedWrapper', builtins.str:'Array'), "
                              "builtins.str:'innermost-is-source': builtins.bool:True, "
                              "builtins.str:'shape': tuple(builtins.int:4, builtins.int:1), "
                              "builtins.str:'dtype': builtins.str:'complex64', "
                              "builtins.str:'lock': builtins.str:'SerializableLock', "
                              "builtins.str:'wrapper-shape': tuple(builtins.int:4, "
                              "builtins.int:1), builtins.str:'wrapper-dtype': "
                              "builtins.str:'complex64', builtins.str:'key': "
                              "builtins.str:'BasicIndexer((slice(None, None, None), slice(None, "
                              "None, None)))', builtins.str:'first': "
                              "ndarray[<c8|(1,)|0000704200000000], builtins.str:'values': "
                              'ndarray[<c8|(4, '
                              '1)|000070420000000000001c430000000000009a42000000000000f24200000000], '
                              "builtins.str:'sub': ndarray[<c8|(3, "
                              '1)|00001c430000000000009a42000000000000f24200000000]}',
 'enc-array-complex64-5-5x3': "dict{builtins.str:'preferred_chunksizes': dict{builtins.str:'rows': "
                              "builtins.int:5, builtins.str:'cols': builtins.int:3}}",
 'var-array-complex64-5-5x3': "dict{builtins.str:'type': builtins.str:'Variable', "
                              "builtins.str:'dims': tuple(builtins.str:'rows', "
                              "builtins.str:'cols'), builtins.str:'attrs': "
                              "dict{builtins.str:'units': builtins.str:'1', builtins.str:'n': "
                              "builtins.int:5}, builtins.str:'attrs-copied': builtins.bool:True, "
                              "builtins.str:'encoding': dict{builtins.str:'preferred_chunksizes': "
                              "dict{builtins.str:'rows': builtins.int:5, builtins.str:'cols': "
                              "builtins.int:3}}, builtins.str:'layers': "
                              "list(builtins.str:'LazilyIndexedArray', "
                              "builtins.str:'LazilyIndexedWrapper', builtins.str:'Array'), "
                              "builtins.str:'innermost-is-source': builtins.bool:True, "
                              "builtins.str:'shape': tuple(builtins.int:5, builtins.int:3), "
                              "builtins.str:'dtype': builtins.str:'complex64', "
                              "builtins.str:'lock': builtins.str:'SerializableLock', "
                              "builtins.str:'wrapper-shape': tuple(builtins.int:5, "
                              "builtins.int:3), builtins.str:'wrapper-dtype': "
                              "builtins.str:'complex64', builtins.str:'key': "
                              "builtins.str:'BasicIndexer((slice(None, None, None), slice(None, "
                              "None, None)))', builtins.str:'first': "
                              'ndarray[<c8|(3,)|0000924200000000000011430000000000009e4200000000], '
                              "builtins.str:'values': ndarray[<c8|(5, "
                              '3)|0000924200000000000011430000000000009e4200000000000040400000000000003e430000000000004443000000000000f6420000000000001043000000000000c040000000000000d84200000000000074420000000000003c42000000000000b442000000000000f242000000000000004200000000], '
                              "builtins.str:'sub': ndarray[<c8|(4, "
                              '2)|000040400000000000004443000000000000f642000000000000c040000000000000d8420000000000003c42000000000000b442000000000000004200000000]}',
 'enc-array-complex64-5-1x4': "dict{builtins.str:'preferred_chunksizes': dict{builtins.str:'rows': "
                              "builtins.int:1, builtins.str:'cols': builtins.int:4}}",
 'var-array-complex64-5-1x4': "dict{builtins.str:'type': builtins.str:'Variable', "
                              "builtins.str:'dims': tuple(builtins.str:'rows', "
                              "builtins.str:'cols'), builtins.str:'attrs': "
                              "dict{builtins.str:'units': builtins.str:'1', builtins.str:'n': "
                              "builtins.int:1}, builtins.str:'attrs-copied': builtins.bool:True, "
                              "builtins.str:'encoding': dict{builtins.str:'preferred_chunksizes': "
                              "dict{builtins.str:'rows': builtins.int:1, builtins.str:'cols': "
                              "builtins.int:4}}, builtins.str:'layers': "
                              "list(builtins.str:'LazilyIndexedArray', "
                              "builtins.str:'LazilyIndexedWrapper', builtins.str:'Array'), "
                              "builtins.str:'innermost-is-source': builtins.bool:True, "
                              "builtins.str:'shape': tuple(builtins.int:1, builtins.int:4), "
                              "builtins.str:'dtype': builtins.str:'complex64', "
                              "builtins.str:'lock': builtins.str:'SerializableLock', "
                              "builtins.str:'wrapper-shape': tuple(builtins.int:1, "
                              "builtins.int:4), builtins.str:'wrapper-dtype': "
                              "builtins.str:'complex64', builtins.str:'key': "
                              "builtins.str:'BasicIndexer((slice(None, None, None), slice(None, "
                              "None, None)))', builtins.str:'first': "
                              'ndarray[<c8|(4,)|00002041000000000000e8420000000000000743000000000000d24200000000], '
                              "builtins.str:'values': ndarray[<c8|(1, "
                              '4)|00002041000000000000e8420000000000000743000000000000d24200000000], '
                              "builtins.str:'sub': ndarray[<c8|(0, 2)|]}",
 'enc-array-complex64-5-4x1': "dict{builtins.str:'preferred_chunksizes': dict{builtins.str:'rows': "
                              "builtins.int:4, builtins.str:'cols': builtins.int:1}}",
 'var-array-complex64-5-4x1': "dict{builtins.str:'type': builtins.str:'Variable', "
                              "builtins.str:'dims': tuple(builtins.str:'rows', "
                              "builtins.str:'cols'), builtins.str:'attrs': "
                              "dict{builtins.str:'units': builtins.str:'1', builtins.str:'n': "
                              "builtins.int:4}, builtins.str:'attrs-copied': builtins.bool:True, "
                              "builtins.str:'encoding': dict{builtins.str:'preferred_chunksizes': "
                              "dict{builtins.str:'rows': builtins.int:4, builtins.str:'cols': "
                              "builtins.int:1}}, builtins.str:'layers': "
                              "list(builtins.str:'LazilyIndexedArray', "
                              "builtins.str:'LazilyIndexedWrapper', builtins.str:'Array'), "
                              "builtins.str:'innermost-is-source': builtins.bool:True, "
                              "builtins.str:'shape': tuple(builtins.int:4, builtins.int:1), "
                              "builtins.str:'dtype': builtins.str:'complex64', "
                              "builtins.str:'lock': builtins.str:'SerializableLock', "
                              "builtins.str:'wrapper-shape': tuple(builtins.int:4, "
                              "builtins.int:1), builtins.str:'wrapper-dtype': "
                              "builtins.str:'complex64', builtins.str:'key': "
                              "builtins.str:'BasicIndexer((slice(None, None, None), slice(None, "
                              "None, None)))', builtins.str:'first': "
                              "ndarray[<c8|(1,)|0000704200000000], builtins.str:'values': "
                              'ndarray[<c8|(4, '
                              '1)|000070420000000000001c430000000000009a42000000000000f24200000000], '
                              "builtins.str:'sub': ndarray[<c8|(3, "
                              '1)|00001c430000000000009a42000000000000f24200000000]}',
 'enc-array-complex64-9-5x3': "dict{builtins.str:'preferred_chunksizes': dict{builtins.str:'rows': "
                              "builtins.int:5, builtins.str:'cols': builtins.int:3}}",
 'var-array-complex64-9-5x3': "dict{builtins.str:'type': builtins.str:'Variable', "
                              "builtins.str:'dims': tuple(builtins.str:'rows', "
                              "builtins.str:'cols'), builtins.str:'attrs': "
                              "dict{builtins.str:'units': builtins.str:'1', builtins.str:'n': "
                              "builtins.int:5}, builtins.str:'attrs-copied': builtins.bool:True, "
                              "builtins.str:'encoding': dict{builtins.str:'preferred_chunksizes': "
                              "dict{builtins.str:'rows': builtins.int:5, builtins.str:'cols': "
                              "builtins.int:3}}, builtins.str:'layers': "
                              "list(builtins.str:'LazilyIndexedArray', "
                              "builtins.str:'LazilyIndexedWrapper', builtins.str:'Array'), "
                              "builtins.str:'innermost-is-source': builtins.bool:True, "
                              "builtins.str:'shape': tuple(builtins.int:5, builtins.int:3), "
                              "builtins.str:'dtype': builtins.str:'complex64', "
                              "builtins.str:'lock': builtins.str:'SerializableLock', "
                              "builtins.str:'wrapper-shape': tuple(builtins.int:5, "
                              "builtins.int:3), builtins.str:'wrapper-dtype': "
                              "builtins.str:'complex64', builtins.str:'key': "
                              "builtins.str:'BasicIndexer((slice(None, None, None), slice(None, "
                              "None, None)))', builtins.str:'first': "
                              'ndarray[<c8|(3,)|0000924200000000000011430000000000009e4200000000], '
                              "builtins.str:'values': ndarray[<c8|(5, "
                              '3)|0000924200000000000011430000000000009e4200000000000040400000000000003e430000000000004443000000000000f6420000000000001043000000000000c040000000000000d84200000000000074420000000000003c42000000000000b442000000000000f242000000000000004200000000], '
                              "builtins.str:'sub': ndarray[<c8|(4, "
                              '2)|000040400000000000004443000000000000f642000000000000c040000000000000d8420000000000003c42000000000000b442000000000000004200000000]}',
 'enc-array-complex64-9-1x4': "dict{builtins.str:'preferred_chunksizes': dict{builtins.str:'rows': "
                              "builtins.int:1, builtins.str:'cols': builtins.int:4}}",
 'var-array-complex64-9-1x4': "dict{builtins.str:'type': builtins.str:'Variable', "
                              "builtins.str:'dims': tuple(builtins.str:'rows', "
                              "builtins.str:'cols'), builtins.str:'attrs': "
                              "dict{builtins.str:'units': builtins.str:'1', builtins.str:'n': "
                              "builtins.int:1}, builtins.str:'attrs-copied': builtins.bool:True, "
                              "builtins.str:'encoding': dict{builtins.str:'preferred_chunksizes': "
                              "dict{builtins.str:'rows': builtins.int:1, builtins.str:'cols': "
                              "builtins.int:4}}, builtins.str:'layers': "
                              "list(builtins.str:'LazilyIndexedArray', "
                              "builtins.str:'LazilyIndexedWrapper', builtins.str:'Array'), "
                              "builtins.str:'innermost-is-source': builtins.bool:True, "
                              "builtins.str:'shape': tuple(builtins.int:1, builtins.int:4), "
                              "builtins.str:'dtype': builtins.str:'complex64', "
                              "builtins.str:'lock': builtins.str:'SerializableLock', "
                              "builtins.str:'wrapper-shape': tuple(builtins.int:1, "
                              "builtins.int:4), builtins.str:'wrapper-dtype': "
                              "builtins.str:'complex64', builtins.str:'key': "
                              "builtins.str:'BasicIndexer((slice(None, None, None), slice(None, "
                              "None, None)))', builtins.str:'first': "
                              'ndarray[<c8|(4,)|00002041000000000000e8420000000000000743000000000000d24200000000], '
                              "builtins.str:'values': ndarray[<c8|(1, "
                              '4)|00002041000000000000e8420000000000000743000000000000d24200000000], '
                              "builtins.str:'sub': ndarray[<c8|(0, 2)|]}",
 'enc-array-complex64-9-4x1': "dict{builtins.str:'preferred_chunksizes': dict{builtins.str:'rows': "
                              "builtins.int:4, builtins.str:'cols': builtins.int:1}}",
 'var-array-complex64-9-4x1': "dict{builtins.str:'type': builtins.str:'Variable', "
                              "builtins.str:'dims': tuple(builtins.str:'rows', "
                              "builtins.str:'cols'), builtins.str:'attrs': "
                              "dict{builtins.str:'units': builtins.str:'1', builtins.str:'n': "
                              "builtins.int:4}, builtins.str:'attrs-copied': builtins.bool:True, "
                              "builtins.str:'encoding': dict{builtins.str:'preferred_chunksizes': "
                              "dict{builtins.str:'rows': builtins.int:4, builtins.str:'cols': "
                              "builtins.int:1}}, builtins.str:'layers': "
                              "list(builtins.str:'LazilyIndexedArray', "
                              "builtins.str:'LazilyIndexedWrapper', builtins.str:'Array'), "
                              "builtins.str:'innermost-is-source': builtins.bool:True, "
                              "builtins.str:'shape': tuple(builtins.int:4, builtins.int:1), "
                              "builtins.str:'dtype': builtins.str:'complex64', "
                              "builtins.str:'lock': builtins.str:'SerializableLock', "
                              "builtins.str:'wrapper-shape': tuple(builtins.int:4, "
                              "builtins.int:1), builtins.str:'wrapper-dtype': "
                              "builtins.str:'complex64', builtins.str:'key': "
                              "builtins.str:'BasicIndexer((slice(None, None, None), slice(None, "
                              "None, None)))', builtins.str:'first': "
                              "ndarray[<c8|(1,)|0000704200000000], builtins.str:'values': "
                              'ndarray[<c8|(4, '
                              '1)|000070420000000000001c430000000000009a42000000000000f24200000000], '
                              "builtins.str:'sub': ndarray[<c8|(3, "
                              '1)|00001c430000000000009a42000000000000f24200000000]}',
 "enc-array-complex64-'auto'-5x3": "dict{builtins.str:'preferred_chunksizes': "
                                   "dict{builtins.str:'rows': numpy.int64(np.int64(5)), "
                                   "builtins.str:'cols': builtins.int:3}}",
 "var-array-complex64-'auto'-5x3": "dict{builtins.str:'type': builtins.str:'Variable', "
                                   "builtins.str:'dims': tuple(builtins.str:'rows', "
                                   "builtins.str:'cols'), builtins.str:'attrs': "
                                   "dict{builtins.str:'units': builtins.str:'1', builtins.str:'n': "
                                   "builtins.int:5}, builtins.str:'attrs-copied': "
                                   "builtins.bool:True, builtins.str:'encoding': "
                                   "dict{builtins.str:'preferred_chunksizes': "
                                   "dict{builtins.str:'rows': numpy.int64(np.int64(5)), "
                                   "builtins.str:'cols': builtins.int:3}}, builtins.str:'layers': "
                                   "list(builtins.str:'LazilyIndexedArray', "
                                   "builtins.str:'LazilyIndexedWrapper', builtins.str:'Array'), "
                                   "builtins.str:'innermost-is-source': builtins.bool:True, "
                                   "builtins.str:'shape': tuple(builtins.int:5, builtins.int:3), "
                                   "builtins.str:'dtype': builtins.str:'complex64', "
                                   "builtins.str:'lock': builtins.str:'SerializableLock', "
                                   "builtins.str:'wrapper-shape': tuple(builtins.int:5, "
                                   "builtins.int:3), builtins.str:'wrapper-dtype': "
                                   "builtins.str:'complex64', builtins.str:'key': "
                                   "builtins.str:'BasicIndexer((slice(None, None, None), "
                                   "slice(None, None, None)))', builtins.str:'first': "
                                   'ndarray[<c8|(3,)|0000924200000000000011430000000000009e4200000000], '
                                   "builtins.str:'values': ndarray[<c8|(5, "
                                   '3)|0000924200000000000011430000000000009e4200000000000040400000000000003e430000000000004443000000000000f6420000000000001043000000000000c040000000000000d84200000000000074420000000000003c42000000000000b442000000000000f242000000000000004200000000], '
                                   "builtins.str:'sub': ndarray[<c8|(4, "
                                   '2)|000040400000000000004443000000000000f642000000000000c040000000000000d8420000000000003c42000000000000b442000000000000004200000000]}',
 "enc-array-complex64-'auto'-1x4": "dict{builtins.str:'preferred_chunksizes': "
                                   "dict{builtins.str:'rows': numpy.int64(np.int64(1)), "
                                   "builtins.str:'cols': builtins.int:4}}",
 "var-array-complex64-'auto'-1x4": "dict{builtins.str:'type': builtins.str:'Variable', "
                                   "builtins.str:'dims': tuple(builtins.str:'rows', "
                                   "builtins.str:'cols'), builtins.str:'attrs': "
                                   "dict{builtins.str:'units': builtins.str:'1', builtins.str:'n': "
                                   "builtins.int:1}, builtins.str:'attrs-copied': "
                                   "builtins.bool:True, builtins.str:'encoding': "
                                   "dict{builtins.str:'preferred_chunksizes': "
                                   "dict{builtins.str:'rows': numpy.int64(np.int64(1)), "
                                   "builtins.str:'cols': builtins.int:4}}, builtins.str:'layers': "
                                   "list(builtins.str:'LazilyIndexedArray', "
                                   "builtins.str:'LazilyIndexedWrapper', builtins.str:'Array'), "
                                   "builtins.str:'innermost-is-source': builtins.bool:True, "
                                   "builtins.str:'shape': tuple(builtins.int:1, builtins.int:4), "
                                   "builtins.str:'dtype': builtins.str:'complex64', "
                                   "builtins.str:'lock': builtins.str:'SerializableLock', "
                                   "builtins.str:'wrapper-shape': tuple(builtins.int:1, "
                                   "builtins.int:4), builtins.str:'wrapper-dtype': "
                                   "builtins.str:'complex64', builtins.str:'key': "
                                   "builtins.str:'BasicIndexer((slice(None, None, None), "
                                   "slice(None, None, None)))', builtins.str:'first': "
                                   'ndarray[<c8|(4,)|00002041000000000000e8420000000000000743000000000000d24200000000], '
                                   "builtins.str:'values': ndarray[<c8|(1, "
                                   '4)|00002041000000000000e8420000000000000743000000000000d24200000000], '
                                   "builtins.str:'sub': ndarray[<c8|(0, 2)|]}",
 "enc-array-complex64-'auto'-4x1": "dict{builtins.str:'preferred_chunksizes': "
                                   "dict{builtins.str:'rows': numpy.int64(np.int64(4)), "
                                   "builtins.str:'cols': builtins.int:1}}",
 "var-array-complex64-'auto'-4x1": "dict{builtins.str:'type': builtins.str:'Variable', "
                                   "builtins.str:'dims': tuple(builtins.str:'rows', "
                                   "builtins.str:'cols'), builtins.str:'attrs': "
                                   "dict{builtins.str:'units': builtins.str:'1', builtins.str:'n': "
                                   "builtins.int:4}, builtins.str:'attrs-copied': "
                                   "builtins.bool:True, builtins.str:'encoding': "
                                   "dict{builtins.str:'preferred_chunksizes': "
                                   "dict{builtins.str:'rows': numpy.int64(np.int64(4)), "
                                   "builtins.str:'cols': builtins.int:1}}, builtins.str:'layers': "
                                   "list(builtins.str:'LazilyIndexedArray', "
                                   "builtins.str:'LazilyIndexedWrapper', builtins.str:'Array'), "
                                   "builtins.str:'innermost-is-source': builtins.bool:True, "
                                   "builtins.str:'shape': tuple(builtins.int:4, builtins.int:1), "
                                   "builtins.str:'dtype': builtins.str:'complex64', "
                                   "builtins.str:'lock': builtins.str:'SerializableLock', "
                                   "builtins.str:'wrapper-shape': tuple(builtins.int:4, "
                                   "builtins.int:1), builtins.str:'wrapper-dtype': "
                                   "builtins.str:'complex64', builtins.str:'key': "
                                   "builtins.str:'BasicIndexer((slice(None, None, None), "
                                   "slice(None, None, None)))', builtins.str:'first': "
                                   "ndarray[<c8|(1,)|0000704200000000], builtins.str:'values': "
                                   'ndarray[<c8|(4, '
                                   '1)|000070420000000000001c430000000000009a42000000000000f24200000000], '
                                   "builtins.str:'sub': ndarray[<c8|(3, "
                                   '1)|00001c430000000000009a42000000000000f24200000000]}',
 "enc-array-complex64-'7B'-5x3": "dict{builtins.str:'preferred_chunksizes': "
                                 "dict{builtins.str:'rows': numpy.int64(np.int64(1)), "
                                 "builtins.str:'cols': builtins.int:3}}",
 "var-array-complex64-'7B'-5x3": "dict{builtins.str:'type': builtins.str:'Variable', "
                                 "builtins.str:'dims': tuple(builtins.str:'rows', "
                                 "builtins.str:'cols'), builtins.str:'attrs': "
                                 "dict{builtins.str:'units': builtins.str:'1', builtins.str:'n': "
                                 "builtins.int:5}, builtins.str:'attrs-copied': "
                                 "builtins.bool:True, builtins.str:'encoding': "
                                 "dict{builtins.str:'preferred_chunksizes': "
                                 "dict{builtins.str:'rows': numpy.int64(np.int64(1)), "
                                 "builtins.str:'cols': builtins.int:3}}, builtins.str:'layers': "
                                 "list(builtins.str:'LazilyIndexedArray', "
                                 "builtins.str:'LazilyIndexedWrapper', builtins.str:'Array'), "
                                 "builtins.str:'innermost-is-source': builtins.bool:True, "
                                 "builtins.str:'shape': tuple(builtins.int:5, builtins.int:3), "
                                 "builtins.str:'dtype': builtins.str:'complex64', "
                                 "builtins.str:'lock': builtins.str:'SerializableLock', "
                                 "builtins.str:'wrapper-shape': tuple(builtins.int:5, "
                                 "builtins.int:3), builtins.str:'wrapper-dtype': "
                                 "builtins.str:'complex64', builtins.str:'key': "
                                 "builtins.str:'BasicIndexer((slice(None, None, None), slice(None, "
                                 "None, None)))', builtins.str:'first': "
                                 'ndarray[<c8|(3,)|0000924200000000000011430000000000009e4200000000], '
                                 "builtins.str:'values': ndarray[<c8|(5, "
                                 '3)|0000924200000000000011430000000000009e4200000000000040400000000000003e430000000000004443000000000000f6420000000000001043000000000000c040000000000000d84200000000000074420000000000003c42000000000000b442000000000000f242000000000000004200000000], '
                                 "builtins.str:'sub': ndarray[<c8|(4, "
                                 '2)|000040400000000000004443000000000000f642000000000000c040000000000000d8420000000000003c42000000000000b442000000000000004200000000]}',
 "enc-array-complex64-'7B'-1x4": "dict{builtins.str:'preferred_chunksizes': "
                                 "dict{builtins.str:'rows': numpy.int64(np.int64(1)), "
                                 "builtins.str:'cols': builtins.int:4}}",
 "var-array-complex64-'7B'-1x4": "dict{builtins.str:'type': builtins.str:'Variable', "
                                 "builtins.str:'dims': tuple(builtins.str:'rows', "
                                 "builtins.str:'cols'), builtins.str:'attrs': "
                                 "dict{builtins.str:'units': builtins.str:'1', builtins.str:'n': "
                                 "builtins.int:1}, builtins.str:'attrs-copied': "
                                 "builtins.bool:True, builtins.str:'encoding': "
                                 "dict{builtins.str:'preferred_chunksizes': "
                                 "dict{builtins.str:'rows': numpy.int64(np.int64(1)), "
                                 "builtins.str:'cols': builtins.int:4}}, builtins.str:'layers': "
                                 "list(builtins.str:'LazilyIndexedArray', "
                                 "builtins.str:'LazilyIndexedWrapper', builtins.str:'Array'), "
                                 "builtins.str:'innermost-is-source': builtins.bool:True, "
                                 "builtins.str:'shape': tuple(builtins.int:1, builtins.int:4), "
                                 "builtins.str:'dtype': builtins.str:'complex64', "
                                 "builtins.str:'lock': builtins.str:'SerializableLock', "
                                 "builtins.str:'wrapper-shape': tuple(builtins.int:1, "
                                 "builtins.int:4), builtins.str:'wrapper-dtype': "
                                 "builtins.str:'complex64', builtins.str:'key': "
                                 "builtins.str:'BasicIndexer((slice(None, None, None), slice(None, "
                                 "None, None)))', builtins.str:'first': "
                                 'ndarray[<c8|(4,)|00002041000000000000e8420000000000000743000000000000d24200000000], '
                                 "builtins.str:'values': ndarray[<c8|(1, "
                                 '4)|00002041000000000000e8420000000000000743000000000000d24200000000], '
                                 "builtins.str:'sub': ndarray[<c8|(0, 2)|]}",
 "enc-array-complex64-'7B'-4x1": "dict{builtins.str:'preferred_chunksizes': "
                                 "dict{builtins.str:'rows': numpy.int64(np.int64(1)), "
                                 "builtins.str:'cols': builtins.int:1}}",
 "var-array-complex64-'7B'-4x1": "dict{builtins.str:'type': builtins.str:'Variable', "
                                 "builtins.str:'dims': tuple(builtins.str:'rows', "
                                 "builtins.str:'cols'), builtins.str:'attrs': "
                                 "dict{builtins.str:'units': builtins.str:'1', builtins.str:'n': "
                                 "builtins.int:4}, builtins.str:'attrs-copied': "
                                 "builtins.bool:True, builtins.str:'encoding': "
                                 "dict{builtins.str:'preferred_chunksizes': "
                                 "dict{builtins.str:'rows': numpy.int64(np.int64(1)), "
                                 "builtins.str:'cols': builtins.int:1}}, builtins.str:'layers': "
                                 "list(builtins.str:'LazilyIndexedArray', "
                                 "builtins.str:'LazilyIndexedWrapper', builtins.str:'Array'), "
                                 "builtins.str:'innermost-is-source': builtins.bool:True, "
                                 "builtins.str:'shape': tuple(builtins.int:4, builtins.int:1), "
                                 "builtins.str:'dtype': builtins.str:'complex64', "
                                 "builtins.str:'lock': builtins.str:'SerializableLock', "
                                 "builtins.str:'wrapper-shape': tuple(builtins.int:4, "
                                 "builtins.int:1), builtins.str:'wrapper-dtype': "
                                 "builtins.str:'complex64', builtins.str:'key': "
                                 "builtins.str:'BasicIndexer((slice(None, None, None), slice(None, "
                                 "None, None)))', builtins.str:'first': "
                                 "ndarray[<c8|(1,)|0000704200000000], builtins.str:'values': "
                                 'ndarray[<c8|(4, '
                                 '1)|000070420000000000001c430000000000009a42000000000000f24200000000], '
                                 "builtins.str:'sub': ndarray[<c8|(3, "
                                 '1)|00001c430000000000009a42000000000000f24200000000]}',
 'enc-np-1d': 'dict{}',
 'var-np-1d': "dict{builtins.str:'type': builtins.str:'Variable', builtins.str:'dims': "
              "tuple(builtins.str:'x'), builtins.str:'attrs': dict{builtins.str:'a': "
              "builtins.int:1}, builtins.str:'attrs-copied': builtins.bool:True, "
              "builtins.str:'encoding': dict{}, builtins.str:'layers': "
              "list(builtins.str:'ndarray'), builtins.str:'innermost-is-source': "
              "builtins.bool:True, builtins.str:'shape': tuple(builtins.int:3), "
              "builtins.str:'dtype': builtins.str:'int8', builtins.str:'first': "
              "ndarray[|i1|()|01], builtins.str:'values': ndarray[|i1|(3,)|010203], "
              "builtins.str:'sub': builtins.NoneType:None}",
 'enc-np-2d': 'dict{}',
 'var-np-2d': "dict{builtins.str:'type': builtins.str:'Variable', builtins.str:'dims': "
              "tuple(builtins.str:'x', builtins.str:'y'), builtins.str:'attrs': "
              "dict{builtins.str:'b': builtins.str:'abc'}, builtins.str:'attrs-copied': "
              "builtins.bool:True, builtins.str:'encoding': dict{}, builtins.str:'layers': "
              "list(builtins.str:'ndarray'), builtins.str:'innermost-is-source': "
              "builtins.bool:True, builtins.str:'shape': tuple(builtins.int:3, builtins.int:4), "
              "builtins.str:'dtype': builtins.str:'int64', builtins.str:'first': "
              'ndarray[<i8|(4,)|0000000000000000010000000000000002000000000000000300000000000000], '
              "builtins.str:'values': ndarray[<i8|(3, "
              '4)|00000000000000000100000000000000020000000000000003000000000000000400000000000000050000000000000006000000000000000700000000000000080000000000000009000000000000000a000000000000000b00000000000000], '
              "builtins.str:'sub': ndarray[<i8|(2, "
              '2)|0400000000000000060000000000000008000000000000000a00000000000000]}',
 'enc-np-0d': 'dict{}',
 'var-np-0d': "dict{builtins.str:'type': builtins.str:'Variable', builtins.str:'dims': tuple(), "
              "builtins.str:'attrs': dict{}, builtins.str:'attrs-copied': builtins.bool:True, "
              "builtins.str:'encoding': dict{}, builtins.str:'layers': "
              "list(builtins.str:'ndarray'), builtins.str:'innermost-is-source': "
              "builtins.bool:True, builtins.str:'shape': tuple(), builtins.str:'dtype': "
              "builtins.str:'float64', builtins.str:'values': raise builtins.IndexError: too many "
              'indices}',
 'enc-np-0d-tuple': 'dict{}',
 'var-np-0d-tuple': "dict{builtins.str:'type': builtins.str:'Variable', builtins.str:'dims': "
                    "tuple(), builtins.str:'attrs': dict{}, builtins.str:'attrs-copied': "
                    "builtins.bool:True, builtins.str:'encoding': dict{}, builtins.str:'layers': "
                    "list(builtins.str:'ndarray'), builtins.str:'innermost-is-source': "
                    "builtins.bool:True, builtins.str:'shape': tuple(), builtins.str:'dtype': "
                    "builtins.str:'float64', builtins.str:'values': raise builtins.IndexError: too "
                    'many indices}',
 'enc-np-str': 'dict{}',
 'var-np-str': "dict{builtins.str:'type': builtins.str:'Variable', builtins.str:'dims': "
               "tuple(builtins.str:'t'), builtins.str:'attrs': dict{builtins.str:'long_name': "
               "builtins.str:'text'}, builtins.str:'attrs-copied': builtins.bool:True, "
               "builtins.str:'encoding': dict{}, builtins.str:'layers': "
               "list(builtins.str:'ndarray'), builtins.str:'innermost-is-source': "
               "builtins.bool:True, builtins.str:'shape': tuple(builtins.int:2), "
               "builtins.str:'dtype': builtins.str:'<U2', builtins.str:'first': "
               "ndarray[<U2|()|6100000000000000], builtins.str:'values': "
               "ndarray[<U2|(2,)|61000000000000006200000063000000], builtins.str:'sub': "
               'builtins.NoneType:None}',
 'enc-np-datetime': 'dict{}',
 'var-np-datetime': "dict{builtins.str:'type': builtins.str:'Variable', builtins.str:'dims': "
                    "tuple(builtins.str:'t'), builtins.str:'attrs': dict{}, "
                    "builtins.str:'attrs-copied': builtins.bool:True, builtins.str:'encoding': "
                    "dict{}, builtins.str:'layers': list(builtins.str:'ndarray'), "
                    "builtins.str:'innermost-is-source': builtins.bool:False, "
                    "builtins.str:'shape': tuple(builtins.int:2), builtins.str:'dtype': "
                    "builtins.str:'datetime64[ns]', builtins.str:'first': "
                    "ndarray[<M8[ns]|()|00008ab9359ae515], builtins.str:'values': "
                    "ndarray[<M8[ns]|(2,)|00008ab9359ae5150000152e3f4c8416], builtins.str:'sub': "
                    'builtins.NoneType:None}',
 'enc-np-object': 'dict{}',
 'var-np-object': "dict{builtins.str:'type': builtins.str:'Variable', builtins.str:'dims': "
                  "tuple(builtins.str:'t'), builtins.str:'attrs': dict{}, "
                  "builtins.str:'attrs-copied': builtins.bool:True, builtins.str:'encoding': "
                  "dict{}, builtins.str:'layers': list(builtins.str:'ndarray'), "
                  "builtins.str:'innermost-is-source': builtins.bool:False, builtins.str:'shape': "
                  "tuple(builtins.int:2), builtins.str:'dtype': builtins.str:'object', "
                  "builtins.str:'first': ndarray[|O|()|nan], builtins.str:'values': "
                  "ndarray[|O|(2,)|[nan, 'a']], builtins.str:'sub': builtins.NoneType:None}",
 'enc-np-empty': 'dict{}',
 'var-np-empty': "dict{builtins.str:'type': builtins.str:'Variable', builtins.str:'dims': "
                 "tuple(builtins.str:'x'), builtins.str:'attrs': dict{}, "
                 "builtins.str:'attrs-copied': builtins.bool:True, builtins.str:'encoding': "
                 "dict{}, builtins.str:'layers': list(builtins.str:'ndarray'), "
                 "builtins.str:'innermost-is-source': builtins.bool:True, builtins.str:'shape': "
                 "tuple(builtins.int:0), builtins.str:'dtype': builtins.str:'float32', "
                 "builtins.str:'values': raise builtins.IndexError: index 0 is out of bounds for "
                 'axis 0 with size 0}',
 'enc-list-data': 'dict{}',
 'var-list-data': "dict{builtins.str:'type': builtins.str:'Variable', builtins.str:'dims': "
                  "tuple(builtins.str:'x'), builtins.str:'attrs': dict{}, "
                  "builtins.str:'attrs-copied': builtins.bool:True, builtins.str:'encoding': "
                  "dict{}, builtins.str:'layers': list(builtins.str:'ndarray'), "
                  "builtins.str:'innermost-is-source': builtins.bool:False, builtins.str:'shape': "
                  "tuple(builtins.int:3), builtins.str:'dtype': builtins.str:'int64', "
                  "builtins.str:'first': ndarray[<i8|()|0100000000000000], builtins.str:'values': "
                  'ndarray[<i8|(3,)|010000000000000002000000000000000300000000000000], '
                  "builtins.str:'sub': builtins.NoneType:None}",
 'enc-scalar-data': 'dict{}',
 'var-scalar-data': "dict{builtins.str:'type': builtins.str:'Variable', builtins.str:'dims': "
                    "tuple(), builtins.str:'attrs': dict{}, builtins.str:'attrs-copied': "
                    "builtins.bool:True, builtins.str:'encoding': dict{}, builtins.str:'layers': "
                    "list(builtins.str:'ndarray'), builtins.str:'innermost-is-source': "
                    "builtins.bool:False, builtins.str:'shape': tuple(), builtins.str:'dtype': "
                    "builtins.str:'int64', builtins.str:'values': raise builtins.IndexError: too "
                    'many indices}',
 'enc-tuple-dims': 'dict{}',
 'var-tuple-dims': "dict{builtins.str:'type': builtins.str:'Variable', builtins.str:'dims': "
                   "tuple(builtins.str:'x', builtins.str:'y'), builtins.str:'attrs': dict{}, "
                   "builtins.str:'attrs-copied': builtins.bool:True, builtins.str:'encoding': "
                   "dict{}, builtins.str:'layers': list(builtins.str:'ndarray'), "
                   "builtins.str:'innermost-is-source': builtins.bool:True, builtins.str:'shape': "
                   "tuple(builtins.int:2, builtins.int:2), builtins.str:'dtype': "
                   "builtins.str:'float64', builtins.str:'first': "
                   "ndarray[<f8|(2,)|00000000000000000000000000000000], builtins.str:'values': "
                   'ndarray[<f8|(2, '
                   '2)|0000000000000000000000000000000000000000000000000000000000000000], '
                   "builtins.str:'sub': ndarray[<f8|(1, 1)|0000000000000000]}",
 'enc-attrs-nested': 'dict{}',
 'var-attrs-nested': "dict{builtins.str:'type': builtins.str:'Variable', builtins.str:'dims': "
                     "tuple(builtins.str:'x'), builtins.str:'attrs': dict{builtins.str:'a': "
                     "dict{builtins.str:'b': list(builtins.int:1, builtins.int:2)}, "
                     "builtins.str:'c': builtins.NoneType:None}, builtins.str:'attrs-copied': "
                     "builtins.bool:True, builtins.str:'encoding': dict{}, builtins.str:'layers': "
                     "list(builtins.str:'ndarray'), builtins.str:'innermost-is-source': "
                     "builtins.bool:True, builtins.str:'shape': tuple(builtins.int:2), "
                     "builtins.str:'dtype': builtins.str:'int64', builtins.str:'first': "
                     "ndarray[<i8|()|0000000000000000], builtins.str:'values': "
                     "ndarray[<i8|(2,)|00000000000000000100000000000000], builtins.str:'sub': "
                     'builtins.NoneType:None}',
 'enc-attrs-none': 'dict{}',
 'var-attrs-none': "dict{builtins.str:'type': builtins.str:'Variable', builtins.str:'dims': "
                   "tuple(builtins.str:'x'), builtins.str:'attrs': dict{}, "
                   "builtins.str:'attrs-copied': builtins.bool:True, builtins.str:'encoding': "
                   "dict{}, builtins.str:'layers': list(builtins.str:'ndarray'), "
                   "builtins.str:'innermost-is-source': builtins.bool:True, builtins.str:'shape': "
                   "tuple(builtins.int:2), builtins.str:'dtype': builtins.str:'int64', "
                   "builtins.str:'first': ndarray[<i8|()|0000000000000000], builtins.str:'values': "
                   "ndarray[<i8|(2,)|00000000000000000100000000000000], builtins.str:'sub': "
                   'builtins.NoneType:None}',
 'enc-dims-mismatch': 'dict{}',
 'var-dims-mismatch': "raise builtins.ValueError: dimensions ('x', 'y') must have the same length "
                      'as the number of data dimensions, ndim=1',
 'enc-dims-dup': 'dict{}',
 'var-dims-dup': "dict{builtins.str:'type': builtins.str:'Variable', builtins.str:'dims': "
                 "tuple(builtins.str:'x', builtins.str:'x'), builtins.str:'attrs': dict{}, "
                 "builtins.str:'attrs-copied': builtins.bool:True, builtins.str:'encoding': "
                 "dict{}, builtins.str:'layers': list(builtins.str:'ndarray'), "
                 "builtins.str:'innermost-is-source': builtins.bool:True, builtins.str:'shape': "
                 "tuple(builtins.int:2, builtins.int:2), builtins.str:'dtype': "
                 "builtins.str:'float64', builtins.str:'first': "
                 "ndarray[<f8|(2,)|00000000000000000000000000000000], builtins.str:'values': "
                 'ndarray[<f8|(2, '
                 '2)|0000000000000000000000000000000000000000000000000000000000000000], '
                 "builtins.str:'sub': ndarray[<f8|(1, 1)|0000000000000000]}",
 'enc-array-1dim-name': "dict{builtins.str:'preferred_chunksizes': dict{builtins.str:'rows': "
                        'builtins.int:2}}',
 'var-array-1dim-name': "raise builtins.ValueError: dimensions ('rows',) must have the same length "
                        'as the number of data dimensions, ndim=2',
 'enc-array-3dims': "dict{builtins.str:'preferred_chunksizes': dict{builtins.str:'a': "
                    "builtins.int:2, builtins.str:'b': builtins.int:3}}",
 'var-array-3dims': "raise builtins.ValueError: dimensions ('a', 'b', 'c') must have the same "
                    'length as the number of data dimensions, ndim=2',
 'standin-missing-dims': 'raise builtins.AttributeError: no attribute dims',
 'standin-raising-dims': 'raise builtins.RuntimeError: dims failed',
 'standin-raising-dims-missing-data': 'raise builtins.AttributeError: no attribute data',
 'standin-raising-dims-missing-attrs': 'raise builtins.RuntimeError: dims failed',
 'standin-raising-dims-missing-chunks': 'raise builtins.RuntimeError: dims failed',
 'standin-missing-data': 'raise builtins.AttributeError: no attribute data',
 'standin-raising-data': 'raise builtins.RuntimeError: data failed',
 'standin-raising-data-missing-dims': 'raise builtins.RuntimeError: data failed',
 'standin-raising-data-missing-attrs': 'raise builtins.RuntimeError: data failed',
 'standin-raising-data-missing-chunks': 'raise builtins.RuntimeError: data failed',
 'standin-missing-attrs': 'raise builtins.AttributeError: no attribute attrs',
 'standin-raising-attrs': 'raise builtins.RuntimeError: attrs failed',
 'standin-raising-attrs-missing-dims': 'raise builtins.AttributeError: no attribute dims',
 'standin-raising-attrs-missing-data': 'raise builtins.AttributeError: no attribute data',
 'standin-raising-attrs-missing-chunks': 'raise builtins.RuntimeError: attrs failed',
 'standin-missing-chunks': 'raise builtins.AttributeError: no attribute chunks',
 'standin-raising-chunks': 'raise builtins.RuntimeError: chunks failed',
 'standin-raising-chunks-missing-dims': 'raise builtins.AttributeError: no attribute dims',
 'standin-raising-chunks-missing-data': 'raise builtins.AttributeError: no attribute data',
 'standin-raising-chunks-missing-attrs': 'raise builtins.AttributeError: no attribute attrs',
 'standin-missing-sizes': "dict{builtins.str:'type': builtins.str:'Variable', builtins.str:'dims': "
                          "tuple(builtins.str:'x', builtins.str:'y'), builtins.str:'attrs': "
                          "dict{builtins.str:'k': builtins.str:'v'}, builtins.str:'attrs-copied': "
                          "builtins.bool:True, builtins.str:'encoding': dict{}, "
                          "builtins.str:'layers': list(builtins.str:'ndarray'), "
                          "builtins.str:'innermost-is-source': builtins.bool:True, "
                          "builtins.str:'shape': tuple(builtins.int:2, builtins.int:3), "
                          "builtins.str:'dtype': builtins.str:'int64', builtins.str:'first': "
                          'ndarray[<i8|(3,)|000000000000000001000000000000000200000000000000], '
                          "builtins.str:'values': ndarray[<i8|(2, "
                          '3)|000000000000000001000000000000000200000000000000030000000000000004000000000000000500000000000000], '
                          "builtins.str:'sub': ndarray[<i8|(1, "
                          '2)|03000000000000000500000000000000]}',
 'standin-raising-sizes': "dict{builtins.str:'type': builtins.str:'Variable', builtins.str:'dims': "
                          "tuple(builtins.str:'x', builtins.str:'y'), builtins.str:'attrs': "
                          "dict{builtins.str:'k': builtins.str:'v'}, builtins.str:'attrs-copied': "
                          "builtins.bool:True, builtins.str:'encoding': dict{}, "
                          "builtins.str:'layers': list(builtins.str:'ndarray'), "
                          "builtins.str:'innermost-is-source': builtins.bool:True, "
                          "builtins.str:'shape': tuple(builtins.int:2, builtins.int:3), "
                          "builtins.str:'dtype': builtins.str:'int64', builtins.str:'first': "
                          'ndarray[<i8|(3,)|000000000000000001000000000000000200000000000000], '
                          "builtins.str:'values': ndarray[<i8|(2, "
                          '3)|000000000000000001000000000000000200000000000000030000000000000004000000000000000500000000000000], '
                          "builtins.str:'sub': ndarray[<i8|(1, "
                          '2)|03000000000000000500000000000000]}',
 'standin-raising-sizes-missing-dims': 'raise builtins.AttributeError: no attribute dims',
 'standin-raising-sizes-missing-data': 'raise builtins.AttributeError: no attribute data',
 'standin-raising-sizes-missing-attrs': 'raise builtins.AttributeError: no attribute attrs',
 'standin-raising-sizes-missing-chunks': 'raise builtins.AttributeError: no attribute chunks',
 'standin-good': "dict{builtins.str:'type': builtins.str:'Variable', builtins.str:'dims': "
                 "tuple(builtins.str:'x', builtins.str:'y'), builtins.str:'attrs': "
                 "dict{builtins.str:'k': builtins.str:'v'}, builtins.str:'attrs-copied': "
                 "builtins.bool:True, builtins.str:'encoding': dict{}, builtins.str:'layers': "
                 "list(builtins.str:'ndarray'), builtins.str:'innermost-is-source': "
                 "builtins.bool:True, builtins.str:'shape': tuple(builtins.int:2, builtins.int:3), "
                 "builtins.str:'dtype': builtins.str:'int64', builtins.str:'first': "
                 'ndarray[<i8|(3,)|000000000000000001000000000000000200000000000000], '
                 "builtins.str:'values': ndarray[<i8|(2, "
                 '3)|000000000000000001000000000000000200000000000000030000000000000004000000000000000500000000000000], '
                 "builtins.str:'sub': ndarray[<i8|(1, 2)|03000000000000000500000000000000]}",
 'standin-chunked': "dict{builtins.str:'type': builtins.str:'Variable', builtins.str:'dims': "
                    "tuple(builtins.str:'x', builtins.str:'y'), builtins.str:'attrs': "
                    "dict{builtins.str:'k': builtins.str:'v'}, builtins.str:'attrs-copied': "
                    "builtins.bool:True, builtins.str:'encoding': "
                    "dict{builtins.str:'preferred_chunksizes': dict{builtins.str:'x': "
                    "builtins.int:1, builtins.str:'y': builtins.int:3}}, builtins.str:'layers': "
                    "list(builtins.str:'ndarray'), builtins.str:'innermost-is-source': "
                    "builtins.bool:True, builtins.str:'shape': tuple(builtins.int:2, "
                    "builtins.int:3), builtins.str:'dtype': builtins.str:'int64', "
                    "builtins.str:'first': "
                    'ndarray[<i8|(3,)|000000000000000001000000000000000200000000000000], '
                    "builtins.str:'values': ndarray[<i8|(2, "
                    '3)|000000000000000001000000000000000200000000000000030000000000000004000000000000000500000000000000], '
                    "builtins.str:'sub': ndarray[<i8|(1, 2)|03000000000000000500000000000000]}",
 'standin-array': "dict{builtins.str:'type': builtins.str:'Variable', builtins.str:'dims': "
                  "tuple(builtins.str:'x', builtins.str:'y'), builtins.str:'attrs': "
                  "dict{builtins.str:'k': builtins.str:'v'}, builtins.str:'attrs-copied': "
                  "builtins.bool:True, builtins.str:'encoding': "
                  "dict{builtins.str:'preferred_chunksizes': dict{builtins.str:'x': "
                  "builtins.int:2, builtins.str:'y': builtins.int:2}}, builtins.str:'layers': "
                  "list(builtins.str:'LazilyIndexedArray', builtins.str:'LazilyIndexedWrapper', "
                  "builtins.str:'Array'), builtins.str:'innermost-is-source': builtins.bool:True, "
                  "builtins.str:'shape': tuple(builtins.int:2, builtins.int:3), "
                  "builtins.str:'dtype': builtins.str:'uint16', builtins.str:'lock': "
                  "builtins.str:'SerializableLock', builtins.str:'wrapper-shape': "
                  "tuple(builtins.int:2, builtins.int:3), builtins.str:'wrapper-dtype': "
                  "builtins.str:'uint16', builtins.str:'key': "
                  "builtins.str:'BasicIndexer((slice(None, None, None), slice(None, None, "
                  "None)))', builtins.str:'first': ndarray[<u2|(3,)|970002008700], "
                  "builtins.str:'values': ndarray[<u2|(2, 3)|9700020087008f00a1004200], "
                  "builtins.str:'sub': ndarray[<u2|(1, 2)|8f004200]}",
 'standin-bad-encoding-and-dims': "raise builtins.KeyError: 'x'",
 'two-locks': 'list(builtins.bool:True, builtins.bool:True)',
 'to-variable-kw': "dict{builtins.str:'type': builtins.str:'Variable', builtins.str:'dims': "
                   "tuple(builtins.str:'x', builtins.str:'y'), builtins.str:'attrs': "
                   "dict{builtins.str:'b': builtins.str:'abc'}, builtins.str:'attrs-copied': "
                   "builtins.bool:True, builtins.str:'encoding': dict{}, builtins.str:'layers': "
                   "list(builtins.str:'ndarray'), builtins.str:'innermost-is-source': "
                   "builtins.bool:True, builtins.str:'shape': tuple(builtins.int:3, "
                   "builtins.int:4), builtins.str:'dtype': builtins.str:'int64', "
                   "builtins.str:'first': "
                   'ndarray[<i8|(4,)|0000000000000000010000000000000002000000000000000300000000000000], '
                   "builtins.str:'values': ndarray[<i8|(3, "
                   '4)|00000000000000000100000000000000020000000000000003000000000000000400000000000000050000000000000006000000000000000700000000000000080000000000000009000000000000000a000000000000000b00000000000000], '
                   "builtins.str:'sub': ndarray[<i8|(2, "
                   '2)|0400000000000000060000000000000008000000000000000a00000000000000]}'}


# --------------------------------------------------------------------------
# harness: canonical description of results, comparison against EXPECTED
# --------------------------------------------------------------------------
import sys
import warnings


def describe(value):
    """canonical, type-aware text form of a result"""
    import numpy as _np

    if isinstance(value, BaseException):
        return f"raise {type(value).__module__}.{type(value).__qualname__}: {value}"
    if isinstance(value, _np.ndarray):
        if value.dtype == object:
            body = repr(value.tolist())
        else:
            body = value.tobytes().hex()
        return f"ndarray[{value.dtype.str}|{value.shape}|{body}]"
    if isinstance(value, _np.generic):
        return f"{type(value).__module__}.{type(value).__name__}({value!r})"
    if isinstance(value, dict):
        items = ", ".join(f"{describe(k)}: {describe(v)}" for k, v in value.items())
        return f"{type(value).__name__}{{{items}}}"
    if isinstance(value, (list, tuple)):
        items = ", ".join(describe(v) for v in value)
        return f"{type(value).__name__}({items})"
    return f"{type(value).__module__}.{type(value).__qualname__}:{value!r}"


def run_case(thunk):
    with warnings.catch_warnings():
        warnings.simplefilter("ignore")
        try:
            return describe(thunk())
        except Exception as e:  # noqa: BLE001
            return describe(e)


def collect():
    results = {}
    for name, thunk in cases():
        if name in results:
            raise RuntimeError(f"duplicate case name: {name}")
        results[name] = run_case(thunk)
    return results


def main(argv):
    results = collect()
    if "--record" in argv:
        import pprint

        pprint.pprint(results, width=100, sort_dicts=False)
        return 0

    failures = []
    for name, actual in results.items():
        expected = EXPECTED.get(name, "<missing>")
        if actual != expected:
            failures.append((name, expected, actual))
    missing = sorted(set(EXPECTED) - set(results))
    for name, expected, actual in failures:
        print(f"MISMATCH {name}\n  expected: {expected}\n  actual:   {actual}")
    for name in missing:
        print(f"NOT RUN {name}")
    n_raise = sum(1 for v in results.values() if v.startswith("raise "))
    print(f"{len(results)} cases ({n_raise} raising), {len(failures)} mismatches, {len(missing)} not run")
    return 1 if failures or missing else 0


def test_equivalence():
    assert main([]) == 0


if __name__ == "__main__":
    sys.exit(main(sys.argv[1:]))
