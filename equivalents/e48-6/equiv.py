"""Equivalence check for refactoring 6 (testing.dict_overlap, testing.format_array,
testing.diff_mapping_not_equal and their callers).

Expected outcomes were recorded from the unchanged code at HEAD
(``python _eq/6/equiv.py --dump`` prints the table for the importable code).
"""

import collections
import sys

import numpy as np

from ceos_alos2 import testing
from ceos_alos2.hierarchy import Variable
from ceos_alos2.tests.utils import create_dummy_array


def describe(obj):
    if isinstance(obj, dict):
        return (type(obj).__name__, [(describe(k), describe(v)) for k, v in obj.items()])
    if isinstance(obj, (list, tuple)):
        return (type(obj).__name__, [describe(v) for v in obj])
    return (type(obj).__name__, repr(obj))


def outcome(func, *args, **kwargs):
    try:
        result = func(*args, **kwargs)
    except Exception as e:  # noqa: BLE001
        return ("raise", type(e).__name__, str(e))
    return ("ok", describe(result))


class MyDict(dict):
    pass


nan = float("nan")


def overlap_cases():
    return [
        ({}, {}),
        ({"a": 1}, {}),
        ({}, {"a": 1}),
        ({"a": 1}, {"a": 2}),
        ({"a": 1, "b": 2}, {"b": 3, "c": 4}),
        ({"c": 1, "b": 2, "a": 3}, {"d": 0, "a": 1, "e": 2, "c": 3}),
        ({"z": 1, "y": 2}, {"x": 3, "w": 4}),
        ({1: "i", "s": 0}, {1.0: "f", True: "b", 2: "x"}),
        ({nan: 1}, {nan: 2}),
        ({nan: 1}, {float("nan"): 2}),
        ({None: 1, ("t", 1): 2}, {("t", 1): 3, None: 4, (): 5}),
        (MyDict(a=1), {"b": 2}),
        ({"b": 2}, MyDict(a=1)),
        (collections.OrderedDict([("b", 1), ("a", 2)]), collections.OrderedDict([("a", 1), ("c", 2)])),
        (collections.defaultdict(int, a=1), {"a": 2, "b": 3}),
        (collections.Counter("aab"), collections.Counter("bcc")),
        ({1, 2}, {2, 3}),
        (frozenset(), frozenset()),
        ({"only"}, {"only"}),
        ({}.keys(), {}.keys()),
        # failures
        (None, None),
        ({"a": 1}, None),
        (None, {"a": 1}),
        ({"a": 1}, [("a", 1)]),
        ([1], [2]),
        ("ab", "bc"),
        (1, 2),
        (collections.ChainMap({"a": 1}), {"b": 2}),
    ]


def array_cases():
    cases = [
        np.array([], dtype="int8"),
        np.array(5, dtype="int64"),
        np.array([0, 1], dtype="int8"),
        np.arange(7, dtype="int16"),
        np.arange(8, dtype="int16"),
        np.arange(9, dtype="uint8"),
        np.arange(10, dtype="int32"),
        np.arange(24, dtype="float32").reshape(2, 3, 4),
        np.arange(6, dtype="float64").reshape(2, 3) / 3,
        np.array([[1 + 2j, 3 - 4j]], dtype="complex64"),
        np.linspace(0, 1, 12, dtype="float16"),
        np.array(["a", "bc", "def"]),
        np.array([b"a", b"bc"] * 5),
        np.array([True, False] * 4),
        np.array(["2020-01-01", "2020-01-02T03:04:05"], dtype="datetime64[s]"),
        np.arange(9).astype("timedelta64[ms]"),
        np.arange(12).astype("datetime64[D]"),
        np.array(["NaT", "2020-01-01"], dtype="datetime64[ns]"),
        np.array([nan, np.inf, -np.inf, 0.0, -0.0, 1e300, 1e-300, 3.0]),
        np.array([(1, 2.0), (3, 4.0)], dtype=[("a", "i4"), ("b", "f8")]),
        np.ma.masked_array([1, 2, 3], mask=[0, 1, 0]),
        [1, 2, 3],
        [[1.5, 2.5], [3.5, 4.5]],
        (1, 2, 3, 4, 5, 6, 7, 8, 9),
        range(20),
        7,
        2.5,
        "text",
        np.float32(1.25),
        np.datetime64("2021-05-06T07:08:09", "ms"),
        create_dummy_array(),
        create_dummy_array(shape=(6, 2), dtype="complex64", type_code="C*8", records_per_chunk=None),
        create_dummy_array(path="/other/root", url="IMG-HH", records_per_chunk=-1),
        create_dummy_array(protocol="file", path="/tmp/data", url="sub/dir/file"),
        create_dummy_array(path="/", url=""),
        # failures
        None,
        [None, 1],
        np.array([1, "a", None], dtype=object),
        [[1, 2], [3]],
        {"a": 1},
        object(),
    ]
    return cases


def variable_cases():
    return [
        Variable("x", np.array([0, 1], dtype="int8"), {}),
        Variable(["x", "y"], np.arange(12, dtype="int32").reshape(3, 4), {"a": 1, "b": "b"}),
        Variable(["rows", "columns"], create_dummy_array(), {"units": "dn"}),
        Variable([], np.array(1.5), {}),
        Variable("t", np.arange(9).astype("datetime64[s]"), {"long_name": "time"}),
    ]


def mapping_pairs():
    v1 = Variable("x", np.array([0, 1], dtype="int8"), {})
    v2 = Variable("x", np.array([0, 2], dtype="int8"), {})
    v3 = Variable("y", np.arange(10, dtype="float32"), {"u": 1})
    va = Variable(["r", "c"], create_dummy_array(), {})
    vb = Variable(["r", "c"], create_dummy_array(records_per_chunk=3), {})
    return [
        ({}, {}),
        ({"a": 1}, {"a": 1}),
        ({"a": 1}, {"a": 2}),
        ({"a": 1, "b": 2, "c": 3}, {"c": 4, "b": 2, "a": 0}),
        ({"a": 1, "b": 2}, {"b": 3, "c": 4}),
        ({"a": 1}, {"b": 1}),
        ({"a": 1, "x": "s", "n": None}, {"a": 1.0, "x": "t", "n": 0, "extra": ()}),
        ({"a": [1, 2], "t": (1,)}, {"a": [1, 3], "t": [1]}),
        ({"a": {"n": 1}}, {"a": {"n": 2}}),
        ({1: "i"}, {1.0: "f"}),
        ({"v": v1}, {"v": v2}),
        ({"v": v1}, {"v": v1}),
        ({"v": v1, "w": v3}, {"w": v1, "v": v3}),
        ({"d": va}, {"d": vb}),
        ({"d": va, "k": v3}, {"d": va, "k": 5}),
        ({"multi\nline": "a\nb"}, {"multi\nline": "a\nc"}),
        (MyDict(a=1), MyDict(a=2)),
        (collections.OrderedDict(b=1, a=2), collections.OrderedDict(a=3, b=4)),
        # comparisons that do not give a bool
        ({"a": np.array([1, 2])}, {"a": np.array([1, 3])}),
        ({"a": np.array([1])}, {"a": np.array([2])}),
        # failures
        (None, None),
        ({}, None),
        (None, {}),
        ({"a": 1}, None),
        ({"a": 1}, [("a", 2)]),
        ([("a", 1)], {"a": 1}),
    ]


def variable_pairs():
    def var(dims=("x",), values=(0, 1), attrs=None, dtype="int16"):
        return Variable(list(dims), np.array(values, dtype=dtype), attrs or {})

    return [
        (var(), var()),
        (var(), var(values=(0, 2))),
        (var(), var(dims=("y",))),
        (var(), var(dtype="int32")),
        (var(attrs={"a": 1}), var(attrs={"a": 2, "b": 3})),
        (var(values=range(10)), var(values=range(1, 11))),
        (var(values=range(7)), var(values=range(8))),
        (var(dims=("x", "y"), values=[[1, 2], [3, 4]]), var(dims=("y", "x"), values=[[1, 2, 3]])),
        (var(), Variable(["x"], create_dummy_array(), {})),
        (
            Variable(["r", "c"], create_dummy_array(), {}),
            Variable(["r", "c"], create_dummy_array(url="other", shape=(5, 3)), {"k": "v"}),
        ),
    ]


def all_outcomes():
    results = {}
    results["dict_overlap"] = [outcome(testing.dict_overlap, a, b) for a, b in overlap_cases()]
    results["format_array"] = [outcome(testing.format_array, arr) for arr in array_cases()]
    results["format_variable"] = [outcome(testing.format_variable, v) for v in variable_cases()]
    results["format_inline"] = [outcome(testing.format_inline, v) for v in variable_cases() + [1, None]]
    results["diff_mapping_not_equal"] = [
        outcome(testing.diff_mapping_not_equal, a, b, name) for a, b in mapping_pairs()
        for name in ("attributes", "Variables")
    ]
    results["diff_mapping"] = [
        outcome(testing.diff_mapping, a, b, name="Attributes") for a, b in mapping_pairs()
    ]
    results["diff_array"] = [
        outcome(testing.diff_array, a, b)
        for a, b in [
            (np.arange(3), np.arange(4)),
            (np.arange(10.0), np.arange(10.0) + 1),
            (np.arange(8, dtype="int8"), np.arange(7, dtype="int8")),
            (np.array(["a"]), create_dummy_array()),
        ]
    ]
    results["diff_data"] = [
        outcome(testing.diff_data, a, b, name)
        for a, b, name in [
            (np.arange(3), np.arange(12).reshape(3, 4), "Data"),
            (np.arange(3), create_dummy_array(), "data"),
        ]
    ]
    results["diff_variable"] = [outcome(testing.diff_variable, a, b) for a, b in variable_pairs()]
    results["assert_identical"] = [
        outcome(testing.assert_identical, a, b) for a, b in variable_pairs()
    ]
    return results


EXPECTED = {'dict_overlap': [('ok', ('tuple', [('list', []), ('list', []), ('list', [])])),
                  ('ok', ('tuple', [('list', []), ('list', []), ('list', [('str', "'a'")])])),
                  ('ok', ('tuple', [('list', [('str', "'a'")]), ('list', []), ('list', [])])),
                  ('ok', ('tuple', [('list', []), ('list', [('str', "'a'")]), ('list', [])])),
                  ('ok',
                   ('tuple',
                    [('list', [('str', "'c'")]), ('list', [('str', "'b'")]), ('list', [('str', "'a'")])])),
                  ('ok',
                   ('tuple',
                    [('list', [('str', "'d'"), ('str', "'e'")]),
                     ('list', [('str', "'c'"), ('str', "'a'")]),
                     ('list', [('str', "'b'")])])),
                  ('ok',
                   ('tuple',
                    [('list', [('str', "'x'"), ('str', "'w'")]),
                     ('list', []),
                     ('list', [('str', "'z'"), ('str', "'y'")])])),
                  ('ok',
                   ('tuple',
                    [('list', [('int', '2')]), ('list', [('int', '1')]), ('list', [('str', "'s'")])])),
                  ('ok', ('tuple', [('list', []), ('list', [('float', 'nan')]), ('list', [])])),
                  ('ok',
                   ('tuple', [('list', [('float', 'nan')]), ('list', []), ('list', [('float', 'nan')])])),
                  ('ok',
                   ('tuple',
                    [('list', [('tuple', [])]),
                     ('list', [('NoneType', 'None'), ('tuple', [('str', "'t'"), ('int', '1')])]),
                     ('list', [])])),
                  ('ok', ('tuple', [('list', [('str', "'b'")]), ('list', []), ('list', [('str', "'a'")])])),
                  ('ok', ('tuple', [('list', [('str', "'a'")]), ('list', []), ('list', [('str', "'b'")])])),
                  ('ok',
                   ('tuple',
                    [('list', [('str', "'c'")]), ('list', [('str', "'a'")]), ('list', [('str', "'b'")])])),
                  ('ok', ('tuple', [('list', [('str', "'b'")]), ('list', [('str', "'a'")]), ('list', [])])),
                  ('ok',
                   ('tuple',
                    [('list', [('str', "'c'")]), ('list', [('str', "'b'")]), ('list', [('str', "'a'")])])),
                  ('ok',
                   ('tuple', [('list', [('int', '3')]), ('list', [('int', '2')]), ('list', [('int', '1')])])),
                  ('ok', ('tuple', [('list', []), ('list', []), ('list', [])])),
                  ('ok', ('tuple', [('list', []), ('list', [('str', "'only'")]), ('list', [])])),
                  ('ok', ('tuple', [('list', []), ('list', []), ('list', [])])),
                  ('raise', 'TypeError', "unsupported operand type(s) for |: 'NoneType' and 'NoneType'"),
                  ('raise', 'TypeError', "unsupported operand type(s) for |: 'dict' and 'NoneType'"),
                  ('raise', 'TypeError', "unsupported operand type(s) for |: 'NoneType' and 'dict'"),
                  ('raise', 'TypeError', "unsupported operand type(s) for |: 'dict' and 'list'"),
                  ('raise', 'TypeError', "unsupported operand type(s) for |: 'list' and 'list'"),
                  ('raise', 'TypeError', "unsupported operand type(s) for |: 'str' and 'str'"),
                  ('raise', 'TypeError', "'int' object is not iterable"),
                  ('ok', ('tuple', [('list', [('str', "'b'")]), ('list', []), ('list', [('str', "'a'")])]))],
 'format_array': [('ok', ('str', "'int8  '")),
                  ('ok', ('str', "'int64  5'")),
                  ('ok', ('str', "'int8  0 1'")),
                  ('ok', ('str', "'int16  0 1 2 3 4 5 6'")),
                  ('ok', ('str', "'int16  0 1 2 ... 6 7'")),
                  ('ok', ('str', "'uint8  0 1 2 ... 7 8'")),
                  ('ok', ('str', "'int32  0 1 2 ... 8 9'")),
                  ('ok', ('str', "'float32  0.0 1.0 2.0 ... 22.0 23.0'")),
                  ('ok',
                   ('str',
                    "'float64  0.0 0.3333333333333333 0.6666666666666666 1.0 1.3333333333333333 "
                    "1.6666666666666667'")),
                  ('ok', ('str', "'complex64  (1+2j) (3-4j)'")),
                  ('ok', ('str', "'float16  0.0 0.09088134765625 0.1817626953125 ... 0.9091796875 1.0'")),
                  ('ok', ('str', '"<U3  \'a\' \'bc\' \'def\'"')),
                  ('ok', ('str', '"|S2  b\'a\' b\'bc\' b\'a\' ... b\'a\' b\'bc\'"')),
                  ('ok', ('str', "'bool  True False True ... True False'")),
                  ('ok', ('str', "'datetime64[s]  2020-01-01T00:00:00 2020-01-02T03:04:05'")),
                  ('ok',
                   ('str',
                    "'timedelta64[ms]  0 milliseconds 1 milliseconds 2 milliseconds ... 7 milliseconds 8 "
                    "milliseconds'")),
                  ('ok',
                   ('str', "'datetime64[D]  1970-01-01 1970-01-02 1970-01-03 ... 1970-01-11 1970-01-12'")),
                  ('ok', ('str', "'datetime64[ns]  NaT 2020-01-01T00:00:00.000000000'")),
                  ('ok', ('str', "'float64  nan inf -inf ... 1e-300 3.0'")),
                  ('ok', ('str', '"[(\'a\', \'<i4\'), (\'b\', \'<f8\')]  (1, 2.0) (3, 4.0)"')),
                  ('ok', ('str', "'int64  1 0.0 3'")),
                  ('ok', ('str', "'int64  1 2 3'")),
                  ('ok', ('str', "'float64  1.5 2.5 3.5 4.5'")),
                  ('ok', ('str', "'int64  1 2 3 ... 8 9'")),
                  ('ok', ('str', "'int64  0 1 2 ... 18 19'")),
                  ('ok', ('str', "'int64  7'")),
                  ('ok', ('str', "'float64  2.5'")),
                  ('ok', ('str', '"<U4  \'text\'"')),
                  ('ok', ('str', "'float32  1.25'")),
                  ('ok', ('str', "'datetime64[ms]  2021-05-06T07:08:09.000'")),
                  ('ok',
                   ('str', "'Array(shape=(4, 3), dtype=int16, rpc=2)\\n    url: memory:///path/to/file'")),
                  ('ok',
                   ('str',
                    "'Array(shape=(6, 2), dtype=complex64, rpc=1024)\\n    url: memory:///path/to/file'")),
                  ('ok',
                   ('str',
                    "'Array(shape=(4, 3), dtype=int16, rpc=4)\\n    url: memory:///other/root/IMG-HH'")),
                  ('ok',
                   ('str',
                    '"Array(shape=(4, 3), dtype=int16, rpc=2)\\n    url: (\'file\', '
                    '\'local\'):///tmp/data/sub/dir/file"')),
                  ('ok', ('str', "'Array(shape=(4, 3), dtype=int16, rpc=2)\\n    url: memory:///'")),
                  ('raise', 'AttributeError', "'NoneType' object has no attribute 'dtype'"),
                  ('raise', 'AttributeError', "'NoneType' object has no attribute 'dtype'"),
                  ('raise', 'AttributeError', "'int' object has no attribute 'dtype'"),
                  ('raise',
                   'ValueError',
                   'setting an array element with a sequence. The requested array has an inhomogeneous shape '
                   'after 1 dimensions. The detected shape was (2,) + inhomogeneous part.'),
                  ('raise', 'AttributeError', "'dict' object has no attribute 'dtype'"),
                  ('raise', 'AttributeError', "'object' object has no attribute 'dtype'")],
 'format_variable': [('ok', ('str', "'(x)    int8  0 1'")),
                     ('ok', ('str', "'(x, y)    int32  0 1 2 ... 10 11\\n    a: 1\\n    b: b'")),
                     ('ok',
                      ('str',
                       "'(rows, columns)    Array(shape=(4, 3), dtype=int16, rpc=2)\\n    url: "
                       "memory:///path/to/file\\n    units: dn'")),
                     ('ok', ('str', "'()    float64  1.5'")),
                     ('ok',
                      ('str',
                       "'(t)    datetime64[s]  1970-01-01T00:00:00 1970-01-01T00:00:01 1970-01-01T00:00:02 "
                       "... 1970-01-01T00:00:07 1970-01-01T00:00:08\\n    long_name: time'"))],
 'format_inline': [('ok', ('str', "'(x)    int8  0 1'")),
                   ('ok', ('str', "'(x, y)    int32  0 1 2 ... 10 11\\n    a: 1\\n    b: b'")),
                   ('ok',
                    ('str',
                     "'(rows, columns)    Array(shape=(4, 3), dtype=int16, rpc=2)\\n    url: "
                     "memory:///path/to/file\\n    units: dn'")),
                   ('ok', ('str', "'()    float64  1.5'")),
                   ('ok',
                    ('str',
                     "'(t)    datetime64[s]  1970-01-01T00:00:00 1970-01-01T00:00:01 1970-01-01T00:00:02 ... "
                     "1970-01-01T00:00:07 1970-01-01T00:00:08\\n    long_name: time'")),
                   ('ok', ('str', "'1'")),
                   ('ok', ('str', "'None'"))],
 'diff_mapping_not_equal': [('ok', ('NoneType', 'None')),
                            ('ok', ('NoneType', 'None')),
                            ('ok', ('NoneType', 'None')),
                            ('ok', ('NoneType', 'None')),
                            ('ok', ('str', "'Differing attributes:\\n   L a  1\\n   R a  2'")),
                            ('ok', ('str', "'Differing Variables:\\n   L a  1\\n   R a  2'")),
                            ('ok',
                             ('str',
                              "'Differing attributes:\\n   L a  1\\n   R a  0\\n   L c  3\\n   R c  4'")),
                            ('ok',
                             ('str',
                              "'Differing Variables:\\n   L a  1\\n   R a  0\\n   L c  3\\n   R c  4'")),
                            ('ok', ('str', "'Differing attributes:\\n   L b  2\\n   R b  3'")),
                            ('ok', ('str', "'Differing Variables:\\n   L b  2\\n   R b  3'")),
                            ('ok', ('NoneType', 'None')),
                            ('ok', ('NoneType', 'None')),
                            ('ok',
                             ('str',
                              "'Differing attributes:\\n   L x  s\\n   R x  t\\n   L n  None\\n   R n  0'")),
                            ('ok',
                             ('str',
                              "'Differing Variables:\\n   L x  s\\n   R x  t\\n   L n  None\\n   R n  0'")),
                            ('ok',
                             ('str',
                              "'Differing attributes:\\n   L a  [1, 2]\\n   R a  [1, 3]\\n   L t  (1,)\\n   "
                              "R t  [1]'")),
                            ('ok',
                             ('str',
                              "'Differing Variables:\\n   L a  [1, 2]\\n   R a  [1, 3]\\n   L t  (1,)\\n   R "
                              "t  [1]'")),
                            ('ok',
                             ('str', '"Differing attributes:\\n   L a  {\'n\': 1}\\n   R a  {\'n\': 2}"')),
                            ('ok',
                             ('str', '"Differing Variables:\\n   L a  {\'n\': 1}\\n   R a  {\'n\': 2}"')),
                            ('ok', ('str', "'Differing attributes:\\n   L 1  i\\n   R 1  f'")),
                            ('ok', ('str', "'Differing Variables:\\n   L 1  i\\n   R 1  f'")),
                            ('ok',
                             ('str',
                              "'Differing attributes:\\n   L v  (x)    int8  0 1\\n   R v  (x)    int8  0 "
                              "2'")),
                            ('ok',
                             ('str',
                              "'Differing Variables:\\n   L v  (x)    int8  0 1\\n   R v  (x)    int8  0 "
                              "2'")),
                            ('ok', ('NoneType', 'None')),
                            ('ok', ('NoneType', 'None')),
                            ('ok',
                             ('str',
                              "'Differing attributes:\\n   L v  (x)    int8  0 1\\n   R v  (y)    float32  "
                              '0.0 1.0 2.0 ... 8.0 9.0\\n     u: 1\\n   L w  (y)    float32  0.0 1.0 2.0 ... '
                              "8.0 9.0\\n     u: 1\\n   R w  (x)    int8  0 1'")),
                            ('ok',
                             ('str',
                              "'Differing Variables:\\n   L v  (x)    int8  0 1\\n   R v  (y)    float32  "
                              '0.0 1.0 2.0 ... 8.0 9.0\\n     u: 1\\n   L w  (y)    float32  0.0 1.0 2.0 ... '
                              "8.0 9.0\\n     u: 1\\n   R w  (x)    int8  0 1'")),
                            ('ok',
                             ('str',
                              "'Differing attributes:\\n   L d  (r, c)    Array(shape=(4, 3), dtype=int16, "
                              'rpc=2)\\n     url: memory:///path/to/file\\n   R d  (r, c)    Array(shape=(4, '
                              "3), dtype=int16, rpc=3)\\n     url: memory:///path/to/file'")),
                            ('ok',
                             ('str',
                              "'Differing Variables:\\n   L d  (r, c)    Array(shape=(4, 3), dtype=int16, "
                              'rpc=2)\\n     url: memory:///path/to/file\\n   R d  (r, c)    Array(shape=(4, '
                              "3), dtype=int16, rpc=3)\\n     url: memory:///path/to/file'")),
                            ('ok',
                             ('str',
                              "'Differing attributes:\\n   L k  (y)    float32  0.0 1.0 2.0 ... 8.0 "
                              "9.0\\n     u: 1\\n   R k  5'")),
                            ('ok',
                             ('str',
                              "'Differing Variables:\\n   L k  (y)    float32  0.0 1.0 2.0 ... 8.0 "
                              "9.0\\n     u: 1\\n   R k  5'")),
                            ('ok',
                             ('str',
                              "'Differing attributes:\\n   L multi\\n line  a\\n b\\n   R multi\\n line  "
                              "a\\n c'")),
                            ('ok',
                             ('str',
                              "'Differing Variables:\\n   L multi\\n line  a\\n b\\n   R multi\\n line  a\\n "
                              "c'")),
                            ('ok', ('str', "'Differing attributes:\\n   L a  1\\n   R a  2'")),
                            ('ok', ('str', "'Differing Variables:\\n   L a  1\\n   R a  2'")),
                            ('ok',
                             ('str',
                              "'Differing attributes:\\n   L b  1\\n   R b  4\\n   L a  2\\n   R a  3'")),
                            ('ok',
                             ('str',
                              "'Differing Variables:\\n   L b  1\\n   R b  4\\n   L a  2\\n   R a  3'")),
                            ('raise',
                             'ValueError',
                             'The truth value of an array with more than one element is ambiguous. Use '
                             'a.any() or a.all()'),
                            ('raise',
                             'ValueError',
                             'The truth value of an array with more than one element is ambiguous. Use '
                             'a.any() or a.all()'),
                            ('ok', ('str', "'Differing attributes:\\n   L a  [1]\\n   R a  [2]'")),
                            ('ok', ('str', "'Differing Variables:\\n   L a  [1]\\n   R a  [2]'")),
                            ('raise', 'AttributeError', "'NoneType' object has no attribute 'items'"),
                            ('raise', 'AttributeError', "'NoneType' object has no attribute 'items'"),
                            ('raise', 'AttributeError', "'NoneType' object has no attribute 'items'"),
                            ('raise', 'AttributeError', "'NoneType' object has no attribute 'items'"),
                            ('raise', 'AttributeError', "'NoneType' object has no attribute 'items'"),
                            ('raise', 'AttributeError', "'NoneType' object has no attribute 'items'"),
                            ('raise', 'AttributeError', "'NoneType' object has no attribute 'items'"),
                            ('raise', 'AttributeError', "'NoneType' object has no attribute 'items'"),
                            ('raise', 'AttributeError', "'list' object has no attribute 'items'"),
                            ('raise', 'AttributeError', "'list' object has no attribute 'items'"),
                            ('raise', 'AttributeError', "'list' object has no attribute 'items'"),
                            ('raise', 'AttributeError', "'list' object has no attribute 'items'")],
 'diff_mapping': [('ok', ('str', "'Attributes:\\n'")),
                  ('ok', ('str', "'Attributes:\\n'")),
                  ('ok', ('str', "'Attributes:\\n  Differing attributes:\\n     L a  1\\n     R a  2'")),
                  ('ok',
                   ('str',
                    "'Attributes:\\n  Differing attributes:\\n     L a  1\\n     R a  0\\n     L c  3\\n     "
                    "R c  4'")),
                  ('ok',
                   ('str',
                    "'Attributes:\\n  Missing left:\\n   - c\\n  Missing right:\\n   - a\\n  Differing "
                    "attributes:\\n     L b  2\\n     R b  3'")),
                  ('ok', ('str', "'Attributes:\\n  Missing left:\\n   - b\\n  Missing right:\\n   - a'")),
                  ('ok',
                   ('str',
                    "'Attributes:\\n  Missing left:\\n   - extra\\n  Differing attributes:\\n     L x  "
                    "s\\n     R x  t\\n     L n  None\\n     R n  0'")),
                  ('ok',
                   ('str',
                    "'Attributes:\\n  Differing attributes:\\n     L a  [1, 2]\\n     R a  [1, 3]\\n     L "
                    "t  (1,)\\n     R t  [1]'")),
                  ('ok',
                   ('str',
                    '"Attributes:\\n  Differing attributes:\\n     L a  {\'n\': 1}\\n     R a  {\'n\': 2}"')),
                  ('ok', ('str', "'Attributes:\\n  Differing attributes:\\n     L 1  i\\n     R 1  f'")),
                  ('ok',
                   ('str',
                    "'Attributes:\\n  Differing attributes:\\n     L v  (x)    int8  0 1\\n     R v  (x)    "
                    "int8  0 2'")),
                  ('ok', ('str', "'Attributes:\\n'")),
                  ('ok',
                   ('str',
                    "'Attributes:\\n  Differing attributes:\\n     L v  (x)    int8  0 1\\n     R v  (y)    "
                    'float32  0.0 1.0 2.0 ... 8.0 9.0\\n       u: 1\\n     L w  (y)    float32  0.0 1.0 2.0 '
                    "... 8.0 9.0\\n       u: 1\\n     R w  (x)    int8  0 1'")),
                  ('ok',
                   ('str',
                    "'Attributes:\\n  Differing attributes:\\n     L d  (r, c)    Array(shape=(4, 3), "
                    'dtype=int16, rpc=2)\\n       url: memory:///path/to/file\\n     R d  (r, c)    '
                    "Array(shape=(4, 3), dtype=int16, rpc=3)\\n       url: memory:///path/to/file'")),
                  ('ok',
                   ('str',
                    "'Attributes:\\n  Differing attributes:\\n     L k  (y)    float32  0.0 1.0 2.0 ... 8.0 "
                    "9.0\\n       u: 1\\n     R k  5'")),
                  ('ok',
                   ('str',
                    "'Attributes:\\n  Differing attributes:\\n     L multi\\n   line  a\\n   b\\n     R "
                    "multi\\n   line  a\\n   c'")),
                  ('ok', ('str', "'Attributes:\\n  Differing attributes:\\n     L a  1\\n     R a  2'")),
                  ('ok',
                   ('str',
                    "'Attributes:\\n  Differing attributes:\\n     L b  1\\n     R b  4\\n     L a  2\\n     "
                    "R a  3'")),
                  ('raise',
                   'ValueError',
                   'The truth value of an array with more than one element is ambiguous. Use a.any() or '
                   'a.all()'),
                  ('ok', ('str', "'Attributes:\\n  Differing attributes:\\n     L a  [1]\\n     R a  [2]'")),
                  ('raise', 'TypeError', "unsupported operand type(s) for |: 'NoneType' and 'NoneType'"),
                  ('raise', 'TypeError', "unsupported operand type(s) for |: 'dict' and 'NoneType'"),
                  ('raise', 'TypeError', "unsupported operand type(s) for |: 'NoneType' and 'dict'"),
                  ('raise', 'TypeError', "unsupported operand type(s) for |: 'dict' and 'NoneType'"),
                  ('raise', 'TypeError', "unsupported operand type(s) for |: 'dict' and 'list'"),
                  ('raise', 'TypeError', "unsupported operand type(s) for |: 'list' and 'dict'")],
 'diff_array': [('ok', ('str', "'  L int64  0 1 2\\n  R int64  0 1 2 3'")),
                ('ok',
                 ('str', "'  L float64  0.0 1.0 2.0 ... 8.0 9.0\\n  R float64  1.0 2.0 3.0 ... 9.0 10.0'")),
                ('ok', ('str', "'  L int8  0 1 2 ... 6 7\\n  R int8  0 1 2 3 4 5 6'")),
                ('ok',
                 ('str',
                  '"  L <U1  \'a\'\\n  R Array(shape=(4, 3), dtype=int16, rpc=2)\\n    url: '
                  'memory:///path/to/file"'))],
 'diff_data': [('ok', ('str', "'Differing data:\\n    L int64  0 1 2\\n    R int64  0 1 2 ... 10 11'")),
               ('ok',
                ('str',
                 '"Differing data types:\\n  L <class \'numpy.ndarray\'>\\n  R <class '
                 '\'ceos_alos2.array.Array\'>"'))],
 'diff_variable': [('ok', ('str', "'Left and right Variable objects are not equal\\n'")),
                   ('ok',
                    ('str',
                     "'Left and right Variable objects are not equal\\n  Differing data:\\n      L int16  0 "
                     "1\\n      R int16  0 2'")),
                   ('ok',
                    ('str',
                     "'Left and right Variable objects are not equal\\n  Differing dimensions:\\n    (x: 2) "
                     "!= (y: 2)'")),
                   ('ok', ('str', "'Left and right Variable objects are not equal\\n'")),
                   ('ok',
                    ('str',
                     "'Left and right Variable objects are not equal\\n  Attributes:\\n    Missing "
                     "left:\\n     - b\\n    Differing attributes:\\n       L a  1\\n       R a  2'")),
                   ('ok',
                    ('str',
                     "'Left and right Variable objects are not equal\\n  Differing data:\\n      L int16  0 "
                     "1 2 ... 8 9\\n      R int16  1 2 3 ... 9 10'")),
                   ('ok',
                    ('str',
                     "'Left and right Variable objects are not equal\\n  Differing data:\\n      L int16  0 "
                     "1 2 3 4 5 6\\n      R int16  0 1 2 ... 6 7'")),
                   ('ok',
                    ('str',
                     "'Left and right Variable objects are not equal\\n  Differing dimensions:\\n    (x: 2, "
                     'y: 2) != (y: 1, x: 3)\\n  Differing data:\\n      L int16  1 2 3 4\\n      R int16  1 '
                     "2 3'")),
                   ('ok',
                    ('str',
                     '"Left and right Variable objects are not equal\\n  Differing data types:\\n    L '
                     '<class \'numpy.ndarray\'>\\n    R <class \'ceos_alos2.array.Array\'>"')),
                   ('ok',
                    ('str',
                     "'Left and right Variable objects are not equal\\n  Differing data:\\n    Differing "
                     'urls:\\n      L url  file\\n      R url  other\\n    Differing byte ranges:\\n      L '
                     'line 5  None\\n      R line 5  (45, 50)\\n    Differing shapes:\\n      (4, 3) != (5, '
                     "3)\\n  Attributes:\\n    Missing left:\\n     - k'"))],
 'assert_identical': [('ok', ('NoneType', 'None')),
                      ('raise',
                       'AssertionError',
                       'Left and right Variable objects are not equal\n'
                       '  Differing data:\n'
                       '      L int16  0 1\n'
                       '      R int16  0 2'),
                      ('raise',
                       'AssertionError',
                       'Left and right Variable objects are not equal\n'
                       '  Differing dimensions:\n'
                       '    (x: 2) != (y: 2)'),
                      ('ok', ('NoneType', 'None')),
                      ('raise',
                       'AssertionError',
                       'Left and right Variable objects are not equal\n'
                       '  Attributes:\n'
                       '    Missing left:\n'
                       '     - b\n'
                       '    Differing attributes:\n'
                       '       L a  1\n'
                       '       R a  2'),
                      ('raise',
                       'AssertionError',
                       'Left and right Variable objects are not equal\n'
                       '  Differing data:\n'
                       '      L int16  0 1 2 ... 8 9\n'
                       '      R int16  1 2 3 ... 9 10'),
                      ('raise',
                       'ValueError',
                       'operands could not be broadcast together with shapes (7,) (8,) '),
                      ('raise',
                       'AssertionError',
                       'Left and right Variable objects are not equal\n'
                       '  Differing dimensions:\n'
                       '    (x: 2, y: 2) != (y: 1, x: 3)\n'
                       '  Differing data:\n'
                       '      L int16  1 2 3 4\n'
                       '      R int16  1 2 3'),
                      ('raise',
                       'AssertionError',
                       'Left and right Variable objects are not equal\n'
                       '  Differing data types:\n'
                       "    L <class 'numpy.ndarray'>\n"
                       "    R <class 'ceos_alos2.array.Array'>"),
                      ('raise',
                       'AssertionError',
                       'Left and right Variable objects are not equal\n'
                       '  Differing data:\n'
                       '    Differing urls:\n'
                       '      L url  file\n'
                       '      R url  other\n'
                       '    Differing byte ranges:\n'
                       '      L line 5  None\n'
                       '      R line 5  (45, 50)\n'
                       '    Differing shapes:\n'
                       '      (4, 3) != (5, 3)\n'
                       '  Attributes:\n'
                       '    Missing left:\n'
                       '     - k')]}


def test_outcomes():
    actual = all_outcomes()
    assert actual.keys() == EXPECTED.keys()
    for name in EXPECTED:
        assert len(actual[name]) == len(EXPECTED[name]), name
        for index, (a, e) in enumerate(zip(actual[name], EXPECTED[name])):
            assert a == e, (name, index, a, e)


def test_dict_overlap_returns_fresh_lists():
    a, b = {"a": 1, "b": 2}, {"b": 2, "c": 3}
    first = testing.dict_overlap(a, b)
    second = testing.dict_overlap(a, b)
    assert all(type(part) is list for part in first)
    assert all(x is not y for x, y in zip(first, second))
    first[0].append("mutated")
    assert testing.dict_overlap(a, b) == (["c"], ["b"], ["a"])
    assert (a, b) == ({"a": 1, "b": 2}, {"b": 2, "c": 3})
    # key objects come from the union (left operand wins)
    k1, k2 = 1, 1.0
    (_, common, _) = testing.dict_overlap({k1: 0}, {k2: 0})
    assert type(common[0]) is int


def test_format_item_is_looked_up_at_call_time():
    original = testing.format_item
    testing.format_item = lambda x: f"<{x}>"
    try:
        assert testing.format_array(np.arange(3, dtype="int8")) == "int8  <0> <1> <2>"
        assert testing.format_array(np.arange(9, dtype="int8")) == "int8  <0> <1> <2> ... <7> <8>"
    finally:
        testing.format_item = original


def test_format_item_call_order():
    seen = []
    original = testing.format_item

    def spy(x):
        seen.append(int(x))
        return original(x)

    testing.format_item = spy
    try:
        testing.format_array(np.arange(20))
        testing.format_array(np.arange(4))
    finally:
        testing.format_item = original
    assert seen == [0, 1, 2, 18, 19, 0, 1, 2, 3]


if __name__ == "__main__":
    if "--dump" in sys.argv:
        import pprint

        pprint.pprint(all_outcomes(), width=110, sort_dicts=False)
        sys.exit(0)
    for name, func in sorted(globals().items()):
        if name.startswith("test_"):
            func()
    print("ok:", {k: len(v) for k, v in EXPECTED.items()})
