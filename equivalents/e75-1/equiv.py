"""Equivalence checks for refactoring 1 (ceos_alos2/sar_leader/io.py: open_sar_leader).

Run as a script (`python equiv.py`) or through pytest.  `python equiv.py --record`
prints the values of EXPECTED as computed by the code under test (they were recorded
from the unchanged code at HEAD).
"""
import sys

import fsspec

import ceos_alos2.sar_leader as pkg
from ceos_alos2.sar_leader import io

# ---- synthetic SAR leader builder (copied verbatim into each equiv.py that needs it) ----
import struct as _struct

from construct import Struct as _Struct


def _unwrap(con):
    while not isinstance(con, _Struct):
        con = con.subcon
    return con


def _locate(con, path):
    con = _unwrap(con)
    off = 0
    head, *rest = path
    for sc in con.subcons:
        if sc.name == head:
            if rest:
                inner, size = _locate(sc, rest)
                return off + inner, size
            return off, sc.sizeof()
        off += sc.sizeof()
    raise KeyError(head)


def _preamble(length, seq=1):
    return _struct.pack(">IBBBBI", seq, 18, 10, 18, 20, length)


def _fixed(con, fields, seq=1):
    size = con.sizeof()
    buf = bytearray(_preamble(size, seq) + b" " * (size - 12))
    for path, text in fields.items():
        off, width = _locate(con, path.split("/"))
        raw = text.encode("ascii")
        assert len(raw) <= width, (path, width)
        buf[off : off + width] = raw.ljust(width)
    return bytes(buf)


def build_leader(
    n_map=1,
    designator="UTM-PROJECTION",
    n_points=2,
    n_channels=2,
    date="2020 03 04",
    scene_center_time="20200102030405678900",
    attitude_values=True,
    seconds_of_day="3661.5",
):
    from ceos_alos2.sar_leader.dataset_summary import dataset_summary_record
    from ceos_alos2.sar_leader.facility_related_data import facility_related_data_5_record
    from ceos_alos2.sar_leader.file_descriptor import file_descriptor_record
    from ceos_alos2.sar_leader.map_projection import map_projection_record
    from ceos_alos2.sar_leader.platform_position import platform_position_record
    from ceos_alos2.sar_leader.radiometric_data import radiometric_data_record

    fd = _fixed(file_descriptor_record, {"map_projection/number_of_records": str(n_map)})
    ds = _fixed(
        dataset_summary_record,
        {
            "scene_center_time": scene_center_time,
            "line_spacing": "2.5",
            "sensor_platform_mission_identifier": "ALOS2",
            "base_band_conversion_flag": "YES",
            "range_compression_flag": "NO",
            "echo_tracker_status": "ON",
            "weighting_function_in_azimuth": "1",
            "weighting_function_in_range": "1",
            "clutter_lock_applied_flag": "OFF",
            "auto_focusing_applied_flag": "YES",
            "motion_compensation_indicator": "1",
        },
    )
    mp = b"".join(
        _fixed(
            map_projection_record,
            {
                "map_projection_designator": designator,
                "map_projection_general_information/number_of_lines": str(100 + i),
                "map_projection_general_information/number_of_pixels_per_line": "250",
                "utm_projection/zone_number": "31",
                "ups_projection/scale_factor": "0.994",
                "national_system_projection/projection_descriptor": "LCC",
                "corner_points/projected/top_left_corner/northing": "1.5",
                "corner_points/geographic/bottom_left_corner/longitude": "-3.25",
                "conversion_coefficients/map_projection_to_pixels/A11": "2.25",
                "conversion_coefficients/pixels_to_map_projection/B24": "-1e-3",
            },
        )
        for i in range(n_map)
    )
    pp = _fixed(
        platform_position_record,
        {
            "orbital_elements_designator": "1",
            "datetime_of_first_point/date": date,
            "datetime_of_first_point/day_of_year": "64",
            "datetime_of_first_point/seconds_of_day": seconds_of_day,
            "time_interval_between_data_points": "60.0",
            "occurrence_flag_of_a_leap_second": "0",
        },
    )
    points = b""
    for i in range(n_points):
        p = bytearray(b" " * 120)
        if attitude_values:
            p[0:4] = str(10 + i).rjust(4).encode()
            p[4:12] = str(1000 * (i + 1)).rjust(8).encode()
            p[12:16] = b"   1"
            p[16:20] = b"   0"
            p[24:38] = f"{0.5 * i:14.6f}".encode()
            p[66:70] = b"   0"
            p[78:92] = f"{-0.25 * i:14.6f}".encode()
        points += bytes(p)
    att_len = 12 + 4 + len(points) + 7
    att = _preamble(att_len) + str(n_points).rjust(4).encode() + points + b" " * 7
    rd = _fixed(
        radiometric_data_record, {"calibration_factor": "-83.0"}
    )
    dqs = bytearray(_preamble(1620) + b" " * (1620 - 12))
    dqs[26:30] = str(n_channels).rjust(4).encode()
    dqs[222 : 222 + 16] = b"1.25".ljust(16)
    facs = b""
    for i in range(4):
        length = 66 + 10 * (i + 1)
        body = bytearray(b" " * (length - 12))
        body[0:4] = str(i + 1).rjust(4).encode()
        body[54:] = (b"raw%d" % i).ljust(length - 66)
        facs += _preamble(length, seq=i + 1) + bytes(body)
    f5 = _fixed(
        facility_related_data_5_record,
        {"prf_switching_flag": "1", "calibration_mode_data_location_flag": "2", "record_sequence_number": "5"},
    )
    return fd + ds + mp + pp + att + rd + bytes(dqs) + facs + f5


def plain(obj):
    """canonical, comparable representation of Group / Variable / containers"""
    import numpy as np

    from ceos_alos2.hierarchy import Group, Variable

    if isinstance(obj, Group):
        return (
            "Group",
            obj.path,
            obj.url,
            [(k, plain(v)) for k, v in obj.data.items()],
            plain(obj.attrs),
        )
    if isinstance(obj, Variable):
        return ("Variable", plain(obj.dims), plain(obj.data), plain(obj.attrs))
    if isinstance(obj, np.ndarray):
        return ("ndarray", str(obj.dtype), obj.shape, repr(obj.tolist()))
    if isinstance(obj, dict):
        return ("dict", [(k, plain(v)) for k, v in obj.items()])
    if isinstance(obj, (list, tuple)):
        return (type(obj).__name__, [plain(v) for v in obj])
    return (type(obj).__name__, repr(obj))


def digest(obj):
    import hashlib

    return hashlib.sha256(repr(plain(obj)).encode()).hexdigest()
# ---- end of builder ----


EXPECTED = {
    "default": "aad2ccadb302e342ae7ddc59aa0aa45b638153ee64032bcecf4f2214a9f4f5a2",
    "n_map=0": "e650abc55251cb8de9ee5073890be033ffafe7c9baaffca50ff010c09bbf390c",
    "lcc2": "e4818c2d0af1a14065e36fbe0b2495f90aef495242f72c1f4bce92909bf85378",
    "ups": "0ad48d5b3c68a5c95e7e45ece41d8a18a35ad456dfedcb29725353b6bb3a0ebf",
    "unknown": "cee6fefa06d9fc3c996e71a2a598fb77b8780a2b7dab44754b3762ad93713901",
    "blank-attitude": "df929657643b771604f1b084e823ad992b6e680765da21f668aa57950c9f5d98",
    "one-channel": "586a04bbe831bda31b85c0cca383310735a13764291380d116a6782e95cc1c98",
    "parse_data": "ac67e1607b5277d8c4a29d51a149ca17021ff3923636fd6a33ebecdfabe296c9",
}
OBSERVED = {}


def check(key, value):
    OBSERVED[key] = value
    if "--record" in sys.argv:
        return
    assert EXPECTED[key] == value, (key, EXPECTED[key], value)


VARIANTS = {
    "default": {},
    "n_map=0": dict(n_map=0),
    "lcc2": dict(n_map=2, designator="LCC-XX"),
    "ups": dict(designator="UPS-a-b"),
    "unknown": dict(designator="foo-bar"),
    "blank-attitude": dict(attitude_values=False),
    "one-channel": dict(n_channels=1),
}


def describe_exception(exc):
    cause = exc.__cause__
    return (
        type(exc).__name__,
        exc.args,
        str(exc),
        type(cause).__name__ if cause is not None else None,
        cause.args if cause is not None else None,
        exc.__context__ is cause,
        exc.__suppress_context__,
        getattr(exc, "errno", None),
        getattr(exc, "filename", None),
    )


def raises(func, *args):
    try:
        func(*args)
    except BaseException as e:  # noqa: B902
        return e
    raise AssertionError("did not raise")


class RecordingMapper:
    """records every request; anything but `__getitem__` is an error"""

    def __init__(self, content, error=None):
        self.content = content
        self.error = error
        self.requests = []

    def __getitem__(self, key):
        self.requests.append(("getitem", key))
        if self.error is not None:
            raise self.error
        return self.content[key]

    def __getattr__(self, name):
        self.requests.append(("getattr", name))
        raise AttributeError(name)


def test_public_names():
    assert pkg.open_sar_leader is io.open_sar_leader
    for name in ["open_sar_leader", "parse_data", "transform_metadata", "sar_leader_record", "to_dict"]:
        assert hasattr(io, name), name
    assert io.open_sar_leader.__module__ == "ceos_alos2.sar_leader.io"
    assert io.parse_data.__module__ == "ceos_alos2.sar_leader.io"


def test_results_dict_mapper():
    for key, kwargs in VARIANTS.items():
        binary = build_leader(**kwargs)
        mapper = RecordingMapper({"LED-X": binary, "other": b""})
        group = io.open_sar_leader(mapper, "LED-X")
        assert mapper.requests == [("getitem", "LED-X")], mapper.requests
        check(key, digest(group))


def test_results_fsspec_mapper():
    fs = fsspec.filesystem("memory")
    fs.store.clear()
    mapper = fsspec.get_mapper("memory://prod")
    mapper["LED-A"] = build_leader()
    mapper["sub/LED-B"] = build_leader(n_map=0)
    assert digest(io.open_sar_leader(mapper, "LED-A")) == OBSERVED.get(
        "default", digest(io.open_sar_leader({"a": build_leader()}, "a"))
    )
    check("n_map=0", digest(io.open_sar_leader(mapper, "sub/LED-B")))

    exc = raises(io.open_sar_leader, mapper, "LED-missing")
    assert type(exc) is FileNotFoundError
    assert str(exc) == "Cannot open LED-missing"
    assert type(exc.__cause__) is KeyError
    assert exc.__cause__.args == ("LED-missing",)
    assert exc.__context__ is exc.__cause__
    assert exc.__suppress_context__ is True


def test_parse_data():
    check("parse_data", digest(io.parse_data(build_leader())))
    exc = raises(io.parse_data, build_leader()[:1000])
    assert type(exc).__name__ == "StreamError", type(exc)
    exc2 = raises(io.open_sar_leader, {"LED": build_leader()[:1000]}, "LED")
    assert type(exc2) is type(exc) and str(exc2) == str(exc)
    assert exc2.__cause__ is None or not isinstance(exc2.__cause__, KeyError)
    exc3 = raises(io.open_sar_leader, {"LED": b""}, "LED")
    assert type(exc3).__name__ == "StreamError"


def test_missing_file():
    mapper = RecordingMapper({"led2": b"\x01"})
    exc = raises(io.open_sar_leader, mapper, "led1")
    assert describe_exception(exc) == (
        "FileNotFoundError",
        ("Cannot open led1",),
        "Cannot open led1",
        "KeyError",
        ("led1",),
        True,
        True,
        None,
        None,
    ), describe_exception(exc)
    assert mapper.requests == [("getitem", "led1")]

    # plain dict, the cause is the very exception raised by the mapping
    exc = raises(io.open_sar_leader, {}, "")
    assert describe_exception(exc)[:5] == (
        "FileNotFoundError",
        ("Cannot open ",),
        "Cannot open ",
        "KeyError",
        ("",),
    )

    class MyKeyError(KeyError):
        pass

    original = MyKeyError("a", "b")
    mapper = RecordingMapper({}, error=original)
    exc = raises(io.open_sar_leader, mapper, "some/path")
    assert type(exc) is FileNotFoundError
    assert exc.__cause__ is original and exc.__context__ is original
    assert str(exc) == "Cannot open some/path"
    assert mapper.requests == [("getitem", "some/path")]


def test_other_errors_pass_through():
    for error in [
        OSError("boom"),
        FileNotFoundError("gone"),
        ValueError("v"),
        LookupError("l"),
        IndexError("i"),
        TypeError("t"),
        RuntimeError("r"),
    ]:
        mapper = RecordingMapper({}, error=error)
        exc = raises(io.open_sar_leader, mapper, "p")
        assert exc is error, (exc, error)
        assert exc.__cause__ is None
        assert mapper.requests == [("getitem", "p")]

    # unhashable path on a dict: TypeError, untouched
    exc = raises(io.open_sar_leader, {}, ["a"])
    assert type(exc) is TypeError
    # no __getitem__ at all
    exc = raises(io.open_sar_leader, None, "a")
    assert type(exc) is TypeError
    assert "subscriptable" in str(exc)


def test_message_formatting():
    class Odd:
        def __format__(self, spec):
            return "FMT[%s]" % spec

        def __str__(self):
            return "STR"

        def __repr__(self):
            return "REPR"

        def __hash__(self):
            return 1

    class Broken:
        def __format__(self, spec):
            raise RuntimeError("cannot format")

    cases = [
        (5, "Cannot open 5"),
        (None, "Cannot open None"),
        (("a", 1), "Cannot open ('a', 1)"),
        (b"raw", "Cannot open b'raw'"),
        (1.50, "Cannot open 1.5"),
        ("{}", "Cannot open {}"),
        ("{0!r} %s", "Cannot open {0!r} %s"),
        ("with space\n", "Cannot open with space\n"),
        (Odd(), "Cannot open FMT[]"),
    ]
    for path, message in cases:
        exc = raises(io.open_sar_leader, {}, path)
        assert type(exc) is FileNotFoundError, path
        assert exc.args == (message,), (path, exc.args)
        assert type(exc.__cause__) is KeyError
        assert exc.__cause__.args == (path,)

    broken = Broken()
    exc = raises(io.open_sar_leader, {}, broken)
    assert type(exc) is RuntimeError and exc.args == ("cannot format",)
    assert type(exc.__context__) is KeyError and exc.__context__.args == (broken,)
    assert exc.__cause__ is None


def test_collaborators_are_looked_up_at_call_time():
    calls = []
    sentinel_data = bytearray(b"\x01\x03")
    sentinel_metadata = {"facility_related_data_5": {"prf_switching_flag": 0}}
    sentinel_result = object()

    def fake_parse_data(data):
        calls.append(("parse_data", data))
        return sentinel_metadata

    def fake_transform_metadata(metadata):
        calls.append(("transform_metadata", metadata))
        return sentinel_result

    original = (io.parse_data, io.transform_metadata)
    try:
        io.parse_data = fake_parse_data
        io.transform_metadata = fake_transform_metadata

        mapper = RecordingMapper({"led2": sentinel_data})
        result = io.open_sar_leader(mapper, "led2")
        assert result is sentinel_result
        assert len(calls) == 2
        assert calls[0][0] == "parse_data" and calls[0][1] is sentinel_data
        assert calls[1][0] == "transform_metadata" and calls[1][1] is sentinel_metadata
        assert mapper.requests == [("getitem", "led2")]

        # nothing is parsed or transformed for a missing file
        del calls[:]
        exc = raises(io.open_sar_leader, mapper, "led1")
        assert type(exc) is FileNotFoundError
        assert calls == []

        # a KeyError from the parser / transformer is NOT a missing file
        err = KeyError("from-parser")

        def failing_parse(data):
            raise err

        io.parse_data = failing_parse
        exc = raises(io.open_sar_leader, mapper, "led2")
        assert exc is err and exc.__cause__ is None and exc.__context__ is None

        io.parse_data = fake_parse_data
        err2 = KeyError("from-transformer")

        def failing_transform(metadata):
            raise err2

        io.transform_metadata = failing_transform
        exc = raises(io.open_sar_leader, mapper, "led2")
        assert exc is err2 and exc.__cause__ is None and exc.__context__ is None

        # only the fake parser replaced: real transformer on its output
        io.transform_metadata = original[1]
        group = io.open_sar_leader(mapper, "led2")
        assert list(group.data) == ["transformations"]
        assert group["transformations"].attrs == {"prf_switching": False}
    finally:
        io.parse_data, io.transform_metadata = original


TESTS = [
    test_public_names,
    test_results_dict_mapper,
    test_results_fsspec_mapper,
    test_parse_data,
    test_missing_file,
    test_other_errors_pass_through,
    test_message_formatting,
    test_collaborators_are_looked_up_at_call_time,
]

if __name__ == "__main__":
    for test in TESTS:
        test()
    if "--record" in sys.argv:
        import pprint

        pprint.pprint(OBSERVED)
    else:
        print("OK: %d checks groups passed" % len(TESTS))
