"""Equivalence check for refactoring 3 (``ceos_alos2.xarray``: ``extract_encoding``,
``to_variable``, ``to_dataset``, ``to_datatree``).

Converts small hierarchies (in-memory variables and lazy ``Array`` variables on a recording
file system) and compares a canonical description of the result, the order in which the
groups are converted and the I/O trace of loading the lazy variables with values recorded
from the unchanged code.  Must pass with and without ``patch.diff`` applied.

    PYTHONPATH=/tmp/wt2/e01 /venv/bin/python _eq/3/equiv.py          # check
    PYTHONPATH=/tmp/wt2/e01 /venv/bin/python _eq/3/equiv.py --print  # dump observed values
"""

import io
import pprint
import sys

import numpy as np
from xarray.core import indexing

from ceos_alos2 import xarray as cx
from ceos_alos2.array import Array
from ceos_alos2.hierarchy import Group, Variable


class RecordingFile:
    def __init__(self, content, log):
        self._f = io.BytesIO(content)
        self._log = log

    def seek(self, offset):
        self._log.append(("seek", offset))
        return self._f.seek(offset)

    def read(self, size):
        self._log.append(("read", size))
        return self._f.read(size)

    def __enter__(self):
        return self

    def __exit__(self, *exc):
        self._log.append(("close",))
        return False


class RecordingFS:
    def __init__(self, files):
        self.files = files
        self.log = []

    def open(self, url, mode):
        self.log.append(("open", url, mode))
        return RecordingFile(self.files[url], self.log)

    def __eq__(self, other):
        return self is other

    def __hash__(self):
        return id(self)


VALUES = np.arange(12, dtype=">u2").reshape(4, 3) * 300
CONTENT = b"".join(b"\xff" * 4 + row.tobytes() for row in VALUES)
BYTE_RANGES = [(n * 10 + 4, (n + 1) * 10) for n in range(4)]
FS = RecordingFS({"img": CONTENT})


def lazy(records_per_chunk, shape=(4, 3)):
    return Array(
        fs=FS,
        url="img",
        byte_ranges=list(BYTE_RANGES),
        shape=shape,
        dtype="uint16",
        type_code="IU2",
        records_per_chunk=records_per_chunk,
    )


class FakeVar:
    """duck-typed variable with explicit chunks / sizes (for the -1 / None entries)"""

    def __init__(self, chunks, sizes):
        self.chunks = chunks
        self._sizes = sizes
        self.sizes_lookups = 0

    @property
    def sizes(self):
        self.sizes_lookups += 1
        return self._sizes


def describe_variable(var):
    data = var._data
    is_lazy = isinstance(data, indexing.LazilyIndexedArray)
    description = {
        "dims": var.dims,
        "dtype": str(var.dtype),
        "shape": var.shape,
        "attrs": dict(var.attrs),
        "encoding": dict(var.encoding),
        "in_memory": var._in_memory,
        "data_type": type(data).__name__,
    }
    if is_lazy:
        wrapper = data.array
        description["wrapper"] = (
            type(wrapper).__name__,
            wrapper.shape,
            str(wrapper.dtype),
            type(wrapper.lock).__name__,
            type(wrapper.array).__name__,
        )
    del FS.log[:]
    description["values"] = np.asarray(var.values).astype("<f8").tobytes().hex()
    description["load_trace"] = list(FS.log)
    return description


def describe_dataset(ds):
    return {
        "attrs": dict(ds.attrs),
        "sizes": dict(ds.sizes),
        "data_vars": list(ds.data_vars),
        "coords": list(ds.coords),
        "variables": {name: describe_variable(var) for name, var in ds.variables.items()},
    }


def describe_tree(tree):
    return {node.path: describe_dataset(node.to_dataset(inherit=False)) for node in tree.subtree}


def attempt(f, *args, **kwargs):
    try:
        return f(*args, **kwargs)
    except Exception as e:  # noqa: BLE001
        return ("raises", type(e).__name__)


def build_tree():
    return Group(
        path=None,
        url="base",
        data={
            "t": Variable("rows", np.array([0.5, np.nan, np.inf, -0.0]), {"units": "s"}),
            "img": Variable(["rows", "cols"], lazy(3), {"long_name": "image"}),
            "meta": Group(
                path=None,
                url=None,
                data={
                    "k": Variable("n", np.array([1, 2], dtype="int8"), {}),
                    "deep": Group(
                        path=None,
                        url=None,
                        data={"img2": Variable(["rows", "cols"], lazy(None), {})},
                        attrs={"coordinates": ["img2"], "level": 2},
                    ),
                },
                attrs={"b": [1, 2]},
            ),
            "empty": Group(path=None, url=None, data={}, attrs={}),
        },
        attrs={"coordinates": ["t"], "title": "root"},
    )


def observe():
    observed = {}

    # --- extract_encoding
    variables = {
        "numpy": Variable("x", np.array([1], dtype="int8"), {}),
        "lazy-1d": Variable("x", lazy(2, shape=(4,)), {}),
        "lazy-2d": Variable(["a", "b"], lazy(1), {}),
        "lazy-default": Variable(["a", "b"], lazy(None), {}),
        "lazy-auto": Variable(["a", "b"], lazy("auto"), {}),
        "lazy-too-large": Variable(["a", "b"], lazy(9), {}),
        "lazy-minus-one": Variable(["a", "b"], lazy(-1), {}),
    }
    for name, var in variables.items():
        observed[f"encoding-{name}"] = repr(attempt(cx.extract_encoding, var))

    fakes = {
        "all-none": ({"a": None, "b": None}, {"a": 4, "b": 3}),
        "no-dims": ({}, {}),
        "some-none": ({"a": None, "b": 2}, {"a": 4, "b": 3}),
        "minus-one": ({"a": -1, "b": -1.0, "c": 1}, {"a": 4, "b": 3, "c": 7}),
        "no-lookup-needed": ({"a": 2, "b": 0}, {}),
        "missing-size": ({"a": 2, "b": -1}, {"a": 4}),
        "bool-and-numpy": ({"a": True, "b": np.int64(-1), "c": np.int64(5)}, {"a": 4, "b": 3, "c": 9}),
    }
    for name, (chunks, sizes) in fakes.items():
        fake = FakeVar(chunks, sizes)
        result = attempt(cx.extract_encoding, fake)
        observed[f"encoding-fake-{name}"] = (repr(result), fake.sizes_lookups)

    # --- to_variable
    for name, var in variables.items():
        observed[f"variable-{name}"] = describe_variable(cx.to_variable(var))
    special = Variable(["a", "b"], np.array([[np.nan, np.inf], [-np.inf, -0.0]]), {"x": {"y": 1}})
    converted = cx.to_variable(special)
    observed["variable-special"] = describe_variable(converted)
    observed["variable-special-shares-data"] = np.shares_memory(converted.values, special.data)
    first, second = cx.to_variable(variables["lazy-2d"]), cx.to_variable(variables["lazy-2d"])
    observed["variable-new-lock-per-call"] = first._data.array.lock is not second._data.array.lock
    observed["variable-wraps-same-array"] = first._data.array.array is variables["lazy-2d"].data

    # --- to_dataset
    tree = build_tree()
    observed["dataset-root"] = describe_dataset(cx.to_dataset(tree))
    observed["dataset-root-chunks-none"] = describe_dataset(cx.to_dataset(tree, chunks=None))
    observed["dataset-meta"] = describe_dataset(cx.to_dataset(tree["meta"]))
    observed["dataset-deep"] = describe_dataset(cx.to_dataset(tree["meta"]["deep"]))
    observed["dataset-empty"] = describe_dataset(cx.to_dataset(tree["empty"]))
    observed["dataset-attrs-untouched"] = (tree.attrs, tree["meta"]["deep"].attrs)
    bad_coords = Group(path=None, url=None, data={}, attrs={"coordinates": ["missing"]})
    observed["dataset-missing-coordinate"] = attempt(cx.to_dataset, bad_coords)
    observed["dataset-chunks-not-a-mapping"] = attempt(cx.to_dataset, tree, chunks="auto")
    observed["dataset-chunks-int"] = attempt(cx.to_dataset, tree, chunks=-1)

    # --- to_datatree: result and order of the conversions
    calls = []
    original = cx.to_dataset

    def recording_to_dataset(group, chunks=None):
        calls.append((group.path, list(group.data), chunks))
        return original(group, chunks=chunks)

    cx.to_dataset = recording_to_dataset
    try:
        observed["datatree"] = describe_tree(cx.to_datatree(tree))
        observed["datatree-calls"] = list(calls)
        del calls[:]
        observed["datatree-flat"] = describe_tree(cx.to_datatree(tree["empty"]))
        observed["datatree-flat-calls"] = list(calls)
        del calls[:]
        # converting a non-root group: both "/" and its own path are present
        observed["datatree-subgroup"] = attempt(lambda: describe_tree(cx.to_datatree(tree["meta"])))
        observed["datatree-subgroup-calls"] = list(calls)
        del calls[:]
        observed["datatree-chunks-not-a-mapping"] = attempt(cx.to_datatree, tree, chunks="auto")
        observed["datatree-chunks-not-a-mapping-calls"] = list(calls)
    finally:
        cx.to_dataset = original

    return observed


# recorded with the unchanged code (clean HEAD)
EXPECTED = {'encoding-numpy': '{}',
 'encoding-lazy-1d': "{'preferred_chunksizes': {'x': 2}}",
 'encoding-lazy-2d': "{'preferred_chunksizes': {'a': 1, 'b': 3}}",
 'encoding-lazy-default': "{'preferred_chunksizes': {'a': 1024, 'b': 3}}",
 'encoding-lazy-auto': "{'preferred_chunksizes': {'a': np.int64(4), 'b': 3}}",
 'encoding-lazy-too-large': "{'preferred_chunksizes': {'a': 4, 'b': 3}}",
 'encoding-lazy-minus-one': "{'preferred_chunksizes': {'a': 4, 'b': 3}}",
 'encoding-fake-all-none': ('{}', 0),
 'encoding-fake-no-dims': ('{}', 0),
 'encoding-fake-some-none': ("{'preferred_chunksizes': {'a': 4, 'b': 2}}", 1),
 'encoding-fake-minus-one': ("{'preferred_chunksizes': {'a': 4, 'b': 3, 'c': 1}}", 2),
 'encoding-fake-no-lookup-needed': ("{'preferred_chunksizes': {'a': 2, 'b': 0}}", 0),
 'encoding-fake-missing-size': ("('raises', 'KeyError')", 1),
 'encoding-fake-bool-and-numpy': ("{'preferred_chunksizes': {'a': True, 'b': 3, 'c': np.int64(5)}}", 1),
 'variable-numpy': {'dims': ('x',),
                    'dtype': 'int8',
                    'shape': (1,),
                    'attrs': {},
                    'encoding': {},
                    'in_memory': True,
                    'data_type': 'ndarray',
                    'values': '000000000000f03f',
                    'load_trace': []},
 'variable-lazy-1d': {'dims': ('x',),
                      'dtype': 'uint16',
                      'shape': (4,),
                      'attrs': {},
                      'encoding': {'preferred_chunksizes': {'x': 2}},
                      'in_memory': False,
                      'data_type': 'LazilyIndexedArray',
                      'wrapper': ('LazilyIndexedWrapper', (4,), 'uint16', 'SerializableLock', 'Array'),
                      'values': '0000000000000000000000008000c640000000008000d640000000006080e040000000008000e64000000000a080eb4000000000000ea040000000000004ca40000000004002d840000000004081e140000000006001e740000000008081ec40',
                      'load_trace': [('open', 'img', 'rb'),
                                     ('seek', 4),
                                     ('read', 16),
                                     ('seek', 24),
                                     ('read', 16),
                                     ('close',)]},
 'variable-lazy-2d': {'dims': ('a', 'b'),
                      'dtype': 'uint16',
                      'shape': (4, 3),
                      'attrs': {},
                      'encoding': {'preferred_chunksizes': {'a': 1, 'b': 3}},
                      'in_memory': False,
                      'data_type': 'LazilyIndexedArray',
                      'wrapper': ('LazilyIndexedWrapper', (4, 3), 'uint16', 'SerializableLock', 'Array'),
                      'values': '0000000000000000000000008000c640000000008000d640000000006080e040000000008000e64000000000a080eb4000000000000ea040000000000004ca40000000004002d840000000004081e140000000006001e740000000008081ec40',
                      'load_trace': [('open', 'img', 'rb'),
                                     ('seek', 4),
                                     ('read', 6),
                                     ('seek', 14),
                                     ('read', 6),
                                     ('seek', 24),
                                     ('read', 6),
                                     ('seek', 34),
                                     ('read', 6),
                                     ('close',)]},
 'variable-lazy-default': {'dims': ('a', 'b'),
                           'dtype': 'uint16',
                           'shape': (4, 3),
                           'attrs': {},
                           'encoding': {'preferred_chunksizes': {'a': 1024, 'b': 3}},
                           'in_memory': False,
                           'data_type': 'LazilyIndexedArray',
                           'wrapper': ('LazilyIndexedWrapper', (4, 3), 'uint16', 'SerializableLock', 'Array'),
                           'values': '0000000000000000000000008000c640000000008000d640000000006080e040000000008000e64000000000a080eb4000000000000ea040000000000004ca40000000004002d840000000004081e140000000006001e740000000008081ec40',
                           'load_trace': [('open', 'img', 'rb'), ('seek', 4), ('read', 36), ('close',)]},
 'variable-lazy-auto': {'dims': ('a', 'b'),
                        'dtype': 'uint16',
                        'shape': (4, 3),
                        'attrs': {},
                        'encoding': {'preferred_chunksizes': {'a': np.int64(4), 'b': 3}},
                        'in_memory': False,
                        'data_type': 'LazilyIndexedArray',
                        'wrapper': ('LazilyIndexedWrapper', (4, 3), 'uint16', 'SerializableLock', 'Array'),
                        'values': '0000000000000000000000008000c640000000008000d640000000006080e040000000008000e64000000000a080eb4000000000000ea040000000000004ca40000000004002d840000000004081e140000000006001e740000000008081ec40',
                        'load_trace': [('open', 'img', 'rb'), ('seek', 4), ('read', 36), ('close',)]},
 'variable-lazy-too-large': {'dims': ('a', 'b'),
                             'dtype': 'uint16',
                             'shape': (4, 3),
                             'attrs': {},
                             'encoding': {'preferred_chunksizes': {'a': 4, 'b': 3}},
                             'in_memory': False,
                             'data_type': 'LazilyIndexedArray',
                             'wrapper': ('LazilyIndexedWrapper', (4, 3), 'uint16', 'SerializableLock', 'Array'),
                             'values': '0000000000000000000000008000c640000000008000d640000000006080e040000000008000e64000000000a080eb4000000000000ea040000000000004ca40000000004002d840000000004081e140000000006001e740000000008081ec40',
                             'load_trace': [('open', 'img', 'rb'), ('seek', 4), ('read', 36), ('close',)]},
 'variable-lazy-minus-one': {'dims': ('a', 'b'),
                             'dtype': 'uint16',
                             'shape': (4, 3),
                             'attrs': {},
                             'encoding': {'preferred_chunksizes': {'a': 4, 'b': 3}},
                             'in_memory': False,
                             'data_type': 'LazilyIndexedArray',
                             'wrapper': ('LazilyIndexedWrapper', (4, 3), 'uint16', 'SerializableLock', 'Array'),
                             'values': '0000000000000000000000008000c640000000008000d640000000006080e040000000008000e64000000000a080eb4000000000000ea040000000000004ca40000000004002d840000000004081e140000000006001e740000000008081ec40',
                             'load_trace': [('open', 'img', 'rb'), ('seek', 4), ('read', 36), ('close',)]},
 'variable-special': {'dims': ('a', 'b'),
                      'dtype': 'float64',
                      'shape': (2, 2),
                      'attrs': {'x': {'y': 1}},
                      'encoding': {},
                      'in_memory': True,
                      'data_type': 'ndarray',
                      'values': '000000000000f87f000000000000f07f000000000000f0ff0000000000000080',
                      'load_trace': []},
 'variable-special-shares-data': True,
 'variable-new-lock-per-call': True,
 'variable-wraps-same-array': True,
 'dataset-root': {'attrs': {'title': 'root'},
                  'sizes': {'rows': 4, 'cols': 3},
                  'data_vars': ['img'],
                  'coords': ['t'],
                  'variables': {'t': {'dims': ('rows',),
                                      'dtype': 'float64',
                                      'shape': (4,),
                                      'attrs': {'units': 's'},
                                      'encoding': {},
                                      'in_memory': True,
                                      'data_type': 'ndarray',
                                      'values': '000000000000e03f000000000000f87f000000000000f07f0000000000000080',
                                      'load_trace': []},
                                'img': {'dims': ('rows', 'cols'),
                                        'dtype': 'uint16',
                                        'shape': (4, 3),
                                        'attrs': {'long_name': 'image'},
                                        'encoding': {'preferred_chunksizes': {'rows': 3, 'cols': 3}},
                                        'in_memory': False,
                                        'data_type': 'LazilyIndexedArray',
                                        'wrapper': ('LazilyIndexedWrapper',
                                                    (4, 3),
                                                    'uint16',
                                                    'SerializableLock',
                                                    'Array'),
                                        'values': '0000000000000000000000008000c640000000008000d640000000006080e040000000008000e64000000000a080eb4000000000000ea040000000000004ca40000000004002d840000000004081e140000000006001e740000000008081ec40',
                                        'load_trace': [('open', 'img', 'rb'),
                                                       ('seek', 4),
                                                       ('read', 26),
                                                       ('seek', 34),
                                                       ('read', 6),
                                                       ('close',)]}}},
 'dataset-root-chunks-none': {'attrs': {'title': 'root'},
                              'sizes': {'rows': 4, 'cols': 3},
                              'data_vars': ['img'],
                              'coords': ['t'],
                              'variables': {'t': {'dims': ('rows',),
                                                  'dtype': 'float64',
                                                  'shape': (4,),
                                                  'attrs': {'units': 's'},
                                                  'encoding': {},
                                                  'in_memory': True,
                                                  'data_type': 'ndarray',
                                                  'values': '000000000000e03f000000000000f87f000000000000f07f0000000000000080',
                                                  'load_trace': []},
                                            'img': {'dims': ('rows', 'cols'),
                                                    'dtype': 'uint16',
                                                    'shape': (4, 3),
                                                    'attrs': {'long_name': 'image'},
                                                    'encoding': {'preferred_chunksizes': {'rows': 3, 'cols': 3}},
                                                    'in_memory': False,
                                                    'data_type': 'LazilyIndexedArray',
                                                    'wrapper': ('LazilyIndexedWrapper',
                                                                (4, 3),
                                                                'uint16',
                                                                'SerializableLock',
                                                                'Array'),
                                                    'values': '0000000000000000000000008000c640000000008000d640000000006080e040000000008000e64000000000a080eb4000000000000ea040000000000004ca40000000004002d840000000004081e140000000006001e740000000008081ec40',
                                                    'load_trace': [('open', 'img', 'rb'),
                                                                   ('seek', 4),
                                                                   ('read', 26),
                                                                   ('seek', 34),
                                                                   ('read', 6),
                                                                   ('close',)]}}},
 'dataset-meta': {'attrs': {'b': [1, 2]},
                  'sizes': {'n': 2},
                  'data_vars': ['k'],
                  'coords': [],
                  'variables': {'k': {'dims': ('n',),
                                      'dtype': 'int8',
                                      'shape': (2,),
                                      'attrs': {},
                                      'encoding': {},
                                      'in_memory': True,
                                      'data_type': 'ndarray',
                                      'values': '000000000000f03f0000000000000040',
                                      'load_trace': []}}},
 'dataset-deep': {'attrs': {'level': 2},
                  'sizes': {'rows': 4, 'cols': 3},
                  'data_vars': [],
                  'coords': ['img2'],
                  'variables': {'img2': {'dims': ('rows', 'cols'),
                                         'dtype': 'uint16',
                                         'shape': (4, 3),
                                         'attrs': {},
                                         'encoding': {'preferred_chunksizes': {'rows': 1024, 'cols': 3}},
                                         'in_memory': False,
                                         'data_type': 'LazilyIndexedArray',
                                         'wrapper': ('LazilyIndexedWrapper',
                                                     (4, 3),
                                                     'uint16',
                                                     'SerializableLock',
                                                     'Array'),
                                         'values': '0000000000000000000000008000c640000000008000d640000000006080e040000000008000e64000000000a080eb4000000000000ea040000000000004ca40000000004002d840000000004081e140000000006001e740000000008081ec40',
                                         'load_trace': [('open', 'img', 'rb'),
                                                        ('seek', 4),
                                                        ('read', 36),
                                                        ('close',)]}}},
 'dataset-empty': {'attrs': {}, 'sizes': {}, 'data_vars': [], 'coords': [], 'variables': {}},
 'dataset-attrs-untouched': ({'coordinates': ['t'], 'title': 'root'}, {'coordinates': ['img2'], 'level': 2}),
 'dataset-missing-coordinate': ('raises', 'ValueError'),
 'dataset-chunks-not-a-mapping': ('raises', 'AttributeError'),
 'dataset-chunks-int': ('raises', 'AttributeError'),
 'datatree': {'/': {'attrs': {'title': 'root'},
                    'sizes': {'rows': 4, 'cols': 3},
                    'data_vars': ['img'],
                    'coords': ['t'],
                    'variables': {'img': {'dims': ('rows', 'cols'),
                                          'dtype': 'uint16',
                                          'shape': (4, 3),
                                          'attrs': {'long_name': 'image'},
                                          'encoding': {'preferred_chunksizes': {'rows': 3, 'cols': 3}},
                                          'in_memory': False,
                                          'data_type': 'LazilyIndexedArray',
                                          'wrapper': ('LazilyIndexedWrapper',
                                                      (4, 3),
                                                      'uint16',
                                                      'SerializableLock',
                                                      'Array'),
                                          'values': '0000000000000000000000008000c640000000008000d640000000006080e040000000008000e64000000000a080eb4000000000000ea040000000000004ca40000000004002d840000000004081e140000000006001e740000000008081ec40',
                                          'load_trace': [('open', 'img', 'rb'),
                                                         ('seek', 4),
                                                         ('read', 26),
                                                         ('seek', 34),
                                                         ('read', 6),
                                                         ('close',)]},
                                  't': {'dims': ('rows',),
                                        'dtype': 'float64',
                                        'shape': (4,),
                                        'attrs': {'units': 's'},
                                        'encoding': {},
                                        'in_memory': True,
                                        'data_type': 'ndarray',
                                        'values': '000000000000e03f000000000000f87f000000000000f07f0000000000000080',
                                        'load_trace': []}}},
              '/meta': {'attrs': {'b': [1, 2]},
                        'sizes': {'n': 2},
                        'data_vars': ['k'],
                        'coords': [],
                        'variables': {'k': {'dims': ('n',),
                                            'dtype': 'int8',
                                            'shape': (2,),
                                            'attrs': {},
                                            'encoding': {},
                                            'in_memory': True,
                                            'data_type': 'ndarray',
                                            'values': '000000000000f03f0000000000000040',
                                            'load_trace': []}}},
              '/empty': {'attrs': {}, 'sizes': {}, 'data_vars': [], 'coords': [], 'variables': {}},
              '/meta/deep': {'attrs': {'level': 2},
                             'sizes': {'rows': 4, 'cols': 3},
                             'data_vars': [],
                             'coords': ['img2'],
                             'variables': {'img2': {'dims': ('rows', 'cols'),
                                                    'dtype': 'uint16',
                                                    'shape': (4, 3),
                                                    'attrs': {},
                                                    'encoding': {'preferred_chunksizes': {'rows': 1024, 'cols': 3}},
                                                    'in_memory': False,
                                                    'data_type': 'LazilyIndexedArray',
                                                    'wrapper': ('LazilyIndexedWrapper',
                                                                (4, 3),
                                                                'uint16',
                                                                'SerializableLock',
                                                                'Array'),
                                                    'values': '0000000000000000000000008000c640000000008000d640000000006080e040000000008000e64000000000a080eb4000000000000ea040000000000004ca40000000004002d840000000004081e140000000006001e740000000008081ec40',
                                                    'load_trace': [('open', 'img', 'rb'),
                                                                   ('seek', 4),
                                                                   ('read', 36),
                                                                   ('close',)]}}}},
 'datatree-calls': [('/', ['t', 'img', 'meta', 'empty'], None),
                    ('/', ['t', 'img'], None),
                    ('/meta', ['k'], None),
                    ('/meta/deep', ['img2'], None),
                    ('/empty', [], None)],
 'datatree-flat': {'/': {'attrs': {}, 'sizes': {}, 'data_vars': [], 'coords': [], 'variables': {}},
                   '/empty': {'attrs': {}, 'sizes': {}, 'data_vars': [], 'coords': [], 'variables': {}}},
 'datatree-flat-calls': [('/empty', [], None), ('/empty', [], None)],
 'datatree-subgroup': {'/': {'attrs': {'b': [1, 2]},
                             'sizes': {'n': 2},
                             'data_vars': ['k'],
                             'coords': [],
                             'variables': {'k': {'dims': ('n',),
                                                 'dtype': 'int8',
                                                 'shape': (2,),
                                                 'attrs': {},
                                                 'encoding': {},
                                                 'in_memory': True,
                                                 'data_type': 'ndarray',
                                                 'values': '000000000000f03f0000000000000040',
                                                 'load_trace': []}}},
                       '/meta': {'attrs': {'b': [1, 2]},
                                 'sizes': {'n': 2},
                                 'data_vars': ['k'],
                                 'coords': [],
                                 'variables': {'k': {'dims': ('n',),
                                                     'dtype': 'int8',
                                                     'shape': (2,),
                                                     'attrs': {},
                                                     'encoding': {},
                                                     'in_memory': True,
                                                     'data_type': 'ndarray',
                                                     'values': '000000000000f03f0000000000000040',
                                                     'load_trace': []}}},
                       '/meta/deep': {'attrs': {'level': 2},
                                      'sizes': {'rows': 4, 'cols': 3},
                                      'data_vars': [],
                                      'coords': ['img2'],
                                      'variables': {'img2': {'dims': ('rows', 'cols'),
                                                             'dtype': 'uint16',
                                                             'shape': (4, 3),
                                                             'attrs': {},
                                                             'encoding': {'preferred_chunksizes': {'rows': 1024,
                                                                                                   'cols': 3}},
                                                             'in_memory': False,
                                                             'data_type': 'LazilyIndexedArray',
                                                             'wrapper': ('LazilyIndexedWrapper',
                                                                         (4, 3),
                                                                         'uint16',
                                                                         'SerializableLock',
                                                                         'Array'),
                                                             'values': '0000000000000000000000008000c640000000008000d640000000006080e040000000008000e64000000000a080eb4000000000000ea040000000000004ca40000000004002d840000000004081e140000000006001e740000000008081ec40',
                                                             'load_trace': [('open', 'img', 'rb'),
                                                                            ('seek', 4),
                                                                            ('read', 36),
                                                                            ('close',)]}}}},
 'datatree-subgroup-calls': [('/meta', ['k', 'deep'], None), ('/meta', ['k'], None), ('/meta/deep', ['img2'], None)],
 'datatree-chunks-not-a-mapping': ('raises', 'AttributeError'),
 'datatree-chunks-not-a-mapping-calls': [('/', ['t', 'img', 'meta', 'empty'], 'auto')]}


if __name__ == "__main__":
    import ceos_alos2

    observed = observe()
    if "--print" in sys.argv:
        pprint.pprint(observed, width=120, sort_dicts=False)  # noqa
        sys.exit(0)

    assert set(observed) == set(EXPECTED), set(observed) ^ set(EXPECTED)
    for key, value in EXPECTED.items():
        assert observed[key] == value, (key, observed[key], value)
    print(f"ok: {len(observed)} cases identical ({ceos_alos2.__file__})")
