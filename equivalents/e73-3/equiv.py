"""Equivalence checks for refactoring 3 (ceos_alos2/sar_image/caching/encoders.py).

Run as: cd /tmp/wt9/e73 && PYTHONPATH=/tmp/wt9/e73 /venv/bin/python _eq/3/equiv.py
All expectations were recorded from the unchanged code (HEAD).
"""

import collections
import json
from dataclasses import dataclass

import numpy as np
from fsspec.implementations.dirfs import DirFileSystem
from fsspec.implementations.memory import MemoryFileSystem

from ceos_alos2.array import Array
from ceos_alos2.hierarchy import Group, Variable
from ceos_alos2.sar_image import caching
from ceos_alos2.sar_image.caching import encoders
from ceos_alos2.sar_image.caching.encoders import (  # noqa: F401
    encode_array,
    encode_datetime,
    encode_group,
    encode_hierarchy,
    encode_timedelta,
    encode_variable,
    preprocess,
)


def outcome(func, *args, **kwargs):
    try:
        return ("ok", func(*args, **kwargs))
    except BaseException as e:  # noqa: B036
        cause = None if e.__cause__ is None else repr(e.__cause__)
        return ("raise", type(e).__name__, str(e), cause, e.__suppress_context__)


def strict(obj):
    """structure with types, so that 1 != 1.0 != True and dict order matters"""
    if isinstance(obj, dict):
        return (type(obj).__name__, [(k, strict(v)) for k, v in obj.items()])
    if isinstance(obj, (list, tuple)):
        return (type(obj).__name__, [strict(v) for v in obj])
    return (type(obj).__name__, obj)


def check(actual, expected):
    assert actual[0] == "ok", actual
    assert strict(actual[1]) == strict(expected), (actual[1], expected)


# ------------------------------------------------------------ plain arrays
check(
    outcome(encode_array, np.array([1, 2], dtype="int8")),
    {"__type__": "array", "dtype": "int8", "data": [1, 2], "encoding": {}},
)
check(
    outcome(encode_array, np.array([[1.5, 2], [3, 4]], dtype="float32")),
    {"__type__": "array", "dtype": "float32", "data": [[1.5, 2.0], [3.0, 4.0]], "encoding": {}},
)
check(outcome(encode_array, [1, 2]), {"__type__": "array", "dtype": "int64", "data": [1, 2], "encoding": {}})
check(outcome(encode_array, (1.0,)), {"__type__": "array", "dtype": "float64", "data": [1.0], "encoding": {}})
check(outcome(encode_array, 5), {"__type__": "array", "dtype": "int64", "data": 5, "encoding": {}})
check(outcome(encode_array, []), {"__type__": "array", "dtype": "float64", "data": [], "encoding": {}})
check(
    outcome(encode_array, np.array([True, False])),
    {"__type__": "array", "dtype": "bool", "data": [True, False], "encoding": {}},
)
check(
    outcome(encode_array, np.array(["ab", "cde"])),
    {"__type__": "array", "dtype": "<U3", "data": ["ab", "cde"], "encoding": {}},
)
check(
    outcome(encode_array, np.array([b"ab"])),
    {"__type__": "array", "dtype": "|S2", "data": [b"ab"], "encoding": {}},
)
check(
    outcome(encode_array, np.array([1 + 2j], dtype="complex64")),
    {"__type__": "array", "dtype": "complex64", "data": [(1 + 2j)], "encoding": {}},
)
check(
    outcome(encode_array, np.array([None, "a"], dtype=object)),
    {"__type__": "array", "dtype": "object", "data": [None, "a"], "encoding": {}},
)
# timedelta
check(
    outcome(encode_array, np.array([1, 2], dtype="timedelta64[s]")),
    {"__type__": "array", "dtype": "timedelta64[s]", "data": [1, 2], "encoding": {"units": "s"}},
)
check(
    outcome(encode_array, np.array([[1], [2]], dtype="timedelta64[10ms]")),
    {"__type__": "array", "dtype": "timedelta64[10ms]", "data": [[1], [2]], "encoding": {"units": "ms"}},
)
check(
    outcome(encode_array, np.array(3, dtype="timedelta64[ns]")),
    {"__type__": "array", "dtype": "timedelta64[ns]", "data": 3, "encoding": {"units": "ns"}},
)
check(
    outcome(encode_array, np.array([], dtype="timedelta64[us]")),
    {"__type__": "array", "dtype": "timedelta64[us]", "data": [], "encoding": {"units": "us"}},
)
# datetime
check(
    outcome(encode_array, np.array(["1997-05-27T00:00:00", "1997-05-27T00:02:00"], dtype="datetime64[s]")),
    {
        "__type__": "array",
        "dtype": "datetime64[s]",
        "data": [0, 120],
        "encoding": {"reference": "1997-05-27T00:00:00", "units": "s"},
    },
)
check(
    outcome(encode_array, np.array(["2020-01-01T00:00:00.030", "2020-01-01T00:00:00.000"], dtype="datetime64[10ms]")),
    {
        "__type__": "array",
        "dtype": "datetime64[10ms]",
        "data": [0, -3],
        "encoding": {"reference": "2020-01-01T00:00:00.030", "units": "10ms"},
    },
)
check(
    outcome(encode_array, np.array(["2020-01-02", "NaT"], dtype="datetime64[D]")),
    {
        "__type__": "array",
        "dtype": "datetime64[D]",
        "data": [0, -9223372036854775808],
        "encoding": {"reference": "2020-01-02", "units": "D"},
    },
)
res = outcome(encode_array, np.array([], dtype="datetime64[s]"))
assert res == ("raise", "IndexError", "index 0 is out of bounds for axis 0 with size 0", None, False), res
res = outcome(encode_array, np.array("2020-01-01", dtype="datetime64[s]"))
assert res == (
    "raise", "IndexError", "too many indices for array: array is 0-dimensional, but 1 were indexed", None, False,
), res
res = outcome(encode_array, [[1, 2], [3]])
assert res[:2] == ("raise", "ValueError") and "inhomogeneous" in res[2], res

# ------------------------------------------------------------ backend arrays
FS = DirFileSystem(path="/path/to", fs=MemoryFileSystem())
RANGES = [(5, 10), (15, 20), (25, 30), (35, 40)]


def backend(fs=FS, cls=Array, **kwargs):
    params = dict(fs=fs, url="file", byte_ranges=RANGES, shape=(4, 3), dtype="int16", type_code="IU2",
                  records_per_chunk=2)
    return cls(**(params | kwargs))


ENCODED_BACKEND = {
    "__type__": "backend_array",
    "root": "/path/to",
    "url": "file",
    "shape": (4, 3),
    "dtype": "int16",
    "byte_ranges": RANGES,
    "type_code": "IU2",
}
res = outcome(encode_array, backend())
check(res, ENCODED_BACKEND)
assert res[1]["byte_ranges"] is RANGES
check(
    outcome(encode_array, backend(dtype=np.dtype("complex64"), type_code="C*8", records_per_chunk=None)),
    ENCODED_BACKEND | {"dtype": "complex64", "type_code": "C*8"},
)
res = outcome(encode_array, backend(fs=MemoryFileSystem()))
assert res == ("raise", "AttributeError", "'MemoryFileSystem' object has no attribute 'path'", None, False), res

access = []
WATCHED = {"fs", "url", "shape", "dtype", "byte_ranges", "type_code", "records_per_chunk", "chunk_offsets"}


@dataclass(order=False, unsafe_hash=True, eq=False)
class SpyArray(Array):
    def __getattribute__(self, name):
        if name in WATCHED:
            access.append(name)
        return super().__getattribute__(name)


spy = backend(cls=SpyArray)
del access[:]
check(outcome(encode_array, spy), ENCODED_BACKEND)
assert access == ["fs", "url", "shape", "dtype", "byte_ranges", "type_code"], access

# ------------------------------------------------------------ variables / groups / hierarchy
var = Variable("x", np.array([1, 2], dtype="int8"), {"a": (1, 2)})
ENCODED_VAR = {
    "__type__": "variable",
    "dims": ["x"],
    "data": {"__type__": "array", "dtype": "int8", "data": [1, 2], "encoding": {}},
    "attrs": {"a": (1, 2)},
}
res = outcome(encode_variable, var)
check(res, ENCODED_VAR)
assert res[1]["attrs"] is var.attrs and res[1]["dims"] is var.dims
bvar = Variable(["rows", "cols"], backend(), {})
ENCODED_BVAR = {"__type__": "variable", "dims": ["rows", "cols"], "data": ENCODED_BACKEND, "attrs": {}}
check(outcome(encode_variable, bvar), ENCODED_BVAR)
res = outcome(encode_variable, {"data": 1})
assert res == ("raise", "AttributeError", "'dict' object has no attribute 'data'", None, False), res


class SubGroup(Group):
    pass


tree = Group(
    path=None,
    url="memory://root",
    data={
        "v": var,
        "g": Group(path=None, url=None, data={"b": bvar, "h": SubGroup(path=None, url="u2", data={}, attrs={})},
                   attrs={"k": [1, (2, 3)]}),
        "w": var,
    },
    attrs={"n": 1},
)
ENCODED_TREE = {
    "__type__": "group",
    "url": "memory://root",
    "data": {
        "v": ENCODED_VAR,
        "g": {
            "__type__": "group",
            "url": "memory://root",
            "data": {
                "b": ENCODED_BVAR,
                "h": {"__type__": "group", "url": "u2", "data": {}, "path": "/g/h", "attrs": {}},
            },
            "path": "/g",
            "attrs": {"k": [1, (2, 3)]},
        },
        "w": ENCODED_VAR,
    },
    "path": "/",
    "attrs": {"n": 1},
}
for func in (encode_group, encode_hierarchy):
    res = outcome(func, tree)
    check(res, ENCODED_TREE)
    assert res[1]["attrs"] is tree.attrs
check(outcome(encode_hierarchy, var), ENCODED_VAR)
check(outcome(encode_group, Group(path="/", url=None, data={}, attrs={})),
      {"__type__": "group", "url": None, "data": {}, "path": "/", "attrs": {}})
for obj in ({"a": 1}, [1], None, 3, "text", np.array([1]), backend()):
    assert encode_hierarchy(obj) is obj

# entries that are neither groups nor variables are treated as variables and fail
broken = Group(path="/", url=None, data={}, attrs={})
broken.data["a"] = var
broken.data["x"] = {"k": 1}
broken.data["y"] = 3
res = outcome(encode_group, broken)
assert res == ("raise", "AttributeError", "'dict' object has no attribute 'data'", None, False), res
res = outcome(encode_hierarchy, broken)
assert res == ("raise", "AttributeError", "'dict' object has no attribute 'data'", None, False), res
res = outcome(encode_group, var)
assert res == ("raise", "AttributeError", "'numpy.ndarray' object has no attribute 'keys'", None, False), res

# ------------------------------------------------------------ preprocess
Point = collections.namedtuple("Point", ["x", "y"])


class MyList(list):
    pass


class MyDict(dict):
    pass


cases = [
    (1, 1),
    (None, None),
    ("a", "a"),
    ([], []),
    ((), {"__type__": "tuple", "data": []}),
    ({}, {}),
    ([1, (2, [3, (4,)])], [1, {"__type__": "tuple", "data": [2, [3, {"__type__": "tuple", "data": [4]}]]}]),
    ({"a": (1, 2), "b": {"c": [(3,)]}},
     {"a": {"__type__": "tuple", "data": [1, 2]}, "b": {"c": [{"__type__": "tuple", "data": [3]}]}}),
    (Point(1, (2,)), {"__type__": "tuple", "data": [1, {"__type__": "tuple", "data": [2]}]}),
    (MyList([(1,)]), [{"__type__": "tuple", "data": [1]}]),
    (MyDict(a=(1,)), {"a": {"__type__": "tuple", "data": [1]}}),
    (collections.OrderedDict([("b", 1), ("a", (2,))]), {"b": 1, "a": {"__type__": "tuple", "data": [2]}}),
    ({1: (1,), (1, 2): 3}, {1: {"__type__": "tuple", "data": [1]}, (1, 2): 3}),
]
for data, expected in cases:
    check(outcome(preprocess, data), expected)
for obj in ({1, 2}, frozenset([(1,)]), np.array([1]), range(3), iter([1]), b"ab"):
    assert preprocess(obj) is obj
    assert preprocess([obj])[0] is obj
# new containers are created, the input is not modified
data = {"a": [1, (2,)]}
out = preprocess(data)
assert out is not data and out["a"] is not data["a"] and data == {"a": [1, (2,)]}

# ------------------------------------------------------------ end to end text
assert caching.encode(tree) == (
    '{"__type__": "group", "url": "memory://root", "data": {"v": {"__type__": "variable", "dims": ["x"], '
    '"data": {"__type__": "array", "dtype": "int8", "data": [1, 2], "encoding": {}}, "attrs": {"a": '
    '{"__type__": "tuple", "data": [1, 2]}}}, "g": {"__type__": "group", "url": "memory://root", "data": '
    '{"b": {"__type__": "variable", "dims": ["rows", "cols"], "data": {"__type__": "backend_array", "root": '
    '"/path/to", "url": "file", "shape": {"__type__": "tuple", "data": [4, 3]}, "dtype": "int16", '
    '"byte_ranges": [{"__type__": "tuple", "data": [5, 10]}, {"__type__": "tuple", "data": [15, 20]}, '
    '{"__type__": "tuple", "data": [25, 30]}, {"__type__": "tuple", "data": [35, 40]}], "type_code": "IU2"}, '
    '"attrs": {}}, "h": {"__type__": "group", "url": "u2", "data": {}, "path": "/g/h", "attrs": {}}}, '
    '"path": "/g", "attrs": {"k": [1, {"__type__": "tuple", "data": [2, 3]}]}}, "w": {"__type__": "variable", '
    '"dims": ["x"], "data": {"__type__": "array", "dtype": "int8", "data": [1, 2], "encoding": {}}, "attrs": '
    '{"a": {"__type__": "tuple", "data": [1, 2]}}}}, "path": "/", "attrs": {"n": 1}}'
)
roundtripped = caching.decode(caching.encode(tree), records_per_chunk=2)
assert roundtripped["v"] == var and roundtripped["g"].attrs == {"k": [1, (2, 3)]}
assert list(roundtripped.subtree)[2][0] == "/g/h"
assert caching.encode({"a": (1,)}) == '{"a": {"__type__": "tuple", "data": [1]}}'

assert {"encode_array", "encode_datetime", "encode_group", "encode_hierarchy", "encode_timedelta",
        "encode_variable", "preprocess", "valmap", "np", "Array", "Group", "Variable"} <= set(dir(encoders))
print("equiv 3: OK")
