"""Equivalence check for refactoring 4 (ceos_alos2/hierarchy.py, ceos_alos2/sar_image/enums.py).

Run as
    cd <worktree> && PYTHONPATH=<worktree> /venv/bin/python _eq/4/equiv.py

The expected values below were produced by the UNCHANGED code; the script must
pass both with and without the patch applied.
"""

import numpy as np
from construct import Int8ub, Int16ub, Int32ub, Int64ub

from ceos_alos2.array import Array
from ceos_alos2.hierarchy import Group, Variable
from ceos_alos2.sar_image import enums


def outcome(f, *args, **kwargs):
    try:
        return f(*args, **kwargs)
    except Exception as e:  # noqa: BLE001
        return "EXC " + type(e).__name__


def check(label, actual, expected):
    assert type(actual) is type(expected), f"{label}: got {actual!r}, expected {expected!r}"
    assert repr(actual) == repr(expected), f"{label}: got {actual!r}, expected {expected!r}"


def eq(a, b):
    """result of `a == b` as (type name, truth value)"""
    result = a == b
    return type(result).__name__, bool(result)


TRUE = ("bool", True)
FALSE = ("bool", False)


def make_array(url="a", records_per_chunk=2):
    return Array(
        fs=None,
        url=url,
        byte_ranges=[(0, 4), (4, 8), (8, 12)],
        shape=(3, 2),
        dtype="uint16",
        type_code="IU2",
        records_per_chunk=records_per_chunk,
    )


# === Variable ======================================================================
v1 = Variable("x", np.array([1, 2]), {"a": 1})
check("dims str", v1.dims, ["x"])
check("dims list", Variable(["x", "y"], np.zeros((2, 3)), {}).dims, ["x", "y"])
check("dims empty tuple", Variable((), 1, {}).dims, ())
check("ndim/shape", (v1.ndim, v1.shape, str(v1.dtype)), (1, (2,), "int64"))
check("chunks numpy", v1.chunks, {})
check("sizes numpy", v1.sizes, {"x": 2})

va = Variable(["r", "c"], make_array(), {})
check("chunks Array", va.chunks, {"r": 2, "c": 2})
check("sizes Array", va.sizes, {"r": 3, "c": 2})
check("ndim/shape Array", (va.ndim, va.shape, va.dtype), (2, (3, 2), "uint16"))
check("chunks Array fewer dims", Variable(["r"], make_array(), {}).chunks, {"r": 2})
check("chunks Array default", Variable("r", make_array(records_per_chunk=None), {}).chunks, {"r": 1024})

for label, left, right, expected in [
    ("same", v1, Variable("x", np.array([1, 2]), {"a": 1}), TRUE),
    ("dims", v1, Variable("y", np.array([1, 2]), {"a": 1}), FALSE),
    ("data", v1, Variable("x", np.array([1, 3]), {"a": 1}), FALSE),
    ("attrs", v1, Variable("x", np.array([1, 2]), {"a": 2}), FALSE),
    ("data type", v1, Variable("x", [1, 2], {"a": 1}), FALSE),
    ("other type", v1, 5, FALSE),
    ("Array same", va, Variable(["r", "c"], make_array(), {}), TRUE),
    ("Array url", va, Variable(["r", "c"], make_array("b"), {}), FALSE),
    ("Array vs numpy", va, v1, FALSE),
    ("scalar", Variable((), 1, {}), Variable((), 1, {}), TRUE),
    ("tuple vs list dims", Variable((), 1, {}), Variable([], 1, {}), FALSE),
    ("list data", Variable("x", [1, 2], {}), Variable("x", [1, 2], {}), TRUE),
]:
    check(f"Variable == ({label})", eq(left, right), expected)
check(
    "Variable == shape mismatch",
    outcome(lambda: v1 == Variable("x", np.array([1, 2, 3]), {"a": 1})),
    "EXC ValueError",
)
check(
    "Variable == array-valued attrs",
    outcome(
        lambda: Variable("x", 1, {"a": np.array([1, 2])}) == Variable("x", 1, {"a": np.array([1, 2])})
    ),
    "EXC ValueError",
)

# === Group: construction, paths, names ================================================
g = Group(
    path=None,
    url="u",
    data={
        "v": v1,
        "sub": Group(
            path="ignored",
            url=None,
            data={"w": va, "deep": Group(None, "own", {}, {"k": 1})},
            attrs={"s": 1},
        ),
    },
    attrs={"r": 0},
)
check(
    "paths / names / urls",
    (
        g.path,
        g.name,
        g["sub"].path,
        g["sub"].name,
        g["sub"].url,
        g["sub"]["deep"].path,
        g["sub"]["deep"].name,
        g["sub"]["deep"].url,
    ),
    ("/", "/", "/sub", "sub", "u", "/sub/deep", "deep", "own"),
)
check("len / iter", (len(g), list(g)), (2, ["v", "sub"]))
check("groups", list(g.groups), ["sub"])
check("variables", list(g.variables), ["v"])
check("nested groups / variables", (list(g["sub"].groups), list(g["sub"].variables)), (["deep"], ["w"]))
assert type(g.groups) is dict and type(g.variables) is dict
assert g.groups["sub"] is g["sub"] and g.variables["v"] is g["v"]
assert g.groups is not g.data and g.variables is not g.data
check(
    "subtree",
    [(path, list(node.data), node.attrs, node.url) for path, node in g.subtree],
    [("/", ["v"], {"r": 0}, "u"), ("/sub", ["w"], {"s": 1}, "u"), ("/sub/deep", [], {"k": 1}, "own")],
)
for path, expected in [
    ("a", "a"),
    ("a/b", "b"),
    ("/a/b/", ""),
    ("/", "/"),
    ("", ""),
    ("//", ""),
    ("/a", "a"),
    (None, "/"),
    ("/a//b", "b"),
]:
    check(f"name of {path!r}", Group(path, None, {}, {}).name, expected)
check("name of non-str path", outcome(lambda: Group(5, None, {}, {}).name), "EXC TypeError")

# __setitem__ copies, re-paths recursively and inherits the url
sub = Group(None, None, {"q": Group("x", None, {}, {})}, {})
g2 = Group("/root", "U", {}, {})
g2["child"] = sub
g2["var"] = v1
check(
    "setitem",
    (
        g2["child"].path,
        g2["child"].url,
        g2["child"]["q"].path,
        g2["child"]["q"].url,
        sub.path,
        sub.url,
        sub["q"].path,
        g2["child"] is sub,
        g2["var"] is v1,
        list(g2),
    ),
    ("/root/child", "U", "/root/child/q", "U", "/", None, "/q", False, False, ["child", "var"]),
)
check("setitem keeps equality", eq(g2["var"], v1), TRUE)


# === Group.__eq__ ==================================================================
def make(path=None, url="u", vdata=(1, 2), attrs=None, subattrs=None, order=False, extra=False):
    data = {
        "v": Variable("x", np.array(vdata), {}),
        "sub": Group(None, None, {"w": Variable("y", np.array([0]), {})}, subattrs or {}),
    }
    if order:
        data = dict(reversed(list(data.items())))
    if extra:
        data["z"] = Variable("x", np.array([0]), {})
    return Group(path, url, data, attrs or {})


base = make()
for label, other, expected in [
    ("same", make(), TRUE),
    ("path", make(path="/p"), FALSE),
    ("url", make(url="o"), FALSE),
    ("variable data", make(vdata=(1, 3)), FALSE),
    ("attrs", make(attrs={"a": 1}), FALSE),
    ("nested attrs", make(subattrs={"a": 1}), FALSE),
    ("variable / group order swapped", make(order=True), TRUE),
    ("extra variable", make(extra=True), FALSE),
    ("int", 5, FALSE),
    ("dict", {"v": 1}, FALSE),
]:
    check(f"Group == ({label})", eq(base, other), expected)
check("Group == empty", eq(Group(None, None, {}, {}), Group(None, None, {}, {})), TRUE)

as_var = Group(None, None, {"n": Variable("x", np.array([1]), {})}, {})
as_group = Group(None, None, {"n": Group(None, None, {}, {})}, {})
check("Group == kind swapped", (eq(as_var, as_group), eq(as_group, as_var)), (FALSE, FALSE))
check(
    "Group == shape mismatch propagates",
    outcome(lambda: make(vdata=(1, 2)) == make(vdata=(1, 2, 3))),
    "EXC ValueError",
)

decoupled = base.decouple()
check(
    "decouple",
    (list(decoupled.data), decoupled.path, decoupled.url, decoupled.attrs, decoupled is base),
    (["v"], "/", "u", {}, False),
)

# === enums.Flag ======================================================================
for size, expected in [
    (3, "EXC ValueError"),
    (0, "EXC ValueError"),
    (None, "EXC ValueError"),
    ("2", "EXC ValueError"),
    ([1], "EXC TypeError"),
    (16, "EXC ValueError"),
    (-1, "EXC ValueError"),
    (float("nan"), "EXC ValueError"),
]:
    check(f"Flag({size!r})", outcome(enums.Flag, size), expected)
try:
    enums.Flag(3)
except ValueError as e:
    assert str(e) == "unsupported size: 3"

for size, subcon in [
    (1, Int8ub),
    (2, Int16ub),
    (4, Int32ub),
    (8, Int64ub),
    (1.0, Int8ub),
    (True, Int8ub),
    (2.0, Int16ub),
]:
    n = int(size)
    flag = enums.Flag(size)
    assert flag.subcon is subcon, size
    assert flag.sizeof() == n, size
    check(f"Flag({size!r}) parse 0", flag.parse(b"\x00" * n), False)  # blank field
    check(f"Flag({size!r}) parse 1", flag.parse(b"\x00" * (n - 1) + b"\x01"), True)
    check(f"Flag({size!r}) parse high bit", flag.parse(b"\x80" + b"\x00" * (n - 1)), True)
    check(f"Flag({size!r}) build True", flag.build(True), b"\x00" * (n - 1) + b"\x01")
    check(f"Flag({size!r}) build False", flag.build(False), b"\x00" * n)
    check(f"Flag({size!r}) build overflow", outcome(flag.build, 2 ** (8 * n)), "EXC FormatFieldError")
    check(f"Flag({size!r}) build None", outcome(flag.build, None), "EXC TypeError")
    check(f"Flag({size!r}) parse short", outcome(flag.parse, b""), "EXC StreamError")

assert enums.Flag.bases == {1: Int8ub, 2: Int16ub, 4: Int32ub, 8: Int64ub}
assert list(enums.Flag.bases) == [1, 2, 4, 8]
assert all(enums.Flag.bases[k] is v for k, v in {1: Int8ub, 2: Int16ub, 4: Int32ub, 8: Int64ub}.items())
assert [k for k in vars(enums.Flag) if not k.startswith("__")] == ["bases", "_decode", "_encode"]

# the enum definitions are untouched
check("sar_channel_id", str(enums.sar_channel_id.parse(b"\x00\x02")), "dual_polarization")
check("sar_channel_code", str(enums.sar_channel_code.parse(b"\x00\x05")), "KA")
check("pulse_polarization unknown", int(enums.pulse_polarization.parse(b"\x00\x07")), 7)

print("refactoring 4: all equivalence checks passed")
