"""Equivalence check for refactoring 4 (``to_variable`` / ``to_dataset`` / ``to_datatree``).

Run as ``python equiv.py`` (or through pytest).  ``python equiv.py --record``
prints the observations as JSON; the ``EXPECTED`` literal at the bottom has been
recorded that way from the UNCHANGED code at HEAD.

dask is not necessarily installed, so ``Dataset.chunk`` is observed in two ways: as is
(whatever it does or raises is recorded) and replaced by a recorder that notes the
dataset it was called on and the chunks it was given, and returns a marked copy.
Spies on ``to_variable`` / ``to_dataset`` / ``decode_coords`` / ``SerializableLock``
record the order and the arguments of all conversions.
"""

import hashlib
import json
import sys
import warnings

import numpy as np
import xarray as xr

from ceos_alos2 import xarray as xarray_module
from ceos_alos2.array import Array
from ceos_alos2.hierarchy import Group, Variable


class FS:
    def __eq__(self, other):
        return type(other) is FS

    def __hash__(self):
        return 1


def make_array(shape, records_per_chunk=2):
    byte_ranges = [(i * 50 + 10, (i + 1) * 50) for i in range(shape[0])]
    return Array(
        fs=FS(),
        url="image",
        byte_ranges=byte_ranges,
        shape=shape,
        dtype="uint16",
        type_code="IU2",
        records_per_chunk=records_per_chunk,
    )


def show(value):
    if isinstance(value, dict):
        return ["dict", *([show(k), show(v)] for k, v in value.items())]
    if isinstance(value, (list, tuple)):
        return [type(value).__name__, *map(show, value)]
    if isinstance(value, np.ndarray):
        return f"ndarray:{value.dtype}:{value.shape}:{value.tolist()!r}"
    return f"{type(value).__qualname__}:{value!r}"


def describe_error(e):
    return {
        "error": type(e).__name__,
        "message": str(e)[:200],
        "cause": type(e.__cause__).__name__ if e.__cause__ is not None else None,
        "context": type(e.__context__).__name__ if e.__context__ is not None else None,
    }


def describe_variable(var):
    data = var._data
    info = {
        "dims": show(var.dims),
        "shape": show(var.shape),
        "dtype": str(var.dtype),
        "attrs": show(var.attrs),
        "encoding": show(var.encoding),
        "in_memory": var._in_memory,
        "data_type": type(data).__qualname__,
    }
    if var._in_memory:
        info["values"] = show(np.asarray(var.values))
    else:
        inner = data
        chain = []
        while True:
            chain.append(type(inner).__qualname__)
            if isinstance(inner, xarray_module.LazilyIndexedWrapper):
                info["wrapped"] = repr(inner.array)
                info["lock_type"] = type(inner.lock).__qualname__
                break
            inner = getattr(inner, "array", None)
            if inner is None:
                break
        info["chain"] = chain
    return info


def describe_dataset(ds):
    if not isinstance(ds, xr.Dataset):
        return show(ds)
    return {
        "data_vars": {name: describe_variable(ds[name].variable) for name in ds.data_vars},
        "coords": {name: describe_variable(ds[name].variable) for name in ds.coords},
        "var_order": list(ds.variables),
        "attrs": show(ds.attrs),
        "sizes": show(dict(ds.sizes)),
        "marker": ds.encoding.get("marker"),
    }


def describe_tree(tree):
    return {
        "type": type(tree).__qualname__,
        "nodes": [[node.path, describe_dataset(node.to_dataset(inherit=False))] for node in tree.subtree],
    }


# ------------------------------------------------------------------ inputs


def groups():
    lazy2d = Variable(["rows", "cols"], make_array((4, 3)), {"units": "dn"})
    lazy1d = Variable("rows", make_array((4,), records_per_chunk=3), {})
    mem1d = Variable("rows", np.array([1, 2, 3, 4], dtype="int8"), {"a": 1})
    mem2d = Variable(["x", "y"], np.arange(12).reshape(3, 4), {"b": "abc"})
    scalar = Variable([], np.array(7), {})

    yield "empty", Group(path=None, url=None, data={}, attrs={})
    yield "attrs-only", Group(path=None, url=None, data={}, attrs={"a": 1, "b": [1, 2]})
    yield "in-memory", Group(path=None, url="u", data={"a": mem1d, "b": mem2d}, attrs={"t": 1})
    yield "lazy", Group(path=None, url="u", data={"img": lazy2d, "line": lazy1d}, attrs={})
    yield "coords", Group(
        path=None,
        url="u",
        data={"img": lazy2d, "rows": mem1d, "s": scalar},
        attrs={"coordinates": ["rows", "s"], "k": "v"},
    )
    yield "coords-tuple", Group(
        path=None, url="u", data={"a": mem1d, "b": mem2d}, attrs={"coordinates": ("b",)}
    )
    yield "coords-missing", Group(
        path=None, url="u", data={"a": mem1d}, attrs={"coordinates": ["nope"]}
    )
    yield "conflicting-sizes", Group(
        path=None,
        url="u",
        data={"a": mem1d, "c": Variable("rows", np.array([1, 2]), {})},
        attrs={},
    )
    yield "nested", Group(
        path=None,
        url="u",
        data={
            "top": mem1d,
            "imagery": Group(
                path=None,
                url=None,
                data={
                    "HH": Group(path=None, url=None, data={"data": lazy2d}, attrs={"pol": "HH"}),
                    "HV": Group(
                        path=None,
                        url=None,
                        data={"data": lazy2d, "rows": mem1d},
                        attrs={"pol": "HV", "coordinates": ["rows"]},
                    ),
                    "meta": mem2d,
                },
                attrs={"n": 2},
            ),
            "summary": Group(path=None, url="other", data={}, attrs={"empty": True}),
        },
        attrs={"root": 1},
    )
    nested = Group(
        path=None,
        url="u",
        data={
            "a": Group(
                path=None,
                url=None,
                data={"v": mem1d, "b": Group(path=None, url=None, data={"w": mem2d}, attrs={})},
                attrs={"level": 1},
            )
        },
        attrs={"level": 0},
    )
    yield "nested-2", nested
    # a sub group as root: its own path is not "/"
    yield "subgroup-as-root", nested["a"]
    yield "relative-path", Group(path="rel", url="u", data={"a": mem1d}, attrs={})
    yield "failing-subgroup", Group(
        path=None,
        url="u",
        data={
            "ok": Group(path=None, url=None, data={"a": mem1d}, attrs={}),
            "bad": Group(
                path=None,
                url=None,
                data={"a": mem1d, "c": Variable("rows", np.array([1, 2]), {})},
                attrs={},
            ),
            "never": Group(path=None, url=None, data={"b": mem2d}, attrs={}),
        },
        attrs={},
    )
    yield "not-a-group", None


CHUNKS = {
    "none": None,
    "empty": {},
    "rows": {"rows": 2},
    "rows-cols": {"cols": 1, "rows": 2},
    "xy": {"x": 1, "y": 2},
    "unknown": {"nope": 3},
    "mixed": {"nope": 3, "rows": -1, "y": "auto", "x": None},
    "int": -1,
    "auto": "auto",
    "list": [("rows", 2)],
}


# ------------------------------------------------------------------ observation


class Spies:
    names = ("to_variable", "to_dataset", "decode_coords", "SerializableLock")

    def __init__(self, fake_chunk):
        self.log = []
        self.fake_chunk = fake_chunk
        self.originals = {}

    def __enter__(self):
        for name in self.names:
            original = getattr(xarray_module, name)
            self.originals[name] = original
            setattr(xarray_module, name, self.wrap(name, original))

        self.original_chunk = xr.Dataset.chunk
        if self.fake_chunk:
            log = self.log

            def chunk(ds, chunks={}, **kwargs):  # noqa: B006
                log.append(["Dataset.chunk", show(dict(ds.sizes)), show(chunks), show(kwargs)])
                new = ds.copy()
                new.encoding["marker"] = "chunked:" + json.dumps(show(chunks))
                return new

            xr.Dataset.chunk = chunk
        return self

    def wrap(self, name, original):
        log = self.log

        def wrapper(*args, **kwargs):
            log.append([name, [self.label(a) for a in args], {k: self.label(v) for k, v in kwargs.items()}])
            return original(*args, **kwargs)

        return wrapper

    @staticmethod
    def label(value):
        if isinstance(value, Group):
            return f"Group:{value.path}:{list(value.data)}"
        if isinstance(value, Variable):
            return f"Variable:{value.dims}:{type(value.data).__qualname__}"
        if isinstance(value, xr.Dataset):
            return f"Dataset:{list(value.variables)}:{show(value.attrs)}"
        return show(value)

    def __exit__(self, *exc_info):
        for name, original in self.originals.items():
            setattr(xarray_module, name, original)
        xr.Dataset.chunk = self.original_chunk
        return False


def observe(func_name, describe, group, chunks, fake_chunk):
    attrs_before = show(getattr(group, "attrs", None))
    with Spies(fake_chunk) as spies:
        func = getattr(xarray_module, func_name)
        try:
            if chunks is OMITTED:
                result = func(group)
            else:
                result = func(group, chunks=chunks)
        except BaseException as e:  # noqa: B902
            observation = describe_error(e)
        else:
            observation = {"ok": describe(result)}
    observation["calls"] = spies.log
    # the group is left alone (decode_coords pops from the dataset's attrs, not ours)
    observation["group_attrs_unchanged"] = show(getattr(group, "attrs", None)) == attrs_before
    return observation


OMITTED = object()

SAMPLE_KEYS = [
    "to_datatree|nested-2|rows|fake",
    "to_datatree|subgroup-as-root|omitted|real",
    "to_datatree|failing-subgroup|none|real",
    "to_dataset|coords|mixed|fake",
    "to_dataset|lazy|int|real",
    "to_dataset|in-memory|empty|real",
]


def collect():
    warnings.simplefilter("ignore")

    observations = {}
    all_chunks = {"omitted": OMITTED, **CHUNKS}
    for group_name, group in groups():
        for chunks_name, chunks in all_chunks.items():
            for mode, fake_chunk in (("real", False), ("fake", True)):
                if chunks in (OMITTED, None) and fake_chunk:
                    continue
                observations[f"to_dataset|{group_name}|{chunks_name}|{mode}"] = observe(
                    "to_dataset", describe_dataset, group, chunks, fake_chunk
                )
                observations[f"to_datatree|{group_name}|{chunks_name}|{mode}"] = observe(
                    "to_datatree", describe_tree, group, chunks, fake_chunk
                )

    # to_variable on its own
    for group_name, group in groups():
        if group is None:
            continue
        for path, sub in group.subtree:
            for name, var in sub.variables.items():
                with Spies(False) as spies:
                    try:
                        converted = xarray_module.to_variable(var)
                    except BaseException as e:  # noqa: B902
                        obs = describe_error(e)
                    else:
                        obs = {"ok": describe_variable(converted)}
                        if isinstance(var.data, Array):
                            obs["same_array"] = converted._data.array.array is var.data
                        else:
                            obs["same_data"] = converted._data is var.data or bool(
                                np.shares_memory(converted.values, var.data)
                            )
                obs["calls"] = spies.log
                observations[f"to_variable|{group_name}|{path}|{name}"] = obs
    for name, bad in (("none", None), ("int", 3), ("xr-variable", xr.Variable("x", [1, 2]))):
        try:
            obs = {"ok": describe_variable(xarray_module.to_variable(bad))}
        except BaseException as e:  # noqa: B902
            obs = describe_error(e)
        observations[f"to_variable|bad|{name}"] = obs

    # every lazily indexed variable gets its own lock
    group = dict(groups())["nested"]
    tree = xarray_module.to_datatree(group)
    locks = [
        var._data.array.lock
        for node in tree.subtree
        for var in node.to_dataset(inherit=False).variables.values()
        if not var._in_memory
    ]
    observations["distinct-locks"] = [len(locks), len({id(lock) for lock in locks})]

    # reading through the converted objects still works
    group = dict(groups())["in-memory"]
    ds = xarray_module.to_dataset(group)
    observations["values"] = {name: show(ds[name].values) for name in ds.variables}

    return json.loads(json.dumps(observations))


def digest(value):
    return hashlib.sha256(json.dumps(value, sort_keys=True).encode()).hexdigest()[:12]


def test_equivalence():
    observations = collect()
    assert sorted(observations) == sorted(EXPECTED)
    for key, value in observations.items():
        assert digest(value) == EXPECTED[key], (key, value)
    # a few observations in full, to show what is being compared
    for key, value in EXPECTED_SAMPLES.items():
        assert observations[key] == value, (key, observations[key])


# recorded from the unchanged code: key -> digest of the full observation
EXPECTED = json.loads(
    r"""
{
"distinct-locks": "9bd5ef172cfe",
"to_dataset|attrs-only|auto|fake": "766b37866a4f",
"to_dataset|attrs-only|auto|real": "766b37866a4f",
"to_dataset|attrs-only|empty|fake": "ccee03ae4edc",
"to_dataset|attrs-only|empty|real": "83590433ef55",
"to_dataset|attrs-only|int|fake": "d7d868f51e1f",
"to_dataset|attrs-only|int|real": "d7d868f51e1f",
"to_dataset|attrs-only|list|fake": "fe0b03344e94",
"to_dataset|attrs-only|list|real": "fe0b03344e94",
"to_dataset|attrs-only|mixed|fake": "85fa913153ca",
"to_dataset|attrs-only|mixed|real": "84dc9a956176",
"to_dataset|attrs-only|none|real": "e631783f82f3",
"to_dataset|attrs-only|omitted|real": "554ebcc0d8b1",
"to_dataset|attrs-only|rows-cols|fake": "36569639ec05",
"to_dataset|attrs-only|rows-cols|real": "3c3d2b756382",
"to_dataset|attrs-only|rows|fake": "5ec21e5e8cf2",
"to_dataset|attrs-only|rows|real": "54968ad522c9",
"to_dataset|attrs-only|unknown|fake": "a6b6e9c013bb",
"to_dataset|attrs-only|unknown|real": "abeb48035c90",
"to_dataset|attrs-only|xy|fake": "d62e8aef5146",
"to_dataset|attrs-only|xy|real": "76bc69128a73",
"to_dataset|conflicting-sizes|auto|fake": "30cdaff2f605",
"to_dataset|conflicting-sizes|auto|real": "30cdaff2f605",
"to_dataset|conflicting-sizes|empty|fake": "584c875884df",
"to_dataset|conflicting-sizes|empty|real": "584c875884df",
"to_dataset|conflicting-sizes|int|fake": "7fa89ef08fe9",
"to_dataset|conflicting-sizes|int|real": "7fa89ef08fe9",
"to_dataset|conflicting-sizes|list|fake": "79611e658f77",
"to_dataset|conflicting-sizes|list|real": "79611e658f77",
"to_dataset|conflicting-sizes|mixed|fake": "dc512c436331",
"to_dataset|conflicting-sizes|mixed|real": "dc512c436331",
"to_dataset|conflicting-sizes|none|real": "72cc9e0c5632",
"to_dataset|conflicting-sizes|omitted|real": "75e5417b2eb6",
"to_dataset|conflicting-sizes|rows-cols|fake": "840f5c1f6cbd",
"to_dataset|conflicting-sizes|rows-cols|real": "840f5c1f6cbd",
"to_dataset|conflicting-sizes|rows|fake": "ab0d5d2e7098",
"to_dataset|conflicting-sizes|rows|real": "ab0d5d2e7098",
"to_dataset|conflicting-sizes|unknown|fake": "54c7e34e8b3a",
"to_dataset|conflicting-sizes|unknown|real": "54c7e34e8b3a",
"to_dataset|conflicting-sizes|xy|fake": "1cfda995487c",
"to_dataset|conflicting-sizes|xy|real": "1cfda995487c",
"to_dataset|coords-missing|auto|fake": "8d50bdc1ea97",
"to_dataset|coords-missing|auto|real": "8d50bdc1ea97",
"to_dataset|coords-missing|empty|fake": "f50e5b009e3a",
"to_dataset|coords-missing|empty|real": "f50e5b009e3a",
"to_dataset|coords-missing|int|fake": "792ef37c34fe",
"to_dataset|coords-missing|int|real": "792ef37c34fe",
"to_dataset|coords-missing|list|fake": "b95dc33daf79",
"to_dataset|coords-missing|list|real": "b95dc33daf79",
"to_dataset|coords-missing|mixed|fake": "2924ab9eb673",
"to_dataset|coords-missing|mixed|real": "2924ab9eb673",
"to_dataset|coords-missing|none|real": "15fc48cac1cb",
"to_dataset|coords-missing|omitted|real": "b3ac6c0521f3",
"to_dataset|coords-missing|rows-cols|fake": "b6de909e8a99",
"to_dataset|coords-missing|rows-cols|real": "b6de909e8a99",
"to_dataset|coords-missing|rows|fake": "f9e2a55c86d7",
"to_dataset|coords-missing|rows|real": "f9e2a55c86d7",
"to_dataset|coords-missing|unknown|fake": "9e93d699f71c",
"to_dataset|coords-missing|unknown|real": "9e93d699f71c",
"to_dataset|coords-missing|xy|fake": "44a80d056599",
"to_dataset|coords-missing|xy|real": "44a80d056599",
"to_dataset|coords-tuple|auto|fake": "4d1c437a85fb",
"to_dataset|coords-tuple|auto|real": "4d1c437a85fb",
"to_dataset|coords-tuple|empty|fake": "e86ae1ce401b",
"to_dataset|coords-tuple|empty|real": "70ec8cac9153",
"to_dataset|coords-tuple|int|fake": "247dbf44a085",
"to_dataset|coords-tuple|int|real": "247dbf44a085",
"to_dataset|coords-tuple|list|fake": "7c118b284390",
"to_dataset|coords-tuple|list|real": "7c118b284390",
"to_dataset|coords-tuple|mixed|fake": "f8c90c80dc66",
"to_dataset|coords-tuple|mixed|real": "c034190e3a75",
"to_dataset|coords-tuple|none|real": "f21d7adf5efd",
"to_dataset|coords-tuple|omitted|real": "17e45907e865",
"to_dataset|coords-tuple|rows-cols|fake": "f5ab772ac272",
"to_dataset|coords-tuple|rows-cols|real": "d22c35806495",
"to_dataset|coords-tuple|rows|fake": "ff0b7ea015c9",
"to_dataset|coords-tuple|rows|real": "9af569e9bc7c",
"to_dataset|coords-tuple|unknown|fake": "83bc937d614e",
"to_dataset|coords-tuple|unknown|real": "9df2fcd0a8b2",
"to_dataset|coords-tuple|xy|fake": "c64bc8459061",
"to_dataset|coords-tuple|xy|real": "ffdbdbac3cd9",
"to_dataset|coords|auto|fake": "0d3d3cb8346b",
"to_dataset|coords|auto|real": "0d3d3cb8346b",
"to_dataset|coords|empty|fake": "d8bd876940f5",
"to_dataset|coords|empty|real": "7a115913eba3",
"to_dataset|coords|int|fake": "1ce344c6b7dd",
"to_dataset|coords|int|real": "1ce344c6b7dd",
"to_dataset|coords|list|fake": "5f531a93590a",
"to_dataset|coords|list|real": "5f531a93590a",
"to_dataset|coords|mixed|fake": "411dbe7cb5f6",
"to_dataset|coords|mixed|real": "6b7cf2036c37",
"to_dataset|coords|none|real": "5ba445b0694c",
"to_dataset|coords|omitted|real": "784339e2000a",
"to_dataset|coords|rows-cols|fake": "48c4cd11f16d",
"to_dataset|coords|rows-cols|real": "8a31ea12f698",
"to_dataset|coords|rows|fake": "5bd9143a0b99",
"to_dataset|coords|rows|real": "7ad27ae482c3",
"to_dataset|coords|unknown|fake": "7ca828988f16",
"to_dataset|coords|unknown|real": "8c5a9d0ead57",
"to_dataset|coords|xy|fake": "c3548ae6e30e",
"to_dataset|coords|xy|real": "9c5844c6b5aa",
"to_dataset|empty|auto|fake": "f730b4741201",
"to_dataset|empty|auto|real": "f730b4741201",
"to_dataset|empty|empty|fake": "3272b901d0a1",
"to_dataset|empty|empty|real": "8ecc699b49b9",
"to_dataset|empty|int|fake": "76cfbde01dfc",
"to_dataset|empty|int|real": "76cfbde01dfc",
"to_dataset|empty|list|fake": "6a742428228d",
"to_dataset|empty|list|real": "6a742428228d",
"to_dataset|empty|mixed|fake": "342e1374c479",
"to_dataset|empty|mixed|real": "e1061ab7206f",
"to_dataset|empty|none|real": "215f6b344b84",
"to_dataset|empty|omitted|real": "13da8457edf5",
"to_dataset|empty|rows-cols|fake": "1a48b6dcd93c",
"to_dataset|empty|rows-cols|real": "9df0afe5408f",
"to_dataset|empty|rows|fake": "8d9f1525ed35",
"to_dataset|empty|rows|real": "bff11ef53df8",
"to_dataset|empty|unknown|fake": "8b8e3ec787c1",
"to_dataset|empty|unknown|real": "a158ce320ff4",
"to_dataset|empty|xy|fake": "0de78990f3d5",
"to_dataset|empty|xy|real": "ca957cd13f80",
"to_dataset|failing-subgroup|auto|fake": "745b11e6ab2e",
"to_dataset|failing-subgroup|auto|real": "745b11e6ab2e",
"to_dataset|failing-subgroup|empty|fake": "c97949f617a2",
"to_dataset|failing-subgroup|empty|real": "e3da0f0b8c3a",
"to_dataset|failing-subgroup|int|fake": "4f5d7604d44e",
"to_dataset|failing-subgroup|int|real": "4f5d7604d44e",
"to_dataset|failing-subgroup|list|fake": "f301c57c99ea",
"to_dataset|failing-subgroup|list|real": "f301c57c99ea",
"to_dataset|failing-subgroup|mixed|fake": "1c19555aab66",
"to_dataset|failing-subgroup|mixed|real": "b2c7628e07f6",
"to_dataset|failing-subgroup|none|real": "8b0967c67d9c",
"to_dataset|failing-subgroup|omitted|real": "eeab7f1cecbd",
"to_dataset|failing-subgroup|rows-cols|fake": "375378908860",
"to_dataset|failing-subgroup|rows-cols|real": "3eefd9847327",
"to_dataset|failing-subgroup|rows|fake": "09fa8f44a790",
"to_dataset|failing-subgroup|rows|real": "cce392dec191",
"to_dataset|failing-subgroup|unknown|fake": "931b874dd706",
"to_dataset|failing-subgroup|unknown|real": "babe9a908db8",
"to_dataset|failing-subgroup|xy|fake": "a1b797942ddb",
"to_dataset|failing-subgroup|xy|real": "a23d1e0ee903",
"to_dataset|in-memory|auto|fake": "dce8af93bd34",
"to_dataset|in-memory|auto|real": "dce8af93bd34",
"to_dataset|in-memory|empty|fake": "71a6350fc802",
"to_dataset|in-memory|empty|real": "5867e492ada7",
"to_dataset|in-memory|int|fake": "5710b64a7105",
"to_dataset|in-memory|int|real": "5710b64a7105",
"to_dataset|in-memory|list|fake": "92dc2301539b",
"to_dataset|in-memory|list|real": "92dc2301539b",
"to_dataset|in-memory|mixed|fake": "05a0c1fe07e6",
"to_dataset|in-memory|mixed|real": "da0dc87f0064",
"to_dataset|in-memory|none|real": "b17f576b1bd6",
"to_dataset|in-memory|omitted|real": "e9adbcf145fa",
"to_dataset|in-memory|rows-cols|fake": "20d9e94f6e0d",
"to_dataset|in-memory|rows-cols|real": "a3bc0fd1046d",
"to_dataset|in-memory|rows|fake": "cf63b3ee7b5a",
"to_dataset|in-memory|rows|real": "60d6be8a404c",
"to_dataset|in-memory|unknown|fake": "8ff071b8398a",
"to_dataset|in-memory|unknown|real": "1bb7a343c4c6",
"to_dataset|in-memory|xy|fake": "24c67f788f60",
"to_dataset|in-memory|xy|real": "f01cd946ddff",
"to_dataset|lazy|auto|fake": "9e97669d0d99",
"to_dataset|lazy|auto|real": "9e97669d0d99",
"to_dataset|lazy|empty|fake": "0982c1e05757",
"to_dataset|lazy|empty|real": "cdbd796a5d1f",
"to_dataset|lazy|int|fake": "bdc5bd56f0b5",
"to_dataset|lazy|int|real": "bdc5bd56f0b5",
"to_dataset|lazy|list|fake": "d0d424270b5b",
"to_dataset|lazy|list|real": "d0d424270b5b",
"to_dataset|lazy|mixed|fake": "fd2c03840af7",
"to_dataset|lazy|mixed|real": "d3548dffaaa9",
"to_dataset|lazy|none|real": "e49cbebd4c7a",
"to_dataset|lazy|omitted|real": "8d0e8b831c2f",
"to_dataset|lazy|rows-cols|fake": "bc94485961a5",
"to_dataset|lazy|rows-cols|real": "43f5d99ba614",
"to_dataset|lazy|rows|fake": "531692760e28",
"to_dataset|lazy|rows|real": "849e4f512d59",
"to_dataset|lazy|unknown|fake": "011dbb67e6a4",
"to_dataset|lazy|unknown|real": "a3724ec4440c",
"to_dataset|lazy|xy|fake": "756b11877601",
"to_dataset|lazy|xy|real": "fa10c63952e5",
"to_dataset|nested-2|auto|fake": "3740e8c79b1e",
"to_dataset|nested-2|auto|real": "3740e8c79b1e",
"to_dataset|nested-2|empty|fake": "4f57159ee4e3",
"to_dataset|nested-2|empty|real": "b896bfd5e10a",
"to_dataset|nested-2|int|fake": "eb11797dc96c",
"to_dataset|nested-2|int|real": "eb11797dc96c",
"to_dataset|nested-2|list|fake": "4ea0c663cbc9",
"to_dataset|nested-2|list|real": "4ea0c663cbc9",
"to_dataset|nested-2|mixed|fake": "6e4443b39180",
"to_dataset|nested-2|mixed|real": "d3c4f7cb8e52",
"to_dataset|nested-2|none|real": "df5632ebea81",
"to_dataset|nested-2|omitted|real": "ae6d74368960",
"to_dataset|nested-2|rows-cols|fake": "1bf69430f86e",
"to_dataset|nested-2|rows-cols|real": "829911b3e6c5",
"to_dataset|nested-2|rows|fake": "b78d3ce8427b",
"to_dataset|nested-2|rows|real": "1a5f087ae5c8",
"to_dataset|nested-2|unknown|fake": "0301f114f0ea",
"to_dataset|nested-2|unknown|real": "91bd14c98404",
"to_dataset|nested-2|xy|fake": "e030dd6886ea",
"to_dataset|nested-2|xy|real": "911e6af733c2",
"to_dataset|nested|auto|fake": "ed9e8768f20b",
"to_dataset|nested|auto|real": "ed9e8768f20b",
"to_dataset|nested|empty|fake": "879ae1d3b000",
"to_dataset|nested|empty|real": "b768694c21de",
"to_dataset|nested|int|fake": "66f2d69645ff",
"to_dataset|nested|int|real": "66f2d69645ff",
"to_dataset|nested|list|fake": "66eedf3ef229",
"to_dataset|nested|list|real": "66eedf3ef229",
"to_dataset|nested|mixed|fake": "3563975825da",
"to_dataset|nested|mixed|real": "e5262e09e549",
"to_dataset|nested|none|real": "c42cbbdfcb63",
"to_dataset|nested|omitted|real": "a22a4beb8af1",
"to_dataset|nested|rows-cols|fake": "96519fc9458e",
"to_dataset|nested|rows-cols|real": "6048c26de5fb",
"to_dataset|nested|rows|fake": "6045413c5f73",
"to_dataset|nested|rows|real": "df729427d0c3",
"to_dataset|nested|unknown|fake": "fe4909254490",
"to_dataset|nested|unknown|real": "6404dc7e04cd",
"to_dataset|nested|xy|fake": "131050381409",
"to_dataset|nested|xy|real": "943fe4050771",
"to_dataset|not-a-group|auto|fake": "de52ed49a42a",
"to_dataset|not-a-group|auto|real": "de52ed49a42a",
"to_dataset|not-a-group|empty|fake": "5c6f27845ada",
"to_dataset|not-a-group|empty|real": "5c6f27845ada",
"to_dataset|not-a-group|int|fake": "730513e3bc90",
"to_dataset|not-a-group|int|real": "730513e3bc90",
"to_dataset|not-a-group|list|fake": "04e47f4bdc4f",
"to_dataset|not-a-group|list|real": "04e47f4bdc4f",
"to_dataset|not-a-group|mixed|fake": "a9003c2281fb",
"to_dataset|not-a-group|mixed|real": "a9003c2281fb",
"to_dataset|not-a-group|none|real": "eab76b00894b",
"to_dataset|not-a-group|omitted|real": "9f5f417aafcd",
"to_dataset|not-a-group|rows-cols|fake": "28a5ca96cd4f",
"to_dataset|not-a-group|rows-cols|real": "28a5ca96cd4f",
"to_dataset|not-a-group|rows|fake": "5a6933e65ee7",
"to_dataset|not-a-group|rows|real": "5a6933e65ee7",
"to_dataset|not-a-group|unknown|fake": "049dcd6e4528",
"to_dataset|not-a-group|unknown|real": "049dcd6e4528",
"to_dataset|not-a-group|xy|fake": "c8ec583eae50",
"to_dataset|not-a-group|xy|real": "c8ec583eae50",
"to_dataset|relative-path|auto|fake": "34cc7a87bc11",
"to_dataset|relative-path|auto|real": "34cc7a87bc11",
"to_dataset|relative-path|empty|fake": "5e8252d890d6",
"to_dataset|relative-path|empty|real": "33bf4f19ca4b",
"to_dataset|relative-path|int|fake": "37f089c73906",
"to_dataset|relative-path|int|real": "37f089c73906",
"to_dataset|relative-path|list|fake": "cbe6c0d11303",
"to_dataset|relative-path|list|real": "cbe6c0d11303",
"to_dataset|relative-path|mixed|fake": "6776bb37da30",
"to_dataset|relative-path|mixed|real": "c022c8e99bfd",
"to_dataset|relative-path|none|real": "8d132f663555",
"to_dataset|relative-path|omitted|real": "a909b632d8d2",
"to_dataset|relative-path|rows-cols|fake": "c1f26a1b9f3c",
"to_dataset|relative-path|rows-cols|real": "91872d366df2",
"to_dataset|relative-path|rows|fake": "faf58f6c8fc0",
"to_dataset|relative-path|rows|real": "0713508cd628",
"to_dataset|relative-path|unknown|fake": "00bebd4d860a",
"to_dataset|relative-path|unknown|real": "c8e0b9d8faf5",
"to_dataset|relative-path|xy|fake": "897d5ca35d1d",
"to_dataset|relative-path|xy|real": "a2f52c6ee19a",
"to_dataset|subgroup-as-root|auto|fake": "af51fc5756d5",
"to_dataset|subgroup-as-root|auto|real": "af51fc5756d5",
"to_dataset|subgroup-as-root|empty|fake": "063f52cb5ddb",
"to_dataset|subgroup-as-root|empty|real": "0ab4fb6acd4c",
"to_dataset|subgroup-as-root|int|fake": "39db9a18a0d3",
"to_dataset|subgroup-as-root|int|real": "39db9a18a0d3",
"to_dataset|subgroup-as-root|list|fake": "f8e07862a293",
"to_dataset|subgroup-as-root|list|real": "f8e07862a293",
"to_dataset|subgroup-as-root|mixed|fake": "74d314b920fe",
"to_dataset|subgroup-as-root|mixed|real": "d7e9c6c8fb6a",
"to_dataset|subgroup-as-root|none|real": "058e61f9d0ae",
"to_dataset|subgroup-as-root|omitted|real": "b38eab42dcc7",
"to_dataset|subgroup-as-root|rows-cols|fake": "62d69ec3a782",
"to_dataset|subgroup-as-root|rows-cols|real": "b99131f4e0ca",
"to_dataset|subgroup-as-root|rows|fake": "dd4608647fff",
"to_dataset|subgroup-as-root|rows|real": "086a8deabed6",
"to_dataset|subgroup-as-root|unknown|fake": "e4204833b7d0",
"to_dataset|subgroup-as-root|unknown|real": "72cdbeae3240",
"to_dataset|subgroup-as-root|xy|fake": "1476c175ebf4",
"to_dataset|subgroup-as-root|xy|real": "10f323520c2f",
"to_datatree|attrs-only|auto|fake": "766b37866a4f",
"to_datatree|attrs-only|auto|real": "766b37866a4f",
"to_datatree|attrs-only|empty|fake": "eba1420b8b52",
"to_datatree|attrs-only|empty|real": "83590433ef55",
"to_datatree|attrs-only|int|fake": "d7d868f51e1f",
"to_datatree|attrs-only|int|real": "d7d868f51e1f",
"to_datatree|attrs-only|list|fake": "fe0b03344e94",
"to_datatree|attrs-only|list|real": "fe0b03344e94",
"to_datatree|attrs-only|mixed|fake": "9503c6482058",
"to_datatree|attrs-only|mixed|real": "84dc9a956176",
"to_datatree|attrs-only|none|real": "1be20123a1a2",
"to_datatree|attrs-only|omitted|real": "1be20123a1a2",
"to_datatree|attrs-only|rows-cols|fake": "c1f5203c094d",
"to_datatree|attrs-only|rows-cols|real": "3c3d2b756382",
"to_datatree|attrs-only|rows|fake": "83f6de6f122c",
"to_datatree|attrs-only|rows|real": "54968ad522c9",
"to_datatree|attrs-only|unknown|fake": "8c4b373a2c56",
"to_datatree|attrs-only|unknown|real": "abeb48035c90",
"to_datatree|attrs-only|xy|fake": "585c7d2674dd",
"to_datatree|attrs-only|xy|real": "76bc69128a73",
"to_datatree|conflicting-sizes|auto|fake": "30cdaff2f605",
"to_datatree|conflicting-sizes|auto|real": "30cdaff2f605",
"to_datatree|conflicting-sizes|empty|fake": "584c875884df",
"to_datatree|conflicting-sizes|empty|real": "584c875884df",
"to_datatree|conflicting-sizes|int|fake": "7fa89ef08fe9",
"to_datatree|conflicting-sizes|int|real": "7fa89ef08fe9",
"to_datatree|conflicting-sizes|list|fake": "79611e658f77",
"to_datatree|conflicting-sizes|list|real": "79611e658f77",
"to_datatree|conflicting-sizes|mixed|fake": "dc512c436331",
"to_datatree|conflicting-sizes|mixed|real": "dc512c436331",
"to_datatree|conflicting-sizes|none|real": "72cc9e0c5632",
"to_datatree|conflicting-sizes|omitted|real": "72cc9e0c5632",
"to_datatree|conflicting-sizes|rows-cols|fake": "840f5c1f6cbd",
"to_datatree|conflicting-sizes|rows-cols|real": "840f5c1f6cbd",
"to_datatree|conflicting-sizes|rows|fake": "ab0d5d2e7098",
"to_datatree|conflicting-sizes|rows|real": "ab0d5d2e7098",
"to_datatree|conflicting-sizes|unknown|fake": "54c7e34e8b3a",
"to_datatree|conflicting-sizes|unknown|real": "54c7e34e8b3a",
"to_datatree|conflicting-sizes|xy|fake": "1cfda995487c",
"to_datatree|conflicting-sizes|xy|real": "1cfda995487c",
"to_datatree|coords-missing|auto|fake": "8d50bdc1ea97",
"to_datatree|coords-missing|auto|real": "8d50bdc1ea97",
"to_datatree|coords-missing|empty|fake": "f50e5b009e3a",
"to_datatree|coords-missing|empty|real": "f50e5b009e3a",
"to_datatree|coords-missing|int|fake": "792ef37c34fe",
"to_datatree|coords-missing|int|real": "792ef37c34fe",
"to_datatree|coords-missing|list|fake": "b95dc33daf79",
"to_datatree|coords-missing|list|real": "b95dc33daf79",
"to_datatree|coords-missing|mixed|fake": "2924ab9eb673",
"to_datatree|coords-missing|mixed|real": "2924ab9eb673",
"to_datatree|coords-missing|none|real": "15fc48cac1cb",
"to_datatree|coords-missing|omitted|real": "15fc48cac1cb",
"to_datatree|coords-missing|rows-cols|fake": "b6de909e8a99",
"to_datatree|coords-missing|rows-cols|real": "b6de909e8a99",
"to_datatree|coords-missing|rows|fake": "f9e2a55c86d7",
"to_datatree|coords-missing|rows|real": "f9e2a55c86d7",
"to_datatree|coords-missing|unknown|fake": "9e93d699f71c",
"to_datatree|coords-missing|unknown|real": "9e93d699f71c",
"to_datatree|coords-missing|xy|fake": "44a80d056599",
"to_datatree|coords-missing|xy|real": "44a80d056599",
"to_datatree|coords-tuple|auto|fake": "4d1c437a85fb",
"to_datatree|coords-tuple|auto|real": "4d1c437a85fb",
"to_datatree|coords-tuple|empty|fake": "9584d6eca5b7",
"to_datatree|coords-tuple|empty|real": "70ec8cac9153",
"to_datatree|coords-tuple|int|fake": "247dbf44a085",
"to_datatree|coords-tuple|int|real": "247dbf44a085",
"to_datatree|coords-tuple|list|fake": "7c118b284390",
"to_datatree|coords-tuple|list|real": "7c118b284390",
"to_datatree|coords-tuple|mixed|fake": "c23429c9cb99",
"to_datatree|coords-tuple|mixed|real": "c034190e3a75",
"to_datatree|coords-tuple|none|real": "878bccfb2e50",
"to_datatree|coords-tuple|omitted|real": "878bccfb2e50",
"to_datatree|coords-tuple|rows-cols|fake": "6ef2d948ceb6",
"to_datatree|coords-tuple|rows-cols|real": "d22c35806495",
"to_datatree|coords-tuple|rows|fake": "e5e5ffd7f0e8",
"to_datatree|coords-tuple|rows|real": "9af569e9bc7c",
"to_datatree|coords-tuple|unknown|fake": "8194202a63a9",
"to_datatree|coords-tuple|unknown|real": "9df2fcd0a8b2",
"to_datatree|coords-tuple|xy|fake": "77f5924cd63e",
"to_datatree|coords-tuple|xy|real": "ffdbdbac3cd9",
"to_datatree|coords|auto|fake": "0d3d3cb8346b",
"to_datatree|coords|auto|real": "0d3d3cb8346b",
"to_datatree|coords|empty|fake": "b20d61c04772",
"to_datatree|coords|empty|real": "7a115913eba3",
"to_datatree|coords|int|fake": "1ce344c6b7dd",
"to_datatree|coords|int|real": "1ce344c6b7dd",
"to_datatree|coords|list|fake": "5f531a93590a",
"to_datatree|coords|list|real": "5f531a93590a",
"to_datatree|coords|mixed|fake": "51935d54fd8c",
"to_datatree|coords|mixed|real": "6b7cf2036c37",
"to_datatree|coords|none|real": "e2cdb3d7838c",
"to_datatree|coords|omitted|real": "e2cdb3d7838c",
"to_datatree|coords|rows-cols|fake": "944636466379",
"to_datatree|coords|rows-cols|real": "8a31ea12f698",
"to_datatree|coords|rows|fake": "d3e6e2bafbf4",
"to_datatree|coords|rows|real": "7ad27ae482c3",
"to_datatree|coords|unknown|fake": "2f0a80444375",
"to_datatree|coords|unknown|real": "8c5a9d0ead57",
"to_datatree|coords|xy|fake": "307d661bf9ed",
"to_datatree|coords|xy|real": "9c5844c6b5aa",
"to_datatree|empty|auto|fake": "f730b4741201",
"to_datatree|empty|auto|real": "f730b4741201",
"to_datatree|empty|empty|fake": "47450714722b",
"to_datatree|empty|empty|real": "8ecc699b49b9",
"to_datatree|empty|int|fake": "76cfbde01dfc",
"to_datatree|empty|int|real": "76cfbde01dfc",
"to_datatree|empty|list|fake": "6a742428228d",
"to_datatree|empty|list|real": "6a742428228d",
"to_datatree|empty|mixed|fake": "f06f622a9375",
"to_datatree|empty|mixed|real": "e1061ab7206f",
"to_datatree|empty|none|real": "cc92ccfbfbba",
"to_datatree|empty|omitted|real": "cc92ccfbfbba",
"to_datatree|empty|rows-cols|fake": "f88440247974",
"to_datatree|empty|rows-cols|real": "9df0afe5408f",
"to_datatree|empty|rows|fake": "3b86e0618a81",
"to_datatree|empty|rows|real": "bff11ef53df8",
"to_datatree|empty|unknown|fake": "f0ee7f9a4cb7",
"to_datatree|empty|unknown|real": "a158ce320ff4",
"to_datatree|empty|xy|fake": "64a19ffa8b31",
"to_datatree|empty|xy|real": "ca957cd13f80",
"to_datatree|failing-subgroup|auto|fake": "745b11e6ab2e",
"to_datatree|failing-subgroup|auto|real": "745b11e6ab2e",
"to_datatree|failing-subgroup|empty|fake": "10b187e866d8",
"to_datatree|failing-subgroup|empty|real": "e3da0f0b8c3a",
"to_datatree|failing-subgroup|int|fake": "4f5d7604d44e",
"to_datatree|failing-subgroup|int|real": "4f5d7604d44e",
"to_datatree|failing-subgroup|list|fake": "f301c57c99ea",
"to_datatree|failing-subgroup|list|real": "f301c57c99ea",
"to_datatree|failing-subgroup|mixed|fake": "7de122c161df",
"to_datatree|failing-subgroup|mixed|real": "b2c7628e07f6",
"to_datatree|failing-subgroup|none|real": "e53fb5fe4b0e",
"to_datatree|failing-subgroup|omitted|real": "e53fb5fe4b0e",
"to_datatree|failing-subgroup|rows-cols|fake": "86d69cd7a19a",
"to_datatree|failing-subgroup|rows-cols|real": "3eefd9847327",
"to_datatree|failing-subgroup|rows|fake": "575566310c0b",
"to_datatree|failing-subgroup|rows|real": "cce392dec191",
"to_datatree|failing-subgroup|unknown|fake": "fa3243fd3775",
"to_datatree|failing-subgroup|unknown|real": "babe9a908db8",
"to_datatree|failing-subgroup|xy|fake": "3f797c2d1517",
"to_datatree|failing-subgroup|xy|real": "a23d1e0ee903",
"to_datatree|in-memory|auto|fake": "dce8af93bd34",
"to_datatree|in-memory|auto|real": "dce8af93bd34",
"to_datatree|in-memory|empty|fake": "8513e7980030",
"to_datatree|in-memory|empty|real": "5867e492ada7",
"to_datatree|in-memory|int|fake": "5710b64a7105",
"to_datatree|in-memory|int|real": "5710b64a7105",
"to_datatree|in-memory|list|fake": "92dc2301539b",
"to_datatree|in-memory|list|real": "92dc2301539b",
"to_datatree|in-memory|mixed|fake": "98e8adfd51d5",
"to_datatree|in-memory|mixed|real": "da0dc87f0064",
"to_datatree|in-memory|none|real": "28cc9dd2589f",
"to_datatree|in-memory|omitted|real": "28cc9dd2589f",
"to_datatree|in-memory|rows-cols|fake": "326aba2f7a2d",
"to_datatree|in-memory|rows-cols|real": "a3bc0fd1046d",
"to_datatree|in-memory|rows|fake": "bea8daf13bcb",
"to_datatree|in-memory|rows|real": "60d6be8a404c",
"to_datatree|in-memory|unknown|fake": "39d91df99cee",
"to_datatree|in-memory|unknown|real": "1bb7a343c4c6",
"to_datatree|in-memory|xy|fake": "977b5a4f73f1",
"to_datatree|in-memory|xy|real": "f01cd946ddff",
"to_datatree|lazy|auto|fake": "9e97669d0d99",
"to_datatree|lazy|auto|real": "9e97669d0d99",
"to_datatree|lazy|empty|fake": "5b6dd3aca677",
"to_datatree|lazy|empty|real": "cdbd796a5d1f",
"to_datatree|lazy|int|fake": "bdc5bd56f0b5",
"to_datatree|lazy|int|real": "bdc5bd56f0b5",
"to_datatree|lazy|list|fake": "d0d424270b5b",
"to_datatree|lazy|list|real": "d0d424270b5b",
"to_datatree|lazy|mixed|fake": "05a27000d2f1",
"to_datatree|lazy|mixed|real": "d3548dffaaa9",
"to_datatree|lazy|none|real": "f794dabf7ab6",
"to_datatree|lazy|omitted|real": "f794dabf7ab6",
"to_datatree|lazy|rows-cols|fake": "fc748ac111d0",
"to_datatree|lazy|rows-cols|real": "43f5d99ba614",
"to_datatree|lazy|rows|fake": "a58505c55295",
"to_datatree|lazy|rows|real": "849e4f512d59",
"to_datatree|lazy|unknown|fake": "0bf05f83ae95",
"to_datatree|lazy|unknown|real": "a3724ec4440c",
"to_datatree|lazy|xy|fake": "c638b60fff3a",
"to_datatree|lazy|xy|real": "fa10c63952e5",
"to_datatree|nested-2|auto|fake": "3740e8c79b1e",
"to_datatree|nested-2|auto|real": "3740e8c79b1e",
"to_datatree|nested-2|empty|fake": "655cbfa5b2a4",
"to_datatree|nested-2|empty|real": "b896bfd5e10a",
"to_datatree|nested-2|int|fake": "eb11797dc96c",
"to_datatree|nested-2|int|real": "eb11797dc96c",
"to_datatree|nested-2|list|fake": "4ea0c663cbc9",
"to_datatree|nested-2|list|real": "4ea0c663cbc9",
"to_datatree|nested-2|mixed|fake": "cb5c9d487074",
"to_datatree|nested-2|mixed|real": "d3c4f7cb8e52",
"to_datatree|nested-2|none|real": "f120b4eb7932",
"to_datatree|nested-2|omitted|real": "f120b4eb7932",
"to_datatree|nested-2|rows-cols|fake": "8565f965529c",
"to_datatree|nested-2|rows-cols|real": "829911b3e6c5",
"to_datatree|nested-2|rows|fake": "33a83724077c",
"to_datatree|nested-2|rows|real": "1a5f087ae5c8",
"to_datatree|nested-2|unknown|fake": "8f6ddab13f8c",
"to_datatree|nested-2|unknown|real": "91bd14c98404",
"to_datatree|nested-2|xy|fake": "155a87021da3",
"to_datatree|nested-2|xy|real": "911e6af733c2",
"to_datatree|nested|auto|fake": "ed9e8768f20b",
"to_datatree|nested|auto|real": "ed9e8768f20b",
"to_datatree|nested|empty|fake": "0cc1db26e1bb",
"to_datatree|nested|empty|real": "b768694c21de",
"to_datatree|nested|int|fake": "66f2d69645ff",
"to_datatree|nested|int|real": "66f2d69645ff",
"to_datatree|nested|list|fake": "66eedf3ef229",
"to_datatree|nested|list|real": "66eedf3ef229",
"to_datatree|nested|mixed|fake": "f47ccac43244",
"to_datatree|nested|mixed|real": "e5262e09e549",
"to_datatree|nested|none|real": "3e5e03f804bd",
"to_datatree|nested|omitted|real": "3e5e03f804bd",
"to_datatree|nested|rows-cols|fake": "be3126ed2d7f",
"to_datatree|nested|rows-cols|real": "6048c26de5fb",
"to_datatree|nested|rows|fake": "d1ccc2b72243",
"to_datatree|nested|rows|real": "df729427d0c3",
"to_datatree|nested|unknown|fake": "c1fb58e60bb7",
"to_datatree|nested|unknown|real": "6404dc7e04cd",
"to_datatree|nested|xy|fake": "ca423c563476",
"to_datatree|nested|xy|real": "943fe4050771",
"to_datatree|not-a-group|auto|fake": "de52ed49a42a",
"to_datatree|not-a-group|auto|real": "de52ed49a42a",
"to_datatree|not-a-group|empty|fake": "5c6f27845ada",
"to_datatree|not-a-group|empty|real": "5c6f27845ada",
"to_datatree|not-a-group|int|fake": "730513e3bc90",
"to_datatree|not-a-group|int|real": "730513e3bc90",
"to_datatree|not-a-group|list|fake": "04e47f4bdc4f",
"to_datatree|not-a-group|list|real": "04e47f4bdc4f",
"to_datatree|not-a-group|mixed|fake": "a9003c2281fb",
"to_datatree|not-a-group|mixed|real": "a9003c2281fb",
"to_datatree|not-a-group|none|real": "eab76b00894b",
"to_datatree|not-a-group|omitted|real": "eab76b00894b",
"to_datatree|not-a-group|rows-cols|fake": "28a5ca96cd4f",
"to_datatree|not-a-group|rows-cols|real": "28a5ca96cd4f",
"to_datatree|not-a-group|rows|fake": "5a6933e65ee7",
"to_datatree|not-a-group|rows|real": "5a6933e65ee7",
"to_datatree|not-a-group|unknown|fake": "049dcd6e4528",
"to_datatree|not-a-group|unknown|real": "049dcd6e4528",
"to_datatree|not-a-group|xy|fake": "c8ec583eae50",
"to_datatree|not-a-group|xy|real": "c8ec583eae50",
"to_datatree|relative-path|auto|fake": "34cc7a87bc11",
"to_datatree|relative-path|auto|real": "34cc7a87bc11",
"to_datatree|relative-path|empty|fake": "528f71f49ede",
"to_datatree|relative-path|empty|real": "33bf4f19ca4b",
"to_datatree|relative-path|int|fake": "37f089c73906",
"to_datatree|relative-path|int|real": "37f089c73906",
"to_datatree|relative-path|list|fake": "cbe6c0d11303",
"to_datatree|relative-path|list|real": "cbe6c0d11303",
"to_datatree|relative-path|mixed|fake": "83714a4bde3b",
"to_datatree|relative-path|mixed|real": "c022c8e99bfd",
"to_datatree|relative-path|none|real": "4555de92f82c",
"to_datatree|relative-path|omitted|real": "4555de92f82c",
"to_datatree|relative-path|rows-cols|fake": "2ba603cc8c75",
"to_datatree|relative-path|rows-cols|real": "91872d366df2",
"to_datatree|relative-path|rows|fake": "53325ca78729",
"to_datatree|relative-path|rows|real": "0713508cd628",
"to_datatree|relative-path|unknown|fake": "f3c3680be154",
"to_datatree|relative-path|unknown|real": "c8e0b9d8faf5",
"to_datatree|relative-path|xy|fake": "7bfc0da9b1d8",
"to_datatree|relative-path|xy|real": "a2f52c6ee19a",
"to_datatree|subgroup-as-root|auto|fake": "af51fc5756d5",
"to_datatree|subgroup-as-root|auto|real": "af51fc5756d5",
"to_datatree|subgroup-as-root|empty|fake": "3a23d52b1cf7",
"to_datatree|subgroup-as-root|empty|real": "0ab4fb6acd4c",
"to_datatree|subgroup-as-root|int|fake": "39db9a18a0d3",
"to_datatree|subgroup-as-root|int|real": "39db9a18a0d3",
"to_datatree|subgroup-as-root|list|fake": "f8e07862a293",
"to_datatree|subgroup-as-root|list|real": "f8e07862a293",
"to_datatree|subgroup-as-root|mixed|fake": "747f1a184efb",
"to_datatree|subgroup-as-root|mixed|real": "d7e9c6c8fb6a",
"to_datatree|subgroup-as-root|none|real": "f795d419fa71",
"to_datatree|subgroup-as-root|omitted|real": "f795d419fa71",
"to_datatree|subgroup-as-root|rows-cols|fake": "10f89adb7d4e",
"to_datatree|subgroup-as-root|rows-cols|real": "b99131f4e0ca",
"to_datatree|subgroup-as-root|rows|fake": "cb7723691103",
"to_datatree|subgroup-as-root|rows|real": "086a8deabed6",
"to_datatree|subgroup-as-root|unknown|fake": "6773e0ca62f6",
"to_datatree|subgroup-as-root|unknown|real": "72cdbeae3240",
"to_datatree|subgroup-as-root|xy|fake": "662b700525b0",
"to_datatree|subgroup-as-root|xy|real": "10f323520c2f",
"to_variable|bad|int": "5c12cf4390df",
"to_variable|bad|none": "6669fe0f0b7d",
"to_variable|bad|xr-variable": "52bd660d61bd",
"to_variable|conflicting-sizes|/|a": "6fdd9b837258",
"to_variable|conflicting-sizes|/|c": "74a6ec8d7a27",
"to_variable|coords-missing|/|a": "6fdd9b837258",
"to_variable|coords-tuple|/|a": "6fdd9b837258",
"to_variable|coords-tuple|/|b": "69730f86fc59",
"to_variable|coords|/|img": "93e3239201a4",
"to_variable|coords|/|rows": "6fdd9b837258",
"to_variable|coords|/|s": "81c1683fb31d",
"to_variable|failing-subgroup|/bad|a": "6fdd9b837258",
"to_variable|failing-subgroup|/bad|c": "74a6ec8d7a27",
"to_variable|failing-subgroup|/never|b": "69730f86fc59",
"to_variable|failing-subgroup|/ok|a": "6fdd9b837258",
"to_variable|in-memory|/|a": "6fdd9b837258",
"to_variable|in-memory|/|b": "69730f86fc59",
"to_variable|lazy|/|img": "93e3239201a4",
"to_variable|lazy|/|line": "4e201b54b237",
"to_variable|nested-2|/a/b|w": "69730f86fc59",
"to_variable|nested-2|/a|v": "6fdd9b837258",
"to_variable|nested|/imagery/HH|data": "93e3239201a4",
"to_variable|nested|/imagery/HV|data": "93e3239201a4",
"to_variable|nested|/imagery/HV|rows": "6fdd9b837258",
"to_variable|nested|/imagery|meta": "69730f86fc59",
"to_variable|nested|/|top": "6fdd9b837258",
"to_variable|relative-path|rel|a": "6fdd9b837258",
"to_variable|subgroup-as-root|/a/b|w": "69730f86fc59",
"to_variable|subgroup-as-root|/a|v": "6fdd9b837258",
"values": "09d2207a3ef1"
}
"""
    if "--record" not in sys.argv
    else "{}"
)
EXPECTED_SAMPLES = json.loads(
    r"""
{
"to_dataset|coords|mixed|fake": {"calls": [["to_dataset", ["Group:/:['img', 'rows', 's']"], {"chunks": ["dict", ["str:'nope'", "int:3"], ["str:'rows'", "int:-1"], ["str:'y'", "str:'auto'"], ["str:'x'", "NoneType:None"]]}], ["to_variable", ["Variable:['rows', 'cols']:Array"], {}], ["SerializableLock", [], {}], ["to_variable", ["Variable:['rows']:ndarray"], {}], ["to_variable", ["Variable:[]:ndarray"], {}], ["decode_coords", ["Dataset:['img', 'rows', 's']:['dict', [\"str:'coordinates'\", ['list', \"str:'rows'\", \"str:'s'\"]], [\"str:'k'\", \"str:'v'\"]]"], {}], ["Dataset.chunk", ["dict", ["str:'rows'", "int:4"], ["str:'cols'", "int:3"]], ["dict", ["str:'rows'", "int:-1"]], ["dict"]]], "group_attrs_unchanged": true, "ok": {"attrs": ["dict", ["str:'k'", "str:'v'"]], "coords": {"rows": {"attrs": ["dict", ["str:'a'", "int:1"]], "data_type": "PandasIndexingAdapter", "dims": ["tuple", "str:'rows'"], "dtype": "int8", "encoding": ["dict"], "in_memory": true, "shape": ["tuple", "int:4"], "values": "ndarray:int8:(4,):[1, 2, 3, 4]"}, "s": {"attrs": ["dict"], "data_type": "ndarray", "dims": ["tuple"], "dtype": "int64", "encoding": ["dict"], "in_memory": true, "shape": ["tuple"], "values": "ndarray:int64:():7"}}, "data_vars": {"img": {"attrs": ["dict", ["str:'units'", "str:'dn'"]], "chain": ["LazilyIndexedArray", "LazilyIndexedWrapper"], "data_type": "LazilyIndexedArray", "dims": ["tuple", "str:'rows'", "str:'cols'"], "dtype": "uint16", "encoding": ["dict", ["str:'preferred_chunksizes'", ["dict", ["str:'rows'", "int:2"], ["str:'cols'", "int:3"]]]], "in_memory": false, "lock_type": "SerializableLock", "shape": ["tuple", "int:4", "int:3"], "wrapped": "Array(url='image', shape=(4, 3), dtype='uint16', records_per_chunk=2)"}}, "marker": "chunked:[\"dict\", [\"str:'rows'\", \"int:-1\"]]", "sizes": ["dict", ["str:'rows'", "int:4"], ["str:'cols'", "int:3"]], "var_order": ["img", "rows", "s"]}},
"to_dataset|in-memory|empty|real": {"calls": [["to_dataset", ["Group:/:['a', 'b']"], {"chunks": ["dict"]}], ["to_variable", ["Variable:['rows']:ndarray"], {}], ["to_variable", ["Variable:['x', 'y']:ndarray"], {}], ["decode_coords", ["Dataset:['a', 'b']:['dict', [\"str:'t'\", 'int:1']]"], {}]], "cause": null, "context": null, "error": "ImportError", "group_attrs_unchanged": true, "message": "chunk manager 'dask' is not available. Please make sure 'dask' is installed and importable."},
"to_dataset|lazy|int|real": {"calls": [["to_dataset", ["Group:/:['img', 'line']"], {"chunks": "int:-1"}], ["to_variable", ["Variable:['rows', 'cols']:Array"], {}], ["SerializableLock", [], {}], ["to_variable", ["Variable:['rows']:Array"], {}], ["SerializableLock", [], {}], ["decode_coords", ["Dataset:['img', 'line']:['dict']"], {}]], "cause": null, "context": null, "error": "AttributeError", "group_attrs_unchanged": true, "message": "'int' object has no attribute 'items'"},
"to_datatree|failing-subgroup|none|real": {"calls": [["to_dataset", ["Group:/:['ok', 'bad', 'never']"], {"chunks": "NoneType:None"}], ["decode_coords", ["Dataset:[]:['dict']"], {}], ["to_dataset", ["Group:/:[]"], {"chunks": "NoneType:None"}], ["decode_coords", ["Dataset:[]:['dict']"], {}], ["to_dataset", ["Group:/ok:['a']"], {"chunks": "NoneType:None"}], ["to_variable", ["Variable:['rows']:ndarray"], {}], ["decode_coords", ["Dataset:['a']:['dict']"], {}], ["to_dataset", ["Group:/bad:['a', 'c']"], {"chunks": "NoneType:None"}], ["to_variable", ["Variable:['rows']:ndarray"], {}], ["to_variable", ["Variable:['rows']:ndarray"], {}]], "cause": null, "context": null, "error": "ValueError", "group_attrs_unchanged": true, "message": "conflicting sizes for dimension 'rows': length 2 on 'c' and length 4 on {'rows': 'a'}"},
"to_datatree|nested-2|rows|fake": {"calls": [["to_dataset", ["Group:/:['a']"], {"chunks": ["dict", ["str:'rows'", "int:2"]]}], ["decode_coords", ["Dataset:[]:['dict', [\"str:'level'\", 'int:0']]"], {}], ["Dataset.chunk", ["dict"], ["dict"], ["dict"]], ["to_dataset", ["Group:/:[]"], {"chunks": ["dict", ["str:'rows'", "int:2"]]}], ["decode_coords", ["Dataset:[]:['dict', [\"str:'level'\", 'int:0']]"], {}], ["Dataset.chunk", ["dict"], ["dict"], ["dict"]], ["to_dataset", ["Group:/a:['v']"], {"chunks": ["dict", ["str:'rows'", "int:2"]]}], ["to_variable", ["Variable:['rows']:ndarray"], {}], ["decode_coords", ["Dataset:['v']:['dict', [\"str:'level'\", 'int:1']]"], {}], ["Dataset.chunk", ["dict", ["str:'rows'", "int:4"]], ["dict", ["str:'rows'", "int:2"]], ["dict"]], ["to_dataset", ["Group:/a/b:['w']"], {"chunks": ["dict", ["str:'rows'", "int:2"]]}], ["to_variable", ["Variable:['x', 'y']:ndarray"], {}], ["decode_coords", ["Dataset:['w']:['dict']"], {}], ["Dataset.chunk", ["dict", ["str:'x'", "int:3"], ["str:'y'", "int:4"]], ["dict"], ["dict"]]], "group_attrs_unchanged": true, "ok": {"nodes": [["/", {"attrs": ["dict", ["str:'level'", "int:0"]], "coords": {}, "data_vars": {}, "marker": "chunked:[\"dict\"]", "sizes": ["dict"], "var_order": []}], ["/a", {"attrs": ["dict", ["str:'level'", "int:1"]], "coords": {}, "data_vars": {"v": {"attrs": ["dict", ["str:'a'", "int:1"]], "data_type": "ndarray", "dims": ["tuple", "str:'rows'"], "dtype": "int8", "encoding": ["dict"], "in_memory": true, "shape": ["tuple", "int:4"], "values": "ndarray:int8:(4,):[1, 2, 3, 4]"}}, "marker": "chunked:[\"dict\", [\"str:'rows'\", \"int:2\"]]", "sizes": ["dict", ["str:'rows'", "int:4"]], "var_order": ["v"]}], ["/a/b", {"attrs": ["dict"], "coords": {}, "data_vars": {"w": {"attrs": ["dict", ["str:'b'", "str:'abc'"]], "data_type": "ndarray", "dims": ["tuple", "str:'x'", "str:'y'"], "dtype": "int64", "encoding": ["dict"], "in_memory": true, "shape": ["tuple", "int:3", "int:4"], "values": "ndarray:int64:(3, 4):[[0, 1, 2, 3], [4, 5, 6, 7], [8, 9, 10, 11]]"}}, "marker": "chunked:[\"dict\"]", "sizes": ["dict", ["str:'x'", "int:3"], ["str:'y'", "int:4"]], "var_order": ["w"]}]], "type": "DataTree"}},
"to_datatree|subgroup-as-root|omitted|real": {"calls": [["to_dataset", ["Group:/a:['v', 'b']"], {"chunks": "NoneType:None"}], ["to_variable", ["Variable:['rows']:ndarray"], {}], ["decode_coords", ["Dataset:['v']:['dict', [\"str:'level'\", 'int:1']]"], {}], ["to_dataset", ["Group:/a:['v']"], {"chunks": "NoneType:None"}], ["to_variable", ["Variable:['rows']:ndarray"], {}], ["decode_coords", ["Dataset:['v']:['dict', [\"str:'level'\", 'int:1']]"], {}], ["to_dataset", ["Group:/a/b:['w']"], {"chunks": "NoneType:None"}], ["to_variable", ["Variable:['x', 'y']:ndarray"], {}], ["decode_coords", ["Dataset:['w']:['dict']"], {}]], "group_attrs_unchanged": true, "ok": {"nodes": [["/", {"attrs": ["dict", ["str:'level'", "int:1"]], "coords": {}, "data_vars": {"v": {"attrs": ["dict", ["str:'a'", "int:1"]], "data_type": "ndarray", "dims": ["tuple", "str:'rows'"], "dtype": "int8", "encoding": ["dict"], "in_memory": true, "shape": ["tuple", "int:4"], "values": "ndarray:int8:(4,):[1, 2, 3, 4]"}}, "marker": null, "sizes": ["dict", ["str:'rows'", "int:4"]], "var_order": ["v"]}], ["/a", {"attrs": ["dict", ["str:'level'", "int:1"]], "coords": {}, "data_vars": {"v": {"attrs": ["dict", ["str:'a'", "int:1"]], "data_type": "ndarray", "dims": ["tuple", "str:'rows'"], "dtype": "int8", "encoding": ["dict"], "in_memory": true, "shape": ["tuple", "int:4"], "values": "ndarray:int8:(4,):[1, 2, 3, 4]"}}, "marker": null, "sizes": ["dict", ["str:'rows'", "int:4"]], "var_order": ["v"]}], ["/a/b", {"attrs": ["dict"], "coords": {}, "data_vars": {"w": {"attrs": ["dict", ["str:'b'", "str:'abc'"]], "data_type": "ndarray", "dims": ["tuple", "str:'x'", "str:'y'"], "dtype": "int64", "encoding": ["dict"], "in_memory": true, "shape": ["tuple", "int:3", "int:4"], "values": "ndarray:int64:(3, 4):[[0, 1, 2, 3], [4, 5, 6, 7], [8, 9, 10, 11]]"}}, "marker": null, "sizes": ["dict", ["str:'x'", "int:3"], ["str:'y'", "int:4"]], "var_order": ["w"]}]], "type": "DataTree"}}
}
"""
    if "--record" not in sys.argv
    else "{}"
)

if __name__ == "__main__":
    if "--record" in sys.argv:
        observations = collect()
        print(
            json.dumps(
                {
                    "EXPECTED": {k: digest(v) for k, v in observations.items()},
                    "SAMPLES": {k: observations[k] for k in SAMPLE_KEYS},
                }
            )
        )
    else:
        test_equivalence()
        print(f"ok: {len(EXPECTED)} observations identical")
