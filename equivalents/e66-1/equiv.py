"""Equivalence check for refactoring 1 (ascii adapters in ceos_alos2/datatypes.py).

Run as ``python _eq/1/equiv.py`` (or through pytest).  ``--record`` prints the
observations instead of comparing them (used once, on the unchanged code).
"""

import pprint
import sys

from construct import Adapter, Struct
from construct import PaddedString as ConstructPaddedString

from ceos_alos2 import datatypes
from ceos_alos2.sar_image.file_descriptor import file_descriptor_record

ADAPTERS = ["AsciiInteger", "AsciiFloat", "AsciiComplex", "PaddedString"]

PARSE_INPUTS = {
    "AsciiInteger": [
        (2, b"15"),
        (4, b"3989"),
        (4, b"  16"),
        (4, b"16  "),
        (4, b" 7\t\n"),
        (4, b"    "),
        (4, b"\t\n\r "),
        (4, b"\x00\x00\x00\x00"),
        (4, b"12\x00\x00"),
        (4, b"\x0012 "),
        (4, b"-  1"),
        (4, b"  -1"),
        (4, b"+007"),
        (4, b"1_00"),
        (4, b"0x1f"),
        (4, b"1.50"),
        (4, b"abcd"),
        (4, b"1 2 "),
        (4, b"12"),
        (4, b"123456"),
        (4, b"\xff\xfe12"),
        (0, b""),
        (0, b"123"),
        (1, b"0"),
        (16, b"     99999999999"),
        (24, b"123456789012345678901234"),
    ],
    "AsciiFloat": [
        (8, b"1558.423"),
        (8, b" 165.820"),
        (8, b"165.820 "),
        (8, b"        "),
        (8, b"\t\n\r \x0b\x0c  "),
        (8, b"\x00" * 8),
        (8, b"1.5\x00\x00\x00\x00\x00"),
        (16, b"162436598487.832"),
        (16, b"     6598487.832"),
        (16, b" 1.2345678E+03  "),
        (16, b"-1.2345678e-300 "),
        (8, b"     inf"),
        (8, b"-INF    "),
        (8, b"nan     "),
        (8, b"    -0.0"),
        (8, b"      -0"),
        (8, b"  1_0.5 "),
        (8, b"1e999   "),
        (8, b"1e-999  "),
        (8, b"  1,5   "),
        (8, b" 1.0 2.0"),
        (8, b"abc     "),
        (8, b"1.0"),
        (8, b"\xc3\xa9      "),
        (0, b""),
        (1, b"7"),
    ],
    "AsciiComplex": [
        (8, b"1.558.42"),
        (8, b"        "),
        (8, b"1.5     "),
        (8, b"    2.5 "),
        (16, b"162.3659487.8321"),
        (16, b" 62.3659 87.8321"),
        (16, b"     inf     1.0"),
        (16, b"     1.0     inf"),
        (16, b"    -inf    -inf"),
        (16, b"     nan     1.0"),
        (16, b"    -0.0    -0.0"),
        (16, b"     0.0    -0.0"),
        (16, b"  1e308   1e308 "),
        (7, b"1.52.5X"),
        (7, b"1.52.5"),
        (9, b"1.502.50Z"),
        (8, b"abcd1.00"),
        (8, b"1.00abcd"),
        (8, b"1.00"),
        (1, b"7"),
        (0, b""),
        (2, b"12"),
    ],
    "PaddedString": [
        (4, b"ALOS"),
        (4, b"abc "),
        (4, b" abc"),
        (4, b"    "),
        (4, b"a b "),
        (4, b"\tab\n"),
        (4, b"ab\x00\x00"),
        (4, b"\x00\x00ab"),
        (4, b"a\x00b "),
        (4, b" \x00\x00\x00"),
        (4, b"\x00\x00\x00\x00"),
        (4, b"ab"),
        (4, b"abcdef"),
        (4, b"\x80abc"),
        (0, b""),
        (1, b" "),
        (12, b"CEOS-SAR    "),
        (3, b"\x1c\x1d\x1e"),
    ],
}

DECODE_INPUTS = {
    "AsciiInteger": ["", " ", "12", " 12 ", "\n-3\t", "x", "١٢", "1 2", "\x00"],
    "AsciiFloat": ["", " ", "1.5", " 1.5 ", "nan", "NaN ", "-inf", "x", "\x00", "1e5"],
    "PaddedString": ["", " ", "a", " a b ", "\ta\n", "\x00a\x00", " a "],
}


def outcome(func, *args, **kwargs):
    try:
        value = func(*args, **kwargs)
    except Exception as e:  # noqa: BLE001
        return ("raise", type(e).__name__, str(e))
    return ("ok", type(value).__name__, repr(value))


def plain(container):
    return {k: v for k, v in container.items() if k != "_io"}


def describe(construct):
    """class names, names and lengths along the chain of subcons"""
    chain = []
    current = construct
    while current is not None:
        entry = {"class": type(current).__name__, "name": current.name}
        for attr in ("length", "encoding"):
            if attr in vars(current):
                entry[attr] = vars(current)[attr]
        if hasattr(current, "subcons"):
            entry["subcons"] = [describe(sub) for sub in current.subcons]
        chain.append(entry)
        current = getattr(current, "subcon", None)
    return chain


def synthetic_file_descriptor():
    # ascii digits everywhere behind the preamble: all integer fields parse, the
    # strings are returned as they are
    preamble = b"\x00\x00\x00\x01\x32\xc0\x12\x12\x00\x00\x02\xd0"
    body = (b"0123456789" * 80)[: 720 - len(preamble)]
    return preamble + body


def observe():
    obs = {}

    for name in ADAPTERS:
        cls = getattr(datatypes, name)

        obs[f"{name}:mro"] = [
            c.__name__ for c in cls.__mro__ if c.__module__ != "ceos_alos2.datatypes"
        ]
        obs[f"{name}:is-adapter"] = issubclass(cls, Adapter)

        for n_bytes, data in PARSE_INPUTS[name]:
            key = f"{name}:{n_bytes}:{data!r}"
            parser = cls(n_bytes)
            obs[f"{key}:parse"] = outcome(parser.parse, data)
            # as a member of a struct, followed by another field
            struct = Struct("value" / cls(n_bytes), "next" / datatypes.PaddedString(1))
            obs[f"{key}:struct"] = outcome(lambda: plain(struct.parse(data + b"#")))

        for n_bytes in sorted({n for n, _ in PARSE_INPUTS[name]}):
            parser = cls(n_bytes)
            obs[f"{name}:{n_bytes}:sizeof"] = outcome(parser.sizeof)
            obs[f"{name}:{n_bytes}:describe"] = describe(parser)

        for n_bytes in (0, 4):
            parser = cls(n_bytes)
            for value in (0, 1.5, "a", None, 1 + 2j):
                obs[f"{name}:{n_bytes}:build:{value!r}"] = outcome(parser.build, value)
                obs[f"{name}:{n_bytes}:encode:{value!r}"] = outcome(
                    parser._encode, value, None, "path"
                )

        for bad in (None, "4", 1.5, -1, [4]):
            obs[f"{name}:new:{bad!r}"] = outcome(cls, bad)[:2]
            obs[f"{name}:new-parse:{bad!r}"] = outcome(lambda: cls(bad).parse(b"1234"))[:2]
        obs[f"{name}:new:noargs"] = outcome(cls)[:2]
        obs[f"{name}:new:keyword"] = outcome(lambda: describe(cls(n_bytes=6)))
        obs[f"{name}:new:extra"] = outcome(cls, 4, "ascii")[:2]

    for name, texts in DECODE_INPUTS.items():
        parser = getattr(datatypes, name)(4)
        for text in texts:
            obs[f"{name}:decode:{text!r}"] = outcome(parser._decode, text, None, "path")
        for bad in (None, 12, b" 12 "):
            obs[f"{name}:decode:{bad!r}"] = outcome(parser._decode, bad, None, "path")

    class Parts(dict):
        __getattr__ = dict.__getitem__

    parser = datatypes.AsciiComplex(8)
    nan, inf = float("nan"), float("inf")
    for real, imaginary in [
        (1.0, 2.0),
        (0.0, -0.0),
        (-0.0, -0.0),
        (-0.0, 0.0),
        (inf, 1.0),
        (1.0, inf),
        (1.0, -inf),
        (nan, 1.0),
        (1.0, nan),
        (1, 2),
        (1e308, 1e308),
        ("a", 1.0),
        (None, None),
    ]:
        obs[f"AsciiComplex:decode:{real!r}:{imaginary!r}"] = outcome(
            parser._decode, Parts(real=real, imaginary=imaginary), None, "path"
        )
    obs["AsciiComplex:decode:missing"] = outcome(parser._decode, Parts(real=1.0), None, "p")[:2]

    # subclasses can still hook into decoding
    class Upper(datatypes.PaddedString):
        def _decode(self, obj, context, path):
            return super()._decode(obj, context, path).upper()

    class Doubled(datatypes.AsciiInteger):
        def _decode(self, obj, context, path):
            return 2 * super()._decode(obj, context, path)

    obs["subclass:PaddedString"] = outcome(Upper(4).parse, b" ab ")
    obs["subclass:AsciiInteger"] = outcome(Doubled(4).parse, b" 21 ")
    obs["subclass:AsciiInteger:blank"] = outcome(Doubled(4).parse, b"    ")

    # the base is construct's own padded string
    for name in ("AsciiInteger", "AsciiFloat", "PaddedString"):
        parser = getattr(datatypes, name)(5)
        obs[f"{name}:subcon"] = isinstance(parser.subcon, type(ConstructPaddedString(5, "ascii")))

    # a record of the area which is built from these adapters
    data = synthetic_file_descriptor()
    obs["file_descriptor:sizeof"] = outcome(file_descriptor_record.sizeof)
    obs["file_descriptor:parse"] = outcome(lambda: str(file_descriptor_record.parse(data)))
    obs["file_descriptor:short"] = outcome(file_descriptor_record.parse, data[:700])
    obs["file_descriptor:blank"] = outcome(
        lambda: str(file_descriptor_record.parse(data[:12] + b" " * 708))
    )
    obs["file_descriptor:letters"] = outcome(
        lambda: str(file_descriptor_record.parse(data[:12] + b"A" * 708))
    )
    return obs


# recorded with the unchanged code (--record)
EXPECTED = {'AsciiInteger:mro': ['Adapter', 'Subconstruct', 'Construct', 'object'],
 'AsciiInteger:is-adapter': True,
 "AsciiInteger:2:b'15':parse": ('ok', 'int', '15'),
 "AsciiInteger:2:b'15':struct": ('ok', 'dict', "{'value': 15, 'next': '#'}"),
 "AsciiInteger:4:b'3989':parse": ('ok', 'int', '3989'),
 "AsciiInteger:4:b'3989':struct": ('ok', 'dict', "{'value': 3989, 'next': '#'}"),
 "AsciiInteger:4:b'  16':parse": ('ok', 'int', '16'),
 "AsciiInteger:4:b'  16':struct": ('ok', 'dict', "{'value': 16, 'next': '#'}"),
 "AsciiInteger:4:b'16  ':parse": ('ok', 'int', '16'),
 "AsciiInteger:4:b'16  ':struct": ('ok', 'dict', "{'value': 16, 'next': '#'}"),
 "AsciiInteger:4:b' 7\\t\\n':parse": ('ok', 'int', '7'),
 "AsciiInteger:4:b' 7\\t\\n':struct": ('ok', 'dict', "{'value': 7, 'next': '#'}"),
 "AsciiInteger:4:b'    ':parse": ('ok', 'int', '-1'),
 "AsciiInteger:4:b'    ':struct": ('ok', 'dict', "{'value': -1, 'next': '#'}"),
 "AsciiInteger:4:b'\\t\\n\\r ':parse": ('ok', 'int', '-1'),
 "AsciiInteger:4:b'\\t\\n\\r ':struct": ('ok', 'dict', "{'value': -1, 'next': '#'}"),
 "AsciiInteger:4:b'\\x00\\x00\\x00\\x00':parse": ('ok', 'int', '-1'),
 "AsciiInteger:4:b'\\x00\\x00\\x00\\x00':struct": ('ok', 'dict', "{'value': -1, 'next': '#'}"),
 "AsciiInteger:4:b'12\\x00\\x00':parse": ('ok', 'int', '12'),
 "AsciiInteger:4:b'12\\x00\\x00':struct": ('ok', 'dict', "{'value': 12, 'next': '#'}"),
 "AsciiInteger:4:b'\\x0012 ':parse": ('raise',
                                      'ValueError',
                                      "invalid literal for int() with base 10: '\\x0012'"),
 "AsciiInteger:4:b'\\x0012 ':struct": ('raise',
                                       'ValueError',
                                       "invalid literal for int() with base 10: '\\x0012'"),
 "AsciiInteger:4:b'-  1':parse": ('raise',
                                  'ValueError',
                                  "invalid literal for int() with base 10: '-  1'"),
 "AsciiInteger:4:b'-  1':struct": ('raise',
                                   'ValueError',
                                   "invalid literal for int() with base 10: '-  1'"),
 "AsciiInteger:4:b'  -1':parse": ('ok', 'int', '-1'),
 "AsciiInteger:4:b'  -1':struct": ('ok', 'dict', "{'value': -1, 'next': '#'}"),
 "AsciiInteger:4:b'+007':parse": ('ok', 'int', '7'),
 "AsciiInteger:4:b'+007':struct": ('ok', 'dict', "{'value': 7, 'next': '#'}"),
 "AsciiInteger:4:b'1_00':parse": ('ok', 'int', '100'),
 "AsciiInteger:4:b'1_00':struct": ('ok', 'dict', "{'value': 100, 'next': '#'}"),
 "AsciiInteger:4:b'0x1f':parse": ('raise',
                                  'ValueError',
                                  "invalid literal for int() with base 10: '0x1f'"),
 "AsciiInteger:4:b'0x1f':struct": ('raise',
                                   'ValueError',
                                   "invalid literal for int() with base 10: '0x1f'"),
 "AsciiInteger:4:b'1.50':parse": ('raise',
                                  'ValueError',
                                  "invalid literal for int() with base 10: '1.50'"),
 "AsciiInteger:4:b'1.50':struct": ('raise',
                                   'ValueError',
                                   "invalid literal for int() with base 10: '1.50'"),
 "AsciiInteger:4:b'abcd':parse": ('raise',
                                  'ValueError',
                                  "invalid literal for int() with base 10: 'abcd'"),
 "AsciiInteger:4:b'abcd':struct": ('raise',
                                   'ValueError',
                                   "invalid literal for int() with base 10: 'abcd'"),
 "AsciiInteger:4:b'1 2 ':parse": ('raise',
                                  'ValueError',
                                  "invalid literal for int() with base 10: '1 2'"),
 "AsciiInteger:4:b'1 2 ':struct": ('raise',
                                   'ValueError',
                                   "invalid literal for int() with base 10: '1 2'"),
 "AsciiInteger:4:b'12':parse": ('raise',
                                'StreamError',
                                'Error in path (parsing)\n'
                                'stream read less than specified amount, expected 4, found 2'),
 "AsciiInteger:4:b'12':struct": ('raise',
                                 'StreamError',
                                 'Error in path (parsing) -> value\n'
                                 'stream read less than specified amount, expected 4, found 3'),
 "AsciiInteger:4:b'123456':parse": ('ok', 'int', '1234'),
 "AsciiInteger:4:b'123456':struct": ('ok', 'dict', "{'value': 1234, 'next': '5'}"),
 "AsciiInteger:4:b'\\xff\\xfe12':parse": ('raise',
                                          'StringError',
                                          "cannot use encoding 'ascii' to decode b'\\xff\\xfe12'"),
 "AsciiInteger:4:b'\\xff\\xfe12':struct": ('raise',
                                           'StringError',
                                           "cannot use encoding 'ascii' to decode b'\\xff\\xfe12'"),
 "AsciiInteger:0:b'':parse": ('ok', 'int', '-1'),
 "AsciiInteger:0:b'':struct": ('ok', 'dict', "{'value': -1, 'next': '#'}"),
 "AsciiInteger:0:b'123':parse": ('ok', 'int', '-1'),
 "AsciiInteger:0:b'123':struct": ('ok', 'dict', "{'value': -1, 'next': '1'}"),
 "AsciiInteger:1:b'0':parse": ('ok', 'int', '0'),
 "AsciiInteger:1:b'0':struct": ('ok', 'dict', "{'value': 0, 'next': '#'}"),
 "AsciiInteger:16:b'     99999999999':parse": ('ok', 'int', '99999999999'),
 "AsciiInteger:16:b'     99999999999':struct": ('ok',
                                                'dict',
                                                "{'value': 99999999999, 'next': '#'}"),
 "AsciiInteger:24:b'123456789012345678901234':parse": ('ok', 'int', '123456789012345678901234'),
 "AsciiInteger:24:b'123456789012345678901234':struct": ('ok',
                                                        'dict',
                                                        "{'value': 123456789012345678901234, "
                                                        "'next': '#'}"),
 'AsciiInteger:0:sizeof': ('ok', 'int', '0'),
 'AsciiInteger:0:describe': [{'class': 'AsciiInteger', 'name': None},
                             {'class': 'StringEncoded', 'name': None, 'encoding': 'ascii'},
                             {'class': 'FixedSized', 'name': None, 'length': 0},
                             {'class': 'NullStripped', 'name': None},
                             {'class': 'GreedyBytes', 'name': None}],
 'AsciiInteger:1:sizeof': ('ok', 'int', '1'),
 'AsciiInteger:1:describe': [{'class': 'AsciiInteger', 'name': None},
                             {'class': 'StringEncoded', 'name': None, 'encoding': 'ascii'},
                             {'class': 'FixedSized', 'name': None, 'length': 1},
                             {'class': 'NullStripped', 'name': None},
                             {'class': 'GreedyBytes', 'name': None}],
 'AsciiInteger:2:sizeof': ('ok', 'int', '2'),
 'AsciiInteger:2:describe': [{'class': 'AsciiInteger', 'name': None},
                             {'class': 'StringEncoded', 'name': None, 'encoding': 'ascii'},
                             {'class': 'FixedSized', 'name': None, 'length': 2},
                             {'class': 'NullStripped', 'name': None},
                             {'class': 'GreedyBytes', 'name': None}],
 'AsciiInteger:4:sizeof': ('ok', 'int', '4'),
 'AsciiInteger:4:describe': [{'class': 'AsciiInteger', 'name': None},
                             {'class': 'StringEncoded', 'name': None, 'encoding': 'ascii'},
                             {'class': 'FixedSized', 'name': None, 'length': 4},
                             {'class': 'NullStripped', 'name': None},
                             {'class': 'GreedyBytes', 'name': None}],
 'AsciiInteger:16:sizeof': ('ok', 'int', '16'),
 'AsciiInteger:16:describe': [{'class': 'AsciiInteger', 'name': None},
                              {'class': 'StringEncoded', 'name': None, 'encoding': 'ascii'},
                              {'class': 'FixedSized', 'name': None, 'length': 16},
                              {'class': 'NullStripped', 'name': None},
                              {'class': 'GreedyBytes', 'name': None}],
 'AsciiInteger:24:sizeof': ('ok', 'int', '24'),
 'AsciiInteger:24:describe': [{'class': 'AsciiInteger', 'name': None},
                              {'class': 'StringEncoded', 'name': None, 'encoding': 'ascii'},
                              {'class': 'FixedSized', 'name': None, 'length': 24},
                              {'class': 'NullStripped', 'name': None},
                              {'class': 'GreedyBytes', 'name': None}],
 'AsciiInteger:0:build:0': ('raise', 'NotImplementedError', ''),
 'AsciiInteger:0:encode:0': ('raise', 'NotImplementedError', ''),
 'AsciiInteger:0:build:1.5': ('raise', 'NotImplementedError', ''),
 'AsciiInteger:0:encode:1.5': ('raise', 'NotImplementedError', ''),
 "AsciiInteger:0:build:'a'": ('raise', 'NotImplementedError', ''),
 "AsciiInteger:0:encode:'a'": ('raise', 'NotImplementedError', ''),
 'AsciiInteger:0:build:None': ('raise', 'NotImplementedError', ''),
 'AsciiInteger:0:encode:None': ('raise', 'NotImplementedError', ''),
 'AsciiInteger:0:build:(1+2j)': ('raise', 'NotImplementedError', ''),
 'AsciiInteger:0:encode:(1+2j)': ('raise', 'NotImplementedError', ''),
 'AsciiInteger:4:build:0': ('raise', 'NotImplementedError', ''),
 'AsciiInteger:4:encode:0': ('raise', 'NotImplementedError', ''),
 'AsciiInteger:4:build:1.5': ('raise', 'NotImplementedError', ''),
 'AsciiInteger:4:encode:1.5': ('raise', 'NotImplementedError', ''),
 "AsciiInteger:4:build:'a'": ('raise', 'NotImplementedError', ''),
 "AsciiInteger:4:encode:'a'": ('raise', 'NotImplementedError', ''),
 'AsciiInteger:4:build:None': ('raise', 'NotImplementedError', ''),
 'AsciiInteger:4:encode:None': ('raise', 'NotImplementedError', ''),
 'AsciiInteger:4:build:(1+2j)': ('raise', 'NotImplementedError', ''),
 'AsciiInteger:4:encode:(1+2j)': ('raise', 'NotImplementedError', ''),
 'AsciiInteger:new:None': ('ok', 'AsciiInteger'),
 'AsciiInteger:new-parse:None': ('raise', 'TypeError'),
 "AsciiInteger:new:'4'": ('ok', 'AsciiInteger'),
 "AsciiInteger:new-parse:'4'": ('raise', 'TypeError'),
 'AsciiInteger:new:1.5': ('ok', 'AsciiInteger'),
 'AsciiInteger:new-parse:1.5': ('raise', 'StreamError'),
 'AsciiInteger:new:-1': ('ok', 'AsciiInteger'),
 'AsciiInteger:new-parse:-1': ('raise', 'PaddingError'),
 'AsciiInteger:new:[4]': ('ok', 'AsciiInteger'),
 'AsciiInteger:new-parse:[4]': ('raise', 'TypeError'),
 'AsciiInteger:new:noargs': ('raise', 'TypeError'),
 'AsciiInteger:new:keyword': ('ok',
                              'list',
                              "[{'class': 'AsciiInteger', 'name': None}, {'class': "
                              "'StringEncoded', 'name': None, 'encoding': 'ascii'}, {'class': "
                              "'FixedSized', 'name': None, 'length': 6}, {'class': 'NullStripped', "
                              "'name': None}, {'class': 'GreedyBytes', 'name': None}]"),
 'AsciiInteger:new:extra': ('raise', 'TypeError'),
 'AsciiFloat:mro': ['Adapter', 'Subconstruct', 'Construct', 'object'],
 'AsciiFloat:is-adapter': True,
 "AsciiFloat:8:b'1558.423':parse": ('ok', 'float', '1558.423'),
 "AsciiFloat:8:b'1558.423':struct": ('ok', 'dict', "{'value': 1558.423, 'next': '#'}"),
 "AsciiFloat:8:b' 165.820':parse": ('ok', 'float', '165.82'),
 "AsciiFloat:8:b' 165.820':struct": ('ok', 'dict', "{'value': 165.82, 'next': '#'}"),
 "AsciiFloat:8:b'165.820 ':parse": ('ok', 'float', '165.82'),
 "AsciiFloat:8:b'165.820 ':struct": ('ok', 'dict', "{'value': 165.82, 'next': '#'}"),
 "AsciiFloat:8:b'        ':parse": ('ok', 'float', 'nan'),
 "AsciiFloat:8:b'        ':struct": ('ok', 'dict', "{'value': nan, 'next': '#'}"),
 "AsciiFloat:8:b'\\t\\n\\r \\x0b\\x0c  ':parse": ('ok', 'float', 'nan'),
 "AsciiFloat:8:b'\\t\\n\\r \\x0b\\x0c  ':struct": ('ok', 'dict', "{'value': nan, 'next': '#'}"),
 "AsciiFloat:8:b'\\x00\\x00\\x00\\x00\\x00\\x00\\x00\\x00':parse": ('ok', 'float', 'nan'),
 "AsciiFloat:8:b'\\x00\\x00\\x00\\x00\\x00\\x00\\x00\\x00':struct": ('ok',
                                                                     'dict',
                                                                     "{'value': nan, 'next': '#'}"),
 "AsciiFloat:8:b'1.5\\x00\\x00\\x00\\x00\\x00':parse": ('ok', 'float', '1.5'),
 "AsciiFloat:8:b'1.5\\x00\\x00\\x00\\x00\\x00':struct": ('ok',
                                                         'dict',
                                                         "{'value': 1.5, 'next': '#'}"),
 "AsciiFloat:16:b'162436598487.832':parse": ('ok', 'float', '162436598487.832'),
 "AsciiFloat:16:b'162436598487.832':struct": ('ok',
                                              'dict',
                                              "{'value': 162436598487.832, 'next': '#'}"),
 "AsciiFloat:16:b'     6598487.832':parse": ('ok', 'float', '6598487.832'),
 "AsciiFloat:16:b'     6598487.832':struct": ('ok', 'dict', "{'value': 6598487.832, 'next': '#'}"),
 "AsciiFloat:16:b' 1.2345678E+03  ':parse": ('ok', 'float', '1234.5678'),
 "AsciiFloat:16:b' 1.2345678E+03  ':struct": ('ok', 'dict', "{'value': 1234.5678, 'next': '#'}"),
 "AsciiFloat:16:b'-1.2345678e-300 ':parse": ('ok', 'float', '-1.2345678e-300'),
 "AsciiFloat:16:b'-1.2345678e-300 ':struct": ('ok',
                                              'dict',
                                              "{'value': -1.2345678e-300, 'next': '#'}"),
 "AsciiFloat:8:b'     inf':parse": ('ok', 'float', 'inf'),
 "AsciiFloat:8:b'     inf':struct": ('ok', 'dict', "{'value': inf, 'next': '#'}"),
 "AsciiFloat:8:b'-INF    ':parse": ('ok', 'float', '-inf'),
 "AsciiFloat:8:b'-INF    ':struct": ('ok', 'dict', "{'value': -inf, 'next': '#'}"),
 "AsciiFloat:8:b'nan     ':parse": ('ok', 'float', 'nan'),
 "AsciiFloat:8:b'nan     ':struct": ('ok', 'dict', "{'value': nan, 'next': '#'}"),
 "AsciiFloat:8:b'    -0.0':parse": ('ok', 'float', '-0.0'),
 "AsciiFloat:8:b'    -0.0':struct": ('ok', 'dict', "{'value': -0.0, 'next': '#'}"),
 "AsciiFloat:8:b'      -0':parse": ('ok', 'float', '-0.0'),
 "AsciiFloat:8:b'      -0':struct": ('ok', 'dict', "{'value': -0.0, 'next': '#'}"),
 "AsciiFloat:8:b'  1_0.5 ':parse": ('ok', 'float', '10.5'),
 "AsciiFloat:8:b'  1_0.5 ':struct": ('ok', 'dict', "{'value': 10.5, 'next': '#'}"),
 "AsciiFloat:8:b'1e999   ':parse": ('ok', 'float', 'inf'),
 "AsciiFloat:8:b'1e999   ':struct": ('ok', 'dict', "{'value': inf, 'next': '#'}"),
 "AsciiFloat:8:b'1e-999  ':parse": ('ok', 'float', '0.0'),
 "AsciiFloat:8:b'1e-999  ':struct": ('ok', 'dict', "{'value': 0.0, 'next': '#'}"),
 "AsciiFloat:8:b'  1,5   ':parse": ('raise',
                                    'ValueError',
                                    "could not convert string to float: '1,5'"),
 "AsciiFloat:8:b'  1,5   ':struct": ('raise',
                                     'ValueError',
                                     "could not convert string to float: '1,5'"),
 "AsciiFloat:8:b' 1.0 2.0':parse": ('raise',
                                    'ValueError',
                                    "could not convert string to float: '1.0 2.0'"),
 "AsciiFloat:8:b' 1.0 2.0':struct": ('raise',
                                     'ValueError',
                                     "could not convert string to float: '1.0 2.0'"),
 "AsciiFloat:8:b'abc     ':parse": ('raise',
                                    'ValueError',
                                    "could not convert string to float: 'abc'"),
 "AsciiFloat:8:b'abc     ':struct": ('raise',
                                     'ValueError',
                                     "could not convert string to float: 'abc'"),
 "AsciiFloat:8:b'1.0':parse": ('raise',
                               'StreamError',
                               'Error in path (parsing)\n'
                               'stream read less than specified amount, expected 8, found 3'),
 "AsciiFloat:8:b'1.0':struct": ('raise',
                                'StreamError',
                                'Error in path (parsing) -> value\n'
                                'stream read less than specified amount, expected 8, found 4'),
 "AsciiFloat:8:b'\\xc3\\xa9      ':parse": ('raise',
                                            'StringError',
                                            "cannot use encoding 'ascii' to decode "
                                            "b'\\xc3\\xa9      '"),
 "AsciiFloat:8:b'\\xc3\\xa9      ':struct": ('raise',
                                             'StringError',
                                             "cannot use encoding 'ascii' to decode "
                                             "b'\\xc3\\xa9      '"),
 "AsciiFloat:0:b'':parse": ('ok', 'float', 'nan'),
 "AsciiFloat:0:b'':struct": ('ok', 'dict', "{'value': nan, 'next': '#'}"),
 "AsciiFloat:1:b'7':parse": ('ok', 'float', '7.0'),
 "AsciiFloat:1:b'7':struct": ('ok', 'dict', "{'value': 7.0, 'next': '#'}"),
 'AsciiFloat:0:sizeof': ('ok', 'int', '0'),
 'AsciiFloat:0:describe': [{'class': 'AsciiFloat', 'name': None},
                           {'class': 'StringEncoded', 'name': None, 'encoding': 'ascii'},
                           {'class': 'FixedSized', 'name': None, 'length': 0},
                           {'class': 'NullStripped', 'name': None},
                           {'class': 'GreedyBytes', 'name': None}],
 'AsciiFloat:1:sizeof': ('ok', 'int', '1'),
 'AsciiFloat:1:describe': [{'class': 'AsciiFloat', 'name': None},
                           {'class': 'StringEncoded', 'name': None, 'encoding': 'ascii'},
                           {'class': 'FixedSized', 'name': None, 'length': 1},
                           {'class': 'NullStripped', 'name': None},
                           {'class': 'GreedyBytes', 'name': None}],
 'AsciiFloat:8:sizeof': ('ok', 'int', '8'),
 'AsciiFloat:8:describe': [{'class': 'AsciiFloat', 'name': None},
                           {'class': 'StringEncoded', 'name': None, 'encoding': 'ascii'},
                           {'class': 'FixedSized', 'name': None, 'length': 8},
                           {'class': 'NullStripped', 'name': None},
                           {'class': 'GreedyBytes', 'name': None}],
 'AsciiFloat:16:sizeof': ('ok', 'int', '16'),
 'AsciiFloat:16:describe': [{'class': 'AsciiFloat', 'name': None},
                            {'class': 'StringEncoded', 'name': None, 'encoding': 'ascii'},
                            {'class': 'FixedSized', 'name': None, 'length': 16},
                            {'class': 'NullStripped', 'name': None},
                            {'class': 'GreedyBytes', 'name': None}],
 'AsciiFloat:0:build:0': ('raise', 'NotImplementedError', ''),
 'AsciiFloat:0:encode:0': ('raise', 'NotImplementedError', ''),
 'AsciiFloat:0:build:1.5': ('raise', 'NotImplementedError', ''),
 'AsciiFloat:0:encode:1.5': ('raise', 'NotImplementedError', ''),
 "AsciiFloat:0:build:'a'": ('raise', 'NotImplementedError', ''),
 "AsciiFloat:0:encode:'a'": ('raise', 'NotImplementedError', ''),
 'AsciiFloat:0:build:None': ('raise', 'NotImplementedError', ''),
 'AsciiFloat:0:encode:None': ('raise', 'NotImplementedError', ''),
 'AsciiFloat:0:build:(1+2j)': ('raise', 'NotImplementedError', ''),
 'AsciiFloat:0:encode:(1+2j)': ('raise', 'NotImplementedError', ''),
 'AsciiFloat:4:build:0': ('raise', 'NotImplementedError', ''),
 'AsciiFloat:4:encode:0': ('raise', 'NotImplementedError', ''),
 'AsciiFloat:4:build:1.5': ('raise', 'NotImplementedError', ''),
 'AsciiFloat:4:encode:1.5': ('raise', 'NotImplementedError', ''),
 "AsciiFloat:4:build:'a'": ('raise', 'NotImplementedError', ''),
 "AsciiFloat:4:encode:'a'": ('raise', 'NotImplementedError', ''),
 'AsciiFloat:4:build:None': ('raise', 'NotImplementedError', ''),
 'AsciiFloat:4:encode:None': ('raise', 'NotImplementedError', ''),
 'AsciiFloat:4:build:(1+2j)': ('raise', 'NotImplementedError', ''),
 'AsciiFloat:4:encode:(1+2j)': ('raise', 'NotImplementedError', ''),
 'AsciiFloat:new:None': ('ok', 'AsciiFloat'),
 'AsciiFloat:new-parse:None': ('raise', 'TypeError'),
 "AsciiFloat:new:'4'": ('ok', 'AsciiFloat'),
 "AsciiFloat:new-parse:'4'": ('raise', 'TypeError'),
 'AsciiFloat:new:1.5': ('ok', 'AsciiFloat'),
 'AsciiFloat:new-parse:1.5': ('raise', 'StreamError'),
 'AsciiFloat:new:-1': ('ok', 'AsciiFloat'),
 'AsciiFloat:new-parse:-1': ('raise', 'PaddingError'),
 'AsciiFloat:new:[4]': ('ok', 'AsciiFloat'),
 'AsciiFloat:new-parse:[4]': ('raise', 'TypeError'),
 'AsciiFloat:new:noargs': ('raise', 'TypeError'),
 'AsciiFloat:new:keyword': ('ok',
                            'list',
                            "[{'class': 'AsciiFloat', 'name': None}, {'class': 'StringEncoded', "
                            "'name': None, 'encoding': 'ascii'}, {'class': 'FixedSized', 'name': "
                            "None, 'length': 6}, {'class': 'NullStripped', 'name': None}, "
                            "{'class': 'GreedyBytes', 'name': None}]"),
 'AsciiFloat:new:extra': ('raise', 'TypeError'),
 'AsciiComplex:mro': ['Adapter', 'Subconstruct', 'Construct', 'object'],
 'AsciiComplex:is-adapter': True,
 "AsciiComplex:8:b'1.558.42':parse": ('ok', 'complex', '(1.55+8.42j)'),
 "AsciiComplex:8:b'1.558.42':struct": ('ok', 'dict', "{'value': (1.55+8.42j), 'next': '#'}"),
 "AsciiComplex:8:b'        ':parse": ('ok', 'complex', '(nan+nanj)'),
 "AsciiComplex:8:b'        ':struct": ('ok', 'dict', "{'value': (nan+nanj), 'next': '#'}"),
 "AsciiComplex:8:b'1.5     ':parse": ('ok', 'complex', '(nan+nanj)'),
 "AsciiComplex:8:b'1.5     ':struct": ('ok', 'dict', "{'value': (nan+nanj), 'next': '#'}"),
 "AsciiComplex:8:b'    2.5 ':parse": ('ok', 'complex', '(nan+2.5j)'),
 "AsciiComplex:8:b'    2.5 ':struct": ('ok', 'dict', "{'value': (nan+2.5j), 'next': '#'}"),
 "AsciiComplex:16:b'162.3659487.8321':parse": ('ok', 'complex', '(162.3659+487.8321j)'),
 "AsciiComplex:16:b'162.3659487.8321':struct": ('ok',
                                                'dict',
                                                "{'value': (162.3659+487.8321j), 'next': '#'}"),
 "AsciiComplex:16:b' 62.3659 87.8321':parse": ('ok', 'complex', '(62.3659+87.8321j)'),
 "AsciiComplex:16:b' 62.3659 87.8321':struct": ('ok',
                                                'dict',
                                                "{'value': (62.3659+87.8321j), 'next': '#'}"),
 "AsciiComplex:16:b'     inf     1.0':parse": ('ok', 'complex', '(inf+1j)'),
 "AsciiComplex:16:b'     inf     1.0':struct": ('ok', 'dict', "{'value': (inf+1j), 'next': '#'}"),
 "AsciiComplex:16:b'     1.0     inf':parse": ('ok', 'complex', '(nan+infj)'),
 "AsciiComplex:16:b'     1.0     inf':struct": ('ok', 'dict', "{'value': (nan+infj), 'next': '#'}"),
 "AsciiComplex:16:b'    -inf    -inf':parse": ('ok', 'complex', '(nan-infj)'),
 "AsciiComplex:16:b'    -inf    -inf':struct": ('ok', 'dict', "{'value': (nan-infj), 'next': '#'}"),
 "AsciiComplex:16:b'     nan     1.0':parse": ('ok', 'complex', '(nan+1j)'),
 "AsciiComplex:16:b'     nan     1.0':struct": ('ok', 'dict', "{'value': (nan+1j), 'next': '#'}"),
 "AsciiComplex:16:b'    -0.0    -0.0':parse": ('ok', 'complex', '(-0+0j)'),
 "AsciiComplex:16:b'    -0.0    -0.0':struct": ('ok', 'dict', "{'value': (-0+0j), 'next': '#'}"),
 "AsciiComplex:16:b'     0.0    -0.0':parse": ('ok', 'complex', '0j'),
 "AsciiComplex:16:b'     0.0    -0.0':struct": ('ok', 'dict', "{'value': 0j, 'next': '#'}"),
 "AsciiComplex:16:b'  1e308   1e308 ':parse": ('ok', 'complex', '(1e+308+1e+308j)'),
 "AsciiComplex:16:b'  1e308   1e308 ':struct": ('ok',
                                                'dict',
                                                "{'value': (1e+308+1e+308j), 'next': '#'}"),
 "AsciiComplex:7:b'1.52.5X':parse": ('ok', 'complex', '(1.5+2.5j)'),
 "AsciiComplex:7:b'1.52.5X':struct": ('ok', 'dict', "{'value': (1.5+2.5j), 'next': 'X'}"),
 "AsciiComplex:7:b'1.52.5':parse": ('ok', 'complex', '(1.5+2.5j)'),
 "AsciiComplex:7:b'1.52.5':struct": ('ok', 'dict', "{'value': (1.5+2.5j), 'next': '#'}"),
 "AsciiComplex:9:b'1.502.50Z':parse": ('ok', 'complex', '(1.5+2.5j)'),
 "AsciiComplex:9:b'1.502.50Z':struct": ('ok', 'dict', "{'value': (1.5+2.5j), 'next': 'Z'}"),
 "AsciiComplex:8:b'abcd1.00':parse": ('raise',
                                      'ValueError',
                                      "could not convert string to float: 'abcd'"),
 "AsciiComplex:8:b'abcd1.00':struct": ('raise',
                                       'ValueError',
                                       "could not convert string to float: 'abcd'"),
 "AsciiComplex:8:b'1.00abcd':parse": ('raise',
                                      'ValueError',
                                      "could not convert string to float: 'abcd'"),
 "AsciiComplex:8:b'1.00abcd':struct": ('raise',
                                       'ValueError',
                                       "could not convert string to float: 'abcd'"),
 "AsciiComplex:8:b'1.00':parse": ('raise',
                                  'StreamError',
                                  'Error in path (parsing) -> imaginary\n'
                                  'stream read less than specified amount, expected 4, found 0'),
 "AsciiComplex:8:b'1.00':struct": ('raise',
                                   'StreamError',
                                   'Error in path (parsing) -> value -> imaginary\n'
                                   'stream read less than specified amount, expected 4, found 1'),
 "AsciiComplex:1:b'7':parse": ('ok', 'complex', '(nan+nanj)'),
 "AsciiComplex:1:b'7':struct": ('ok', 'dict', "{'value': (nan+nanj), 'next': '7'}"),
 "AsciiComplex:0:b'':parse": ('ok', 'complex', '(nan+nanj)'),
 "AsciiComplex:0:b'':struct": ('ok', 'dict', "{'value': (nan+nanj), 'next': '#'}"),
 "AsciiComplex:2:b'12':parse": ('ok', 'complex', '(1+2j)'),
 "AsciiComplex:2:b'12':struct": ('ok', 'dict', "{'value': (1+2j), 'next': '#'}"),
 'AsciiComplex:0:sizeof': ('ok', 'int', '0'),
 'AsciiComplex:0:describe': [{'class': 'AsciiComplex', 'name': None},
                             {'class': 'Struct',
                              'name': None,
                              'subcons': [[{'class': 'Renamed', 'name': 'real'},
                                           {'class': 'AsciiFloat', 'name': None},
                                           {'class': 'StringEncoded',
                                            'name': None,
                                            'encoding': 'ascii'},
                                           {'class': 'FixedSized', 'name': None, 'length': 0},
                                           {'class': 'NullStripped', 'name': None},
                                           {'class': 'GreedyBytes', 'name': None}],
                                          [{'class': 'Renamed', 'name': 'imaginary'},
                                           {'class': 'AsciiFloat', 'name': None},
                                           {'class': 'StringEncoded',
                                            'name': None,
                                            'encoding': 'ascii'},
                                           {'class': 'FixedSized', 'name': None, 'length': 0},
                                           {'class': 'NullStripped', 'name': None},
                                           {'class': 'GreedyBytes', 'name': None}]]}],
 'AsciiComplex:1:sizeof': ('ok', 'int', '0'),
 'AsciiComplex:1:describe': [{'class': 'AsciiComplex', 'name': None},
                             {'class': 'Struct',
                              'name': None,
                              'subcons': [[{'class': 'Renamed', 'name': 'real'},
                                           {'class': 'AsciiFloat', 'name': None},
                                           {'class': 'StringEncoded',
                                            'name': None,
                                            'encoding': 'ascii'},
                                           {'class': 'FixedSized', 'name': None, 'length': 0},
                                           {'class': 'NullStripped', 'name': None},
                                           {'class': 'GreedyBytes', 'name': None}],
                                          [{'class': 'Renamed', 'name': 'imaginary'},
                                           {'class': 'AsciiFloat', 'name': None},
                                           {'class': 'StringEncoded',
                                            'name': None,
                                            'encoding': 'ascii'},
                                           {'class': 'FixedSized', 'name': None, 'length': 0},
                                           {'class': 'NullStripped', 'name': None},
                                           {'class': 'GreedyBytes', 'name': None}]]}],
 'AsciiComplex:2:sizeof': ('ok', 'int', '2'),
 'AsciiComplex:2:describe': [{'class': 'AsciiComplex', 'name': None},
                             {'class': 'Struct',
                              'name': None,
                              'subcons': [[{'class': 'Renamed', 'name': 'real'},
                                           {'class': 'AsciiFloat', 'name': None},
                                           {'class': 'StringEncoded',
                                            'name': None,
                                            'encoding': 'ascii'},
                                           {'class': 'FixedSized', 'name': None, 'length': 1},
                                           {'class': 'NullStripped', 'name': None},
                                           {'class': 'GreedyBytes', 'name': None}],
                                          [{'class': 'Renamed', 'name': 'imaginary'},
                                           {'class': 'AsciiFloat', 'name': None},
                                           {'class': 'StringEncoded',
                                            'name': None,
                                            'encoding': 'ascii'},
                                           {'class': 'FixedSized', 'name': None, 'length': 1},
                                           {'class': 'NullStripped', 'name': None},
                                           {'class': 'GreedyBytes', 'name': None}]]}],
 'AsciiComplex:7:sizeof': ('ok', 'int', '6'),
 'AsciiComplex:7:describe': [{'class': 'AsciiComplex', 'name': None},
                             {'class': 'Struct',
                              'name': None,
                              'subcons': [[{'class': 'Renamed', 'name': 'real'},
                                           {'class': 'AsciiFloat', 'name': None},
                                           {'class': 'StringEncoded',
                                            'name': None,
                                            'encoding': 'ascii'},
                                           {'class': 'FixedSized', 'name': None, 'length': 3},
                                           {'class': 'NullStripped', 'name': None},
                                           {'class': 'GreedyBytes', 'name': None}],
                                          [{'class': 'Renamed', 'name': 'imaginary'},
                                           {'class': 'AsciiFloat', 'name': None},
                                           {'class': 'StringEncoded',
                                            'name': None,
                                            'encoding': 'ascii'},
                                           {'class': 'FixedSized', 'name': None, 'length': 3},
                                           {'class': 'NullStripped', 'name': None},
                                           {'class': 'GreedyBytes', 'name': None}]]}],
 'AsciiComplex:8:sizeof': ('ok', 'int', '8'),
 'AsciiComplex:8:describe': [{'class': 'AsciiComplex', 'name': None},
                             {'class': 'Struct',
                              'name': None,
                              'subcons': [[{'class': 'Renamed', 'name': 'real'},
                                           {'class': 'AsciiFloat', 'name': None},
                                           {'class': 'StringEncoded',
                                            'name': None,
                                            'encoding': 'ascii'},
                                           {'class': 'FixedSized', 'name': None, 'length': 4},
                                           {'class': 'NullStripped', 'name': None},
                                           {'class': 'GreedyBytes', 'name': None}],
                                          [{'class': 'Renamed', 'name': 'imaginary'},
                                           {'class': 'AsciiFloat', 'name': None},
                                           {'class': 'StringEncoded',
                                            'name': None,
                                            'encoding': 'ascii'},
                                           {'class': 'FixedSized', 'name': None, 'length': 4},
                                           {'class': 'NullStripped', 'name': None},
                                           {'class': 'GreedyBytes', 'name': None}]]}],
 'AsciiComplex:9:sizeof': ('ok', 'int', '8'),
 'AsciiComplex:9:describe': [{'class': 'AsciiComplex', 'name': None},
                             {'class': 'Struct',
                              'name': None,
                              'subcons': [[{'class': 'Renamed', 'name': 'real'},
                                           {'class': 'AsciiFloat', 'name': None},
                                           {'class': 'StringEncoded',
                                            'name': None,
                                            'encoding': 'ascii'},
                                           {'class': 'FixedSized', 'name': None, 'length': 4},
                                           {'class': 'NullStripped', 'name': None},
                                           {'class': 'GreedyBytes', 'name': None}],
                                          [{'class': 'Renamed', 'name': 'imaginary'},
                                           {'class': 'AsciiFloat', 'name': None},
                                           {'class': 'StringEncoded',
                                            'name': None,
                                            'encoding': 'ascii'},
                                           {'class': 'FixedSized', 'name': None, 'length': 4},
                                           {'class': 'NullStripped', 'name': None},
                                           {'class': 'GreedyBytes', 'name': None}]]}],
 'AsciiComplex:16:sizeof': ('ok', 'int', '16'),
 'AsciiComplex:16:describe': [{'class': 'AsciiComplex', 'name': None},
                              {'class': 'Struct',
                               'name': None,
                               'subcons': [[{'class': 'Renamed', 'name': 'real'},
                                            {'class': 'AsciiFloat', 'name': None},
                                            {'class': 'StringEncoded',
                                             'name': None,
                                             'encoding': 'ascii'},
                                            {'class': 'FixedSized', 'name': None, 'length': 8},
                                            {'class': 'NullStripped', 'name': None},
                                            {'class': 'GreedyBytes', 'name': None}],
                                           [{'class': 'Renamed', 'name': 'imaginary'},
                                            {'class': 'AsciiFloat', 'name': None},
                                            {'class': 'StringEncoded',
                                             'name': None,
                                             'encoding': 'ascii'},
                                            {'class': 'FixedSized', 'name': None, 'length': 8},
                                            {'class': 'NullStripped', 'name': None},
                                            {'class': 'GreedyBytes', 'name': None}]]}],
 'AsciiComplex:0:build:0': ('raise', 'NotImplementedError', ''),
 'AsciiComplex:0:encode:0': ('raise', 'NotImplementedError', ''),
 'AsciiComplex:0:build:1.5': ('raise', 'NotImplementedError', ''),
 'AsciiComplex:0:encode:1.5': ('raise', 'NotImplementedError', ''),
 "AsciiComplex:0:build:'a'": ('raise', 'NotImplementedError', ''),
 "AsciiComplex:0:encode:'a'": ('raise', 'NotImplementedError', ''),
 'AsciiComplex:0:build:None': ('raise', 'NotImplementedError', ''),
 'AsciiComplex:0:encode:None': ('raise', 'NotImplementedError', ''),
 'AsciiComplex:0:build:(1+2j)': ('raise', 'NotImplementedError', ''),
 'AsciiComplex:0:encode:(1+2j)': ('raise', 'NotImplementedError', ''),
 'AsciiComplex:4:build:0': ('raise', 'NotImplementedError', ''),
 'AsciiComplex:4:encode:0': ('raise', 'NotImplementedError', ''),
 'AsciiComplex:4:build:1.5': ('raise', 'NotImplementedError', ''),
 'AsciiComplex:4:encode:1.5': ('raise', 'NotImplementedError', ''),
 "AsciiComplex:4:build:'a'": ('raise', 'NotImplementedError', ''),
 "AsciiComplex:4:encode:'a'": ('raise', 'NotImplementedError', ''),
 'AsciiComplex:4:build:None': ('raise', 'NotImplementedError', ''),
 'AsciiComplex:4:encode:None': ('raise', 'NotImplementedError', ''),
 'AsciiComplex:4:build:(1+2j)': ('raise', 'NotImplementedError', ''),
 'AsciiComplex:4:encode:(1+2j)': ('raise', 'NotImplementedError', ''),
 'AsciiComplex:new:None': ('raise', 'TypeError'),
 'AsciiComplex:new-parse:None': ('raise', 'TypeError'),
 "AsciiComplex:new:'4'": ('raise', 'TypeError'),
 "AsciiComplex:new-parse:'4'": ('raise', 'TypeError'),
 'AsciiComplex:new:1.5': ('ok', 'AsciiComplex'),
 'AsciiComplex:new-parse:1.5': ('raise', 'StreamError'),
 'AsciiComplex:new:-1': ('ok', 'AsciiComplex'),
 'AsciiComplex:new-parse:-1': ('raise', 'PaddingError'),
 'AsciiComplex:new:[4]': ('raise', 'TypeError'),
 'AsciiComplex:new-parse:[4]': ('raise', 'TypeError'),
 'AsciiComplex:new:noargs': ('raise', 'TypeError'),
 'AsciiComplex:new:keyword': ('ok',
                              'list',
                              "[{'class': 'AsciiComplex', 'name': None}, {'class': 'Struct', "
                              "'name': None, 'subcons': [[{'class': 'Renamed', 'name': 'real'}, "
                              "{'class': 'AsciiFloat', 'name': None}, {'class': 'StringEncoded', "
                              "'name': None, 'encoding': 'ascii'}, {'class': 'FixedSized', 'name': "
                              "None, 'length': 3}, {'class': 'NullStripped', 'name': None}, "
                              "{'class': 'GreedyBytes', 'name': None}], [{'class': 'Renamed', "
                              "'name': 'imaginary'}, {'class': 'AsciiFloat', 'name': None}, "
                              "{'class': 'StringEncoded', 'name': None, 'encoding': 'ascii'}, "
                              "{'class': 'FixedSized', 'name': None, 'length': 3}, {'class': "
                              "'NullStripped', 'name': None}, {'class': 'GreedyBytes', 'name': "
                              'None}]]}]'),
 'AsciiComplex:new:extra': ('raise', 'TypeError'),
 'PaddedString:mro': ['Adapter', 'Subconstruct', 'Construct', 'object'],
 'PaddedString:is-adapter': True,
 "PaddedString:4:b'ALOS':parse": ('ok', 'str', "'ALOS'"),
 "PaddedString:4:b'ALOS':struct": ('ok', 'dict', "{'value': 'ALOS', 'next': '#'}"),
 "PaddedString:4:b'abc ':parse": ('ok', 'str', "'abc'"),
 "PaddedString:4:b'abc ':struct": ('ok', 'dict', "{'value': 'abc', 'next': '#'}"),
 "PaddedString:4:b' abc':parse": ('ok', 'str', "'abc'"),
 "PaddedString:4:b' abc':struct": ('ok', 'dict', "{'value': 'abc', 'next': '#'}"),
 "PaddedString:4:b'    ':parse": ('ok', 'str', "''"),
 "PaddedString:4:b'    ':struct": ('ok', 'dict', "{'value': '', 'next': '#'}"),
 "PaddedString:4:b'a b ':parse": ('ok', 'str', "'a b'"),
 "PaddedString:4:b'a b ':struct": ('ok', 'dict', "{'value': 'a b', 'next': '#'}"),
 "PaddedString:4:b'\\tab\\n':parse": ('ok', 'str', "'ab'"),
 "PaddedString:4:b'\\tab\\n':struct": ('ok', 'dict', "{'value': 'ab', 'next': '#'}"),
 "PaddedString:4:b'ab\\x00\\x00':parse": ('ok', 'str', "'ab'"),
 "PaddedString:4:b'ab\\x00\\x00':struct": ('ok', 'dict', "{'value': 'ab', 'next': '#'}"),
 "PaddedString:4:b'\\x00\\x00ab':parse": ('ok', 'str', "'\\x00\\x00ab'"),
 "PaddedString:4:b'\\x00\\x00ab':struct": ('ok', 'dict', "{'value': '\\x00\\x00ab', 'next': '#'}"),
 "PaddedString:4:b'a\\x00b ':parse": ('ok', 'str', "'a\\x00b'"),
 "PaddedString:4:b'a\\x00b ':struct": ('ok', 'dict', "{'value': 'a\\x00b', 'next': '#'}"),
 "PaddedString:4:b' \\x00\\x00\\x00':parse": ('ok', 'str', "''"),
 "PaddedString:4:b' \\x00\\x00\\x00':struct": ('ok', 'dict', "{'value': '', 'next': '#'}"),
 "PaddedString:4:b'\\x00\\x00\\x00\\x00':parse": ('ok', 'str', "''"),
 "PaddedString:4:b'\\x00\\x00\\x00\\x00':struct": ('ok', 'dict', "{'value': '', 'next': '#'}"),
 "PaddedString:4:b'ab':parse": ('raise',
                                'StreamError',
                                'Error in path (parsing)\n'
                                'stream read less than specified amount, expected 4, found 2'),
 "PaddedString:4:b'ab':struct": ('raise',
                                 'StreamError',
                                 'Error in path (parsing) -> value\n'
                                 'stream read less than specified amount, expected 4, found 3'),
 "PaddedString:4:b'abcdef':parse": ('ok', 'str', "'abcd'"),
 "PaddedString:4:b'abcdef':struct": ('ok', 'dict', "{'value': 'abcd', 'next': 'e'}"),
 "PaddedString:4:b'\\x80abc':parse": ('raise',
                                      'StringError',
                                      "cannot use encoding 'ascii' to decode b'\\x80abc'"),
 "PaddedString:4:b'\\x80abc':struct": ('raise',
                                       'StringError',
                                       "cannot use encoding 'ascii' to decode b'\\x80abc'"),
 "PaddedString:0:b'':parse": ('ok', 'str', "''"),
 "PaddedString:0:b'':struct": ('ok', 'dict', "{'value': '', 'next': '#'}"),
 "PaddedString:1:b' ':parse": ('ok', 'str', "''"),
 "PaddedString:1:b' ':struct": ('ok', 'dict', "{'value': '', 'next': '#'}"),
 "PaddedString:12:b'CEOS-SAR    ':parse": ('ok', 'str', "'CEOS-SAR'"),
 "PaddedString:12:b'CEOS-SAR    ':struct": ('ok', 'dict', "{'value': 'CEOS-SAR', 'next': '#'}"),
 "PaddedString:3:b'\\x1c\\x1d\\x1e':parse": ('ok', 'str', "''"),
 "PaddedString:3:b'\\x1c\\x1d\\x1e':struct": ('ok', 'dict', "{'value': '', 'next': '#'}"),
 'PaddedString:0:sizeof': ('ok', 'int', '0'),
 'PaddedString:0:describe': [{'class': 'PaddedString', 'name': None},
                             {'class': 'StringEncoded', 'name': None, 'encoding': 'ascii'},
                             {'class': 'FixedSized', 'name': None, 'length': 0},
                             {'class': 'NullStripped', 'name': None},
                             {'class': 'GreedyBytes', 'name': None}],
 'PaddedString:1:sizeof': ('ok', 'int', '1'),
 'PaddedString:1:describe': [{'class': 'PaddedString', 'name': None},
                             {'class': 'StringEncoded', 'name': None, 'encoding': 'ascii'},
                             {'class': 'FixedSized', 'name': None, 'length': 1},
                             {'class': 'NullStripped', 'name': None},
                             {'class': 'GreedyBytes', 'name': None}],
 'PaddedString:3:sizeof': ('ok', 'int', '3'),
 'PaddedString:3:describe': [{'class': 'PaddedString', 'name': None},
                             {'class': 'StringEncoded', 'name': None, 'encoding': 'ascii'},
                             {'class': 'FixedSized', 'name': None, 'length': 3},
                             {'class': 'NullStripped', 'name': None},
                             {'class': 'GreedyBytes', 'name': None}],
 'PaddedString:4:sizeof': ('ok', 'int', '4'),
 'PaddedString:4:describe': [{'class': 'PaddedString', 'name': None},
                             {'class': 'StringEncoded', 'name': None, 'encoding': 'ascii'},
                             {'class': 'FixedSized', 'name': None, 'length': 4},
                             {'class': 'NullStripped', 'name': None},
                             {'class': 'GreedyBytes', 'name': None}],
 'PaddedString:12:sizeof': ('ok', 'int', '12'),
 'PaddedString:12:describe': [{'class': 'PaddedString', 'name': None},
                              {'class': 'StringEncoded', 'name': None, 'encoding': 'ascii'},
                              {'class': 'FixedSized', 'name': None, 'length': 12},
                              {'class': 'NullStripped', 'name': None},
                              {'class': 'GreedyBytes', 'name': None}],
 'PaddedString:0:build:0': ('raise', 'NotImplementedError', ''),
 'PaddedString:0:encode:0': ('raise', 'NotImplementedError', ''),
 'PaddedString:0:build:1.5': ('raise', 'NotImplementedError', ''),
 'PaddedString:0:encode:1.5': ('raise', 'NotImplementedError', ''),
 "PaddedString:0:build:'a'": ('raise', 'NotImplementedError', ''),
 "PaddedString:0:encode:'a'": ('raise', 'NotImplementedError', ''),
 'PaddedString:0:build:None': ('raise', 'NotImplementedError', ''),
 'PaddedString:0:encode:None': ('raise', 'NotImplementedError', ''),
 'PaddedString:0:build:(1+2j)': ('raise', 'NotImplementedError', ''),
 'PaddedString:0:encode:(1+2j)': ('raise', 'NotImplementedError', ''),
 'PaddedString:4:build:0': ('raise', 'NotImplementedError', ''),
 'PaddedString:4:encode:0': ('raise', 'NotImplementedError', ''),
 'PaddedString:4:build:1.5': ('raise', 'NotImplementedError', ''),
 'PaddedString:4:encode:1.5': ('raise', 'NotImplementedError', ''),
 "PaddedString:4:build:'a'": ('raise', 'NotImplementedError', ''),
 "PaddedString:4:encode:'a'": ('raise', 'NotImplementedError', ''),
 'PaddedString:4:build:None': ('raise', 'NotImplementedError', ''),
 'PaddedString:4:encode:None': ('raise', 'NotImplementedError', ''),
 'PaddedString:4:build:(1+2j)': ('raise', 'NotImplementedError', ''),
 'PaddedString:4:encode:(1+2j)': ('raise', 'NotImplementedError', ''),
 'PaddedString:new:None': ('ok', 'PaddedString'),
 'PaddedString:new-parse:None': ('raise', 'TypeError'),
 "PaddedString:new:'4'": ('ok', 'PaddedString'),
 "PaddedString:new-parse:'4'": ('raise', 'TypeError'),
 'PaddedString:new:1.5': ('ok', 'PaddedString'),
 'PaddedString:new-parse:1.5': ('raise', 'StreamError'),
 'PaddedString:new:-1': ('ok', 'PaddedString'),
 'PaddedString:new-parse:-1': ('raise', 'PaddingError'),
 'PaddedString:new:[4]': ('ok', 'PaddedString'),
 'PaddedString:new-parse:[4]': ('raise', 'TypeError'),
 'PaddedString:new:noargs': ('raise', 'TypeError'),
 'PaddedString:new:keyword': ('ok',
                              'list',
                              "[{'class': 'PaddedString', 'name': None}, {'class': "
                              "'StringEncoded', 'name': None, 'encoding': 'ascii'}, {'class': "
                              "'FixedSized', 'name': None, 'length': 6}, {'class': 'NullStripped', "
                              "'name': None}, {'class': 'GreedyBytes', 'name': None}]"),
 'PaddedString:new:extra': ('raise', 'TypeError'),
 "AsciiInteger:decode:''": ('ok', 'int', '-1'),
 "AsciiInteger:decode:' '": ('ok', 'int', '-1'),
 "AsciiInteger:decode:'12'": ('ok', 'int', '12'),
 "AsciiInteger:decode:' 12 '": ('ok', 'int', '12'),
 "AsciiInteger:decode:'\\n-3\\t'": ('ok', 'int', '-3'),
 "AsciiInteger:decode:'x'": ('raise', 'ValueError', "invalid literal for int() with base 10: 'x'"),
 "AsciiInteger:decode:'١٢'": ('ok', 'int', '12'),
 "AsciiInteger:decode:'1 2'": ('raise',
                               'ValueError',
                               "invalid literal for int() with base 10: '1 2'"),
 "AsciiInteger:decode:'\\x00'": ('raise',
                                 'ValueError',
                                 "invalid literal for int() with base 10: '\\x00'"),
 'AsciiInteger:decode:None': ('raise',
                              'AttributeError',
                              "'NoneType' object has no attribute 'strip'"),
 'AsciiInteger:decode:12': ('raise', 'AttributeError', "'int' object has no attribute 'strip'"),
 "AsciiInteger:decode:b' 12 '": ('ok', 'int', '12'),
 "AsciiFloat:decode:''": ('ok', 'float', 'nan'),
 "AsciiFloat:decode:' '": ('ok', 'float', 'nan'),
 "AsciiFloat:decode:'1.5'": ('ok', 'float', '1.5'),
 "AsciiFloat:decode:' 1.5 '": ('ok', 'float', '1.5'),
 "AsciiFloat:decode:'nan'": ('ok', 'float', 'nan'),
 "AsciiFloat:decode:'NaN '": ('ok', 'float', 'nan'),
 "AsciiFloat:decode:'-inf'": ('ok', 'float', '-inf'),
 "AsciiFloat:decode:'x'": ('raise', 'ValueError', "could not convert string to float: 'x'"),
 "AsciiFloat:decode:'\\x00'": ('raise', 'ValueError', "could not convert string to float: '\\x00'"),
 "AsciiFloat:decode:'1e5'": ('ok', 'float', '100000.0'),
 'AsciiFloat:decode:None': ('raise',
                            'AttributeError',
                            "'NoneType' object has no attribute 'strip'"),
 'AsciiFloat:decode:12': ('raise', 'AttributeError', "'int' object has no attribute 'strip'"),
 "AsciiFloat:decode:b' 12 '": ('ok', 'float', '12.0'),
 "PaddedString:decode:''": ('ok', 'str', "''"),
 "PaddedString:decode:' '": ('ok', 'str', "''"),
 "PaddedString:decode:'a'": ('ok', 'str', "'a'"),
 "PaddedString:decode:' a b '": ('ok', 'str', "'a b'"),
 "PaddedString:decode:'\\ta\\n'": ('ok', 'str', "'a'"),
 "PaddedString:decode:'\\x00a\\x00'": ('ok', 'str', "'\\x00a\\x00'"),
 "PaddedString:decode:'\\xa0a\\xa0'": ('ok', 'str', "'a'"),
 'PaddedString:decode:None': ('raise',
                              'AttributeError',
                              "'NoneType' object has no attribute 'strip'"),
 'PaddedString:decode:12': ('raise', 'AttributeError', "'int' object has no attribute 'strip'"),
 "PaddedString:decode:b' 12 '": ('ok', 'bytes', "b'12'"),
 'AsciiComplex:decode:1.0:2.0': ('ok', 'complex', '(1+2j)'),
 'AsciiComplex:decode:0.0:-0.0': ('ok', 'complex', '0j'),
 'AsciiComplex:decode:-0.0:-0.0': ('ok', 'complex', '(-0+0j)'),
 'AsciiComplex:decode:-0.0:0.0': ('ok', 'complex', '0j'),
 'AsciiComplex:decode:inf:1.0': ('ok', 'complex', '(inf+1j)'),
 'AsciiComplex:decode:1.0:inf': ('ok', 'complex', '(nan+infj)'),
 'AsciiComplex:decode:1.0:-inf': ('ok', 'complex', '(nan-infj)'),
 'AsciiComplex:decode:nan:1.0': ('ok', 'complex', '(nan+1j)'),
 'AsciiComplex:decode:1.0:nan': ('ok', 'complex', '(nan+nanj)'),
 'AsciiComplex:decode:1:2': ('ok', 'complex', '(1+2j)'),
 'AsciiComplex:decode:1e+308:1e+308': ('ok', 'complex', '(1e+308+1e+308j)'),
 "AsciiComplex:decode:'a':1.0": ('raise',
                                 'TypeError',
                                 'can only concatenate str (not "complex") to str'),
 'AsciiComplex:decode:None:None': ('raise',
                                   'TypeError',
                                   "unsupported operand type(s) for *: 'complex' and 'NoneType'"),
 'AsciiComplex:decode:missing': ('raise', 'KeyError'),
 'subclass:PaddedString': ('ok', 'str', "'AB'"),
 'subclass:AsciiInteger': ('ok', 'int', '42'),
 'subclass:AsciiInteger:blank': ('ok', 'int', '-2'),
 'AsciiInteger:subcon': True,
 'AsciiFloat:subcon': True,
 'PaddedString:subcon': True,
 'file_descriptor:sizeof': ('ok', 'int', '720'),
 'file_descriptor:parse': ('ok',
                           'str',
                           '"Container: \\n    preamble = Container: \\n        '
                           'record_sequence_number = 1\\n        first_record_subtype = '
                           '50\\n        record_type = 192\\n        second_record_subtype = '
                           '18\\n        third_record_subtype = 18\\n        record_length = '
                           "720\\n    ascii_ebcdic_flag = u'01' (total 2)\\n    blanks1 = u'23' "
                           "(total 2)\\n    format_control_document_id = u'456789012345' (total "
                           "12)\\n    format_control_document_revision_level = u'67' (total "
                           "2)\\n    file_design_descriptor_revision_letter = u'89' (total "
                           "2)\\n    software_release_and_revision_number = u'012345678901' (total "
                           "12)\\n    file_number = 2345\\n    file_id = u'6789012345678901' "
                           "(total 16)\\n    record_sequence_and_location_type_flag = u'2345' "
                           '(total 4)\\n    location_sequence_number = 67890123\\n    '
                           'field_length_of_sequence_number = 4567\\n    '
                           "record_code_and_location_type_flag = u'8901' (total 4)\\n    "
                           'record_code_location = 23456789\\n    record_code_field_length = '
                           "123\\n    record_length_and_location_type_flag = u'4567' (total "
                           '4)\\n    record_length_location = 89012345\\n    '
                           "record_length_field_length = 6789\\n    reserved1 = u'0' (total "
                           "1)\\n    reserved2 = u'1' (total 1)\\n    reserved3 = u'2' (total "
                           "1)\\n    reserved4 = u'3' (total 1)\\n    blanks6 = "
                           "u'45678901234567890123456789012345'... (truncated, total 64)\\n    "
                           'number_of_sar_data_records = 890123\\n    sar_data_record_length = '
                           "456789\\n    reserved5 = u'012345678901234567890123' (total 24)\\n    "
                           'sample_group_data = Container: \\n        bit_length_per_sample = '
                           '4567\\n        number_of_samples_per_data_group = 8901\\n        '
                           'number_of_bytes_per_data_group = 2345\\n        '
                           "justification_and_order_of_samples_within_data_group = u'6789' (total "
                           '4)\\n    sar_related_data_in_the_record = Container: \\n        '
                           'number_of_sar_channels = 123\\n        number_of_lines_per_dataset = '
                           '45678901\\n        number_of_left_border_pixels_per_line = '
                           '2345\\n        number_of_data_groups_per_line = 67890123\\n        '
                           'number_of_right_border_pixels_per_line = 4567\\n        '
                           'number_of_top_border_lines = 8901\\n        '
                           'number_of_bottom_border_lines = 2345\\n        interleaving_id = '
                           "u'6789' (total 4)\\n    record_data_in_the_file = Container: "
                           '\\n        number_of_physical_records_per_line = 1\\n        '
                           'number_of_physical_records_per_multichannel_line_in_this_file = '
                           '23\\n        number_of_bytes_of_prefix_data_per_record = '
                           '4567\\n        number_of_bytes_of_sar_data_per_record = '
                           '89012345\\n        number_of_bytes_of_suffix_data_per_record = '
                           "6789\\n        prefix_suffix_repeat_flag = u'0123' (total 4)\\n    "
                           'prefix_suffix_data_locators = Container: \\n        '
                           "sample_data_line_number_locator = u'45678901' (total 8)\\n        "
                           "sar_channel_number_locator = u'23456789' (total 8)\\n        "
                           "time_of_sar_data_line_locator = u'01234567' (total 8)\\n        "
                           "left_fill_count_locator = u'89012345' (total 8)\\n        "
                           "right_fill_count_locator = u'67890123' (total 8)\\n        "
                           "pad_pixels_present_indicator = u'4567' (total 4)\\n        blanks = "
                           "u'8901234567890123456789012345' (total 28)\\n        "
                           "sar_data_line_quality_code_locator = u'67890123' (total 8)\\n        "
                           "calibration_information_field_locator = u'45678901' (total "
                           "8)\\n        gain_values_field_locator = u'23456789' (total "
                           "8)\\n        bias_values_field_locator = u'01234567' (total "
                           '8)\\n        sar_data_format_type_indicator = '
                           "u'8901234567890123456789012345' (total 28)\\n        "
                           "sar_data_format_type_code = u'6789' (total 4)\\n        "
                           'number_of_left_fill_bits_within_pixel = 123\\n        '
                           'number_of_right_fill_bits_within_pixel = 4567\\n        '
                           'maximum_data_range_of_pixel = 89012345\\n        number_of_burst_data '
                           '= 6789\\n        number_of_lines_per_burst = 123\\n    '
                           'scansar_burst_data_information = Container: \\n        '
                           'number_of_overlap_lines_with_adjacent_bursts = 4567\\n        blanks = '
                           'u\'89012345678901234567890123456789\'... (truncated, total 260)"'),
 'file_descriptor:short': ('raise',
                           'StreamError',
                           'Error in path (parsing) -> scansar_burst_data_information -> blanks\n'
                           'stream read less than specified amount, expected 260, found 240'),
 'file_descriptor:blank': ('ok',
                           'str',
                           '"Container: \\n    preamble = Container: \\n        '
                           'record_sequence_number = 1\\n        first_record_subtype = '
                           '50\\n        record_type = 192\\n        second_record_subtype = '
                           '18\\n        third_record_subtype = 18\\n        record_length = '
                           "720\\n    ascii_ebcdic_flag = u'' (total 0)\\n    blanks1 = u'' (total "
                           "0)\\n    format_control_document_id = u'' (total 0)\\n    "
                           "format_control_document_revision_level = u'' (total 0)\\n    "
                           "file_design_descriptor_revision_letter = u'' (total 0)\\n    "
                           "software_release_and_revision_number = u'' (total 0)\\n    file_number "
                           "= -1\\n    file_id = u'' (total 0)\\n    "
                           "record_sequence_and_location_type_flag = u'' (total 0)\\n    "
                           'location_sequence_number = -1\\n    field_length_of_sequence_number = '
                           "-1\\n    record_code_and_location_type_flag = u'' (total 0)\\n    "
                           'record_code_location = -1\\n    record_code_field_length = -1\\n    '
                           "record_length_and_location_type_flag = u'' (total 0)\\n    "
                           'record_length_location = -1\\n    record_length_field_length = '
                           "-1\\n    reserved1 = u'' (total 0)\\n    reserved2 = u'' (total "
                           "0)\\n    reserved3 = u'' (total 0)\\n    reserved4 = u'' (total "
                           "0)\\n    blanks6 = u'' (total 0)\\n    number_of_sar_data_records = "
                           "-1\\n    sar_data_record_length = -1\\n    reserved5 = u'' (total "
                           '0)\\n    sample_group_data = Container: \\n        '
                           'bit_length_per_sample = -1\\n        number_of_samples_per_data_group '
                           '= -1\\n        number_of_bytes_per_data_group = -1\\n        '
                           "justification_and_order_of_samples_within_data_group = u'' (total "
                           '0)\\n    sar_related_data_in_the_record = Container: \\n        '
                           'number_of_sar_channels = -1\\n        number_of_lines_per_dataset = '
                           '-1\\n        number_of_left_border_pixels_per_line = -1\\n        '
                           'number_of_data_groups_per_line = -1\\n        '
                           'number_of_right_border_pixels_per_line = -1\\n        '
                           'number_of_top_border_lines = -1\\n        '
                           "number_of_bottom_border_lines = -1\\n        interleaving_id = u'' "
                           '(total 0)\\n    record_data_in_the_file = Container: \\n        '
                           'number_of_physical_records_per_line = -1\\n        '
                           'number_of_physical_records_per_multichannel_line_in_this_file = '
                           '-1\\n        number_of_bytes_of_prefix_data_per_record = -1\\n        '
                           'number_of_bytes_of_sar_data_per_record = -1\\n        '
                           'number_of_bytes_of_suffix_data_per_record = -1\\n        '
                           "prefix_suffix_repeat_flag = u'' (total 0)\\n    "
                           'prefix_suffix_data_locators = Container: \\n        '
                           "sample_data_line_number_locator = u'' (total 0)\\n        "
                           "sar_channel_number_locator = u'' (total 0)\\n        "
                           "time_of_sar_data_line_locator = u'' (total 0)\\n        "
                           "left_fill_count_locator = u'' (total 0)\\n        "
                           "right_fill_count_locator = u'' (total 0)\\n        "
                           "pad_pixels_present_indicator = u'' (total 0)\\n        blanks = u'' "
                           "(total 0)\\n        sar_data_line_quality_code_locator = u'' (total "
                           "0)\\n        calibration_information_field_locator = u'' (total "
                           "0)\\n        gain_values_field_locator = u'' (total 0)\\n        "
                           "bias_values_field_locator = u'' (total 0)\\n        "
                           "sar_data_format_type_indicator = u'' (total 0)\\n        "
                           "sar_data_format_type_code = u'' (total 0)\\n        "
                           'number_of_left_fill_bits_within_pixel = -1\\n        '
                           'number_of_right_fill_bits_within_pixel = -1\\n        '
                           'maximum_data_range_of_pixel = -1\\n        number_of_burst_data = '
                           '-1\\n        number_of_lines_per_burst = -1\\n    '
                           'scansar_burst_data_information = Container: \\n        '
                           'number_of_overlap_lines_with_adjacent_bursts = -1\\n        blanks = '
                           'u\'\' (total 0)"'),
 'file_descriptor:letters': ('raise',
                             'ValueError',
                             "invalid literal for int() with base 10: 'AAAA'")}


def test_equivalence():
    actual = observe()
    assert list(actual) == list(EXPECTED)
    for key, value in actual.items():
        assert value == EXPECTED[key], key


if __name__ == "__main__":
    if "--record" in sys.argv:
        pprint.pprint(observe(), width=100, sort_dicts=False)
    else:
        test_equivalence()
        print(f"ok: {len(EXPECTED)} observations identical")
