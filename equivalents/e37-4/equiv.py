"""Equivalence check for refactoring 4 (ceos_alos2/sar_trailer).

Run as a script (``python equiv.py``) or with pytest. ``python equiv.py --record`` prints
the observed outcomes (used once, on the unchanged code, to fill ``EXPECTED``).
"""

import io
import pprint
import struct
import sys

import fsspec
import numpy as np

from ceos_alos2.sar_trailer import file_descriptor, read_sar_trailer
from ceos_alos2.sar_trailer.image_data import parse_image_data
from ceos_alos2.utils import to_dict


def describe_exception(exc):
    if exc is None:
        return None
    return (type(exc).__name__, str(exc))


def describe_array(arr):
    return (
        type(arr).__name__,
        arr.dtype.str,
        arr.shape,
        arr.flags.writeable,
        arr.flags.c_contiguous,
        arr.tolist(),
    )


def outcome(func, *args):
    try:
        result = func(*args)
    except Exception as e:  # noqa: BLE001
        return (
            "raises",
            describe_exception(e),
            "cause",
            describe_exception(e.__cause__),
            "context",
            describe_exception(e.__context__),
            e.__suppress_context__,
        )
    return ("returns", result)


def ascii_field(value, width):
    encoded = str(value).encode("ascii")
    assert len(encoded) <= width, (value, width)
    # integers are right-aligned, text is left-aligned
    return encoded.rjust(width) if isinstance(value, int) else encoded.ljust(width)


def header_bytes(images, *, n_images=None, fill=b" "):
    """the 720 bytes of the file descriptor; ``images`` are the four numbers of each image"""
    if n_images is None:
        n_images = len(images)
    fields = [
        ("A", 2), ("", 2), ("CEOS-SAR", 12), ("A", 2), ("B", 2), ("001.001", 12), (3, 4),
        ("ALOS2 SARTRAILER", 16), ("FSEQ", 4), (1, 8), (4, 4), ("FTYP", 4), (5, 8), (4, 4),
        ("FLGT", 4), (9, 8), (4, 4), ("", 68),
    ]  # fmt: skip
    # small record infos: number of records (6) and record length (6), all different
    fields += [(value, 6) for index in range(15) for value in (index + 1, 100 * (index + 1))]
    fields += [("", 60)]
    # big record infos: number of records (6) and record length (8)
    fields += [(v, w) for index in range(5) for v, w in ((index + 21, 6), (1000000 + index, 8))]
    fields += [(n_images, 6)]
    for record_length, n_pixels, n_lines, n_bytes in images:
        fields += [(record_length, 8), (n_pixels, 6), (n_lines, 6), (n_bytes, 6)]
    data = struct.pack(">IBBBBI", 1, 63, 192, 18, 18, 720)
    data += b"".join(ascii_field(value, width) for value, width in fields)
    assert len(data) <= 720, len(data)
    return data.ljust(720, fill)


def image_bytes(n_values, n_bytes, start=0):
    values = np.arange(start, start + n_values) - n_values // 3
    return values.astype(f">i{n_bytes}").tobytes()


class RecordingFile:
    """a file object that remembers the requests it gets"""

    def __init__(self, content):
        self.wrapped = io.BytesIO(content)
        self.requests = []

    def read(self, *args, **kwargs):
        self.requests.append(("read", args, kwargs, self.wrapped.tell()))
        return self.wrapped.read(*args, **kwargs)

    def __getattr__(self, name):
        self.requests.append(("getattr", name))
        return getattr(self.wrapped, name)


def trailer(images, contents, **kwargs):
    return header_bytes(images, **kwargs) + b"".join(contents)


trailers = {
    "no-images": trailer([], []),
    "no-images-trailing-data": trailer([], [b"abcdef"]),
    "one-2byte": trailer([(24, 3, 4, 2)], [image_bytes(12, 2)]),
    "one-1byte": trailer([(12, 3, 4, 1)], [image_bytes(12, 1)]),
    "one-4byte": trailer([(60, 5, 3, 4)], [image_bytes(15, 4)]),
    "one-8byte": trailer([(16, 1, 2, 8)], [image_bytes(2, 8)]),
    "one-single-line": trailer([(10, 5, 1, 2)], [image_bytes(5, 2)]),
    "one-single-pixel": trailer([(10, 1, 5, 2)], [image_bytes(5, 2)]),
    "two-same": trailer([(24, 3, 4, 2), (24, 3, 4, 2)], [image_bytes(12, 2), image_bytes(12, 2, 7)]),
    "two-different": trailer(
        [(24, 3, 4, 2), (40, 2, 5, 4)], [image_bytes(12, 2), image_bytes(10, 4, 100)]
    ),
    "three-mixed": trailer(
        [(6, 2, 3, 1), (32, 2, 2, 8), (30, 5, 3, 2)],
        [image_bytes(6, 1), image_bytes(4, 8, -5), image_bytes(15, 2, 300)],
    ),
    "seven": trailer(
        [(2 * (n + 1) * 2, n + 1, 2, 2) for n in range(7)],
        [image_bytes((n + 1) * 2, 2, 10 * n) for n in range(7)],
    ),
    "trailing-data": trailer([(24, 3, 4, 2)], [image_bytes(12, 2), b"trailing"]),
    "padding-in-record": trailer([(30, 3, 4, 2), (24, 4, 3, 2)], [image_bytes(27, 2)]),
    "empty-image": trailer([(0, 0, 4, 2), (8, 2, 2, 2)], [image_bytes(4, 2)]),
    "zero-by-zero": trailer([(0, 0, 0, 1)], []),
    # failures
    "eight": trailer([(4, 1, 2, 2)] * 8, [image_bytes(2, 2)] * 8),
    "three-byte-samples": trailer([(36, 3, 4, 3)], [bytes(36)]),
    "zero-byte-samples": trailer([(24, 3, 4, 0)], [bytes(24)]),
    "sixteen-byte-samples": trailer([(32, 1, 2, 16)], [bytes(32)]),
    "blank-sample-size": trailer([(24, 3, 4, "")], [bytes(24)]),
    "blank-record-length": trailer([("", 3, 4, 2)], [bytes(25)]),
    "blank-record-length-then-image": trailer([("", 1, 2, 2), (8, 2, 2, 2)], [image_bytes(6, 2)]),
    "blank-shape": trailer([(24, "", "", 2)], [image_bytes(12, 2)]),
    "blank-lines": trailer([(24, 3, "", 2)], [image_bytes(12, 2)]),
    "shape-mismatch": trailer([(24, 3, 5, 2)], [image_bytes(12, 2)]),
    "length-not-a-multiple": trailer([(25, 3, 4, 2)], [bytes(25)]),
    "too-little-data": trailer([(24, 3, 4, 2)], [image_bytes(10, 2)]),
    "no-data": trailer([(24, 3, 4, 2)], []),
    "second-image-fails": trailer([(24, 3, 4, 2), (24, 3, 4, 3)], [image_bytes(24, 2)]),
    "first-image-fails": trailer([(24, 3, 4, 3), (24, 3, 4, 2)], [image_bytes(24, 2)]),
    "both-images-fail": trailer([(24, 3, 5, 2), (24, 3, 4, 3)], [image_bytes(24, 2)]),
    "second-image-short": trailer([(24, 3, 4, 2), (24, 3, 4, 2)], [image_bytes(20, 2)]),
    "more-images-than-announced": trailer(
        [(24, 3, 4, 2), (24, 3, 4, 2)], [image_bytes(24, 2)], n_images=1
    ),
    "fewer-images-than-announced": trailer([(24, 3, 4, 2)], [image_bytes(24, 2)], n_images=2),
    "blank-number-of-images": trailer([(24, 3, 4, 2)], [image_bytes(24, 2)], n_images=""),
    "not-a-number": trailer([("abc", 3, 4, 2)], [image_bytes(12, 2)]),
    "truncated-header": trailer([], [])[:500],
    "truncated-header-in-blanks": trailer([], [])[:600],
    "short-but-complete": trailer([], [])[:694],
    "empty": b"",
    "non-ascii": trailer([], [], fill=b"\xff"),
}


def describe_result(result, full=False):
    header, images = result
    described = to_dict(header)
    if not full:
        # the fields in front of the image sizes are the same for all the trailers
        names = ["number_of_low_resolution_images", "low_resolution_image_sizes", "blanks"]
        described = (len(described), [(name, described[name]) for name in names])
    return (
        type(header).__name__,
        described,
        type(images).__name__,
        [describe_array(image) for image in images],
    )


def read_described(content):
    f = RecordingFile(content)
    result = outcome(lambda: describe_result(read_sar_trailer(f)))
    return result, f.requests, f.wrapped.tell()


image_inputs = [
    (image_bytes(12, 2), (3, 4), 2),
    (image_bytes(12, 2), (4, 3), 2),
    (image_bytes(12, 2), (12,), 2),
    (image_bytes(12, 2), (2, 2, 3), 2),
    (image_bytes(12, 2), (-1, 4), 2),
    (image_bytes(12, 2), 12, 2),
    (image_bytes(12, 2), (6, 1), 4),
    (image_bytes(12, 2), (24, 1), 1),
    (image_bytes(12, 2), (3, 1), 8),
    (b"", (0, 3), 2),
    (b"", (0,), 1),
    (bytearray(image_bytes(6, 4)), (2, 3), 4),
    (memoryview(image_bytes(6, 4)), (3, 2), 4),
    (image_bytes(12, 2), (3, 4), "2"),
    (image_bytes(12, 2), (3, 4), np.int64(2)),
    # failures
    (image_bytes(12, 2), (3, 5), 2),
    (image_bytes(12, 2), (3, 4), 3),
    (image_bytes(12, 2), (3, 4), 0),
    (image_bytes(12, 2), (3, 4), -1),
    (image_bytes(12, 2), (3, 4), 2.0),
    (image_bytes(12, 2), (3, 4), None),
    (image_bytes(12, 2), (3, 4), ""),
    (image_bytes(12, 2)[:-1], (3, 4), 2),
    (image_bytes(12, 2), (3, 4), 16),
    (image_bytes(12, 2), None, 2),
    (image_bytes(12, 2), "ab", 2),
    ("abcd", (2, 1), 2),
    (None, (2, 1), 2),
]


def describe_struct(struct_):
    return [(sc.name, type(sc).__name__, type(sc.subcon).__name__) for sc in struct_.subcons]


def sizes(struct_):
    result = []
    for sc in struct_.subcons:
        try:
            result.append(sc.sizeof())
        except Exception as e:  # noqa: BLE001
            result.append(type(e).__name__)
    return result


def observe():
    observed = {}
    observed["read"] = [(name, *read_described(content)) for name, content in trailers.items()]
    observed["full"] = [
        outcome(lambda: describe_result(read_sar_trailer(io.BytesIO(trailers[name])), full=True))
        for name in ["no-images", "two-different"]
    ]
    observed["image_data"] = [
        outcome(lambda *args: describe_array(parse_image_data(*args)), *args)
        for args in image_inputs
    ]

    fs = fsspec.filesystem("memory")
    path = "/equiv-e37-4/TRL-ALOS2290760600-191011-WWDR1.5RUA"
    fs.pipe(path, trailers["three-mixed"])
    with fs.open(path, mode="rb") as f:
        result = outcome(lambda: describe_result(read_sar_trailer(f), full=True))
        observed["fsspec"] = [result, f.tell()]
    fs.rm("/equiv-e37-4", recursive=True)

    observed["structure"] = [
        describe_struct(file_descriptor.file_descriptor_record),
        sizes(file_descriptor.file_descriptor_record),
        describe_struct(file_descriptor.small_record_info),
        describe_struct(file_descriptor.big_record_info),
        describe_struct(file_descriptor.low_res_image_size),
        file_descriptor.small_record_info.sizeof(),
        file_descriptor.big_record_info.sizeof(),
        file_descriptor.low_res_image_size.sizeof(),
    ]
    return observed


def check_sharing():
    record = file_descriptor.file_descriptor_record
    by_name = {sc.name: sc.subcon for sc in record.subcons}
    small = [
        "dataset_summary", "map_projection", "platform_position", "attitude", "radiometric_data",
        "radiometric_compensation", "data_quality_summary", "data_histogram", "range_spectra",
        "dem_descriptor", "radar_parameter_update", "annotation_data", "detail_processing",
        "calibration", "gcp",
    ]  # fmt: skip
    for name in small:
        assert by_name[name] is file_descriptor.small_record_info, name
    for index in range(1, 6):
        name = f"facility_related_data_{index}"
        assert by_name[name] is file_descriptor.big_record_info, name

    # the images are views of the bytes that were read: nothing is copied
    f = io.BytesIO(trailers["two-different"])
    header, images = read_sar_trailer(f)
    assert all(image.base is not None for image in images)
    assert not any(image.flags.owndata for image in images)
    assert type(images) is list
    assert header.number_of_low_resolution_images == 2
    assert header["low_resolution_image_sizes"][1]["record_length"] == 40


EXPECTED = None  # filled below


def test_equivalent():
    observed = observe()
    assert sorted(observed) == sorted(EXPECTED)
    for section, expected in EXPECTED.items():
        actual = observed[section]
        assert len(actual) == len(expected), section
        for index, (a, e) in enumerate(zip(actual, expected)):
            assert a == e, (section, index, a, e)
    check_sharing()


# EXPECTED-BEGIN
# fmt: off
EXPECTED = {'read': [('no-images',
           ('returns', ('Container', (42, [('number_of_low_resolution_images', 0), ('low_resolution_image_sizes', []), ('blanks', '')]), 'list', [])),
           [('read', (720,), {}, 0), ('read', (), {}, 720)], 720),
          ('no-images-trailing-data',
           ('returns', ('Container', (42, [('number_of_low_resolution_images', 0), ('low_resolution_image_sizes', []), ('blanks', '')]), 'list', [])),
           [('read', (720,), {}, 0), ('read', (), {}, 720)], 726),
          ('one-2byte',
           ('returns',
            ('Container',
             (42,
              [('number_of_low_resolution_images', 1),
               ('low_resolution_image_sizes',
                [{'record_length': 24, 'number_of_pixels': 3, 'number_of_lines': 4, 'number_of_bytes_per_one_sample': 2}]),
               ('blanks', '')]),
             'list', [('ndarray', '>i2', (3, 4), False, True, [[-4, -3, -2, -1], [0, 1, 2, 3], [4, 5, 6, 7]])])),
           [('read', (720,), {}, 0), ('read', (), {}, 720)], 744),
          ('one-1byte',
           ('returns',
            ('Container',
             (42,
              [('number_of_low_resolution_images', 1),
               ('low_resolution_image_sizes',
                [{'record_length': 12, 'number_of_pixels': 3, 'number_of_lines': 4, 'number_of_bytes_per_one_sample': 1}]),
               ('blanks', '')]),
             'list', [('ndarray', '|i1', (3, 4), False, True, [[-4, -3, -2, -1], [0, 1, 2, 3], [4, 5, 6, 7]])])),
           [('read', (720,), {}, 0), ('read', (), {}, 720)], 732),
          ('one-4byte',
           ('returns',
            ('Container',
             (42,
              [('number_of_low_resolution_images', 1),
               ('low_resolution_image_sizes',
                [{'record_length': 60, 'number_of_pixels': 5, 'number_of_lines': 3, 'number_of_bytes_per_one_sample': 4}]),
               ('blanks', '')]),
             'list', [('ndarray', '>i4', (5, 3), False, True, [[-5, -4, -3], [-2, -1, 0], [1, 2, 3], [4, 5, 6], [7, 8, 9]])])),
           [('read', (720,), {}, 0), ('read', (), {}, 720)], 780),
          ('one-8byte',
           ('returns',
            ('Container',
             (42,
              [('number_of_low_resolution_images', 1),
               ('low_resolution_image_sizes',
                [{'record_length': 16, 'number_of_pixels': 1, 'number_of_lines': 2, 'number_of_bytes_per_one_sample': 8}]),
               ('blanks', '')]),
             'list', [('ndarray', '>i8', (1, 2), False, True, [[0, 1]])])),
           [('read', (720,), {}, 0), ('read', (), {}, 720)], 736),
          ('one-single-line',
           ('returns',
            ('Container',
             (42,
              [('number_of_low_resolution_images', 1),
               ('low_resolution_image_sizes',
                [{'record_length': 10, 'number_of_pixels': 5, 'number_of_lines': 1, 'number_of_bytes_per_one_sample': 2}]),
               ('blanks', '')]),
             'list', [('ndarray', '>i2', (5, 1), False, True, [[-1], [0], [1], [2], [3]])])),
           [('read', (720,), {}, 0), ('read', (), {}, 720)], 730),
          ('one-single-pixel',
           ('returns',
            ('Container',
             (42,
              [('number_of_low_resolution_images', 1),
               ('low_resolution_image_sizes',
                [{'record_length': 10, 'number_of_pixels': 1, 'number_of_lines': 5, 'number_of_bytes_per_one_sample': 2}]),
               ('blanks', '')]),
             'list', [('ndarray', '>i2', (1, 5), False, True, [[-1, 0, 1, 2, 3]])])),
           [('read', (720,), {}, 0), ('read', (), {}, 720)], 730),
          ('two-same',
           ('returns',
            ('Container',
             (42,
              [('number_of_low_resolution_images', 2),
               ('low_resolution_image_sizes',
                [{'record_length': 24, 'number_of_pixels': 3, 'number_of_lines': 4, 'number_of_bytes_per_one_sample': 2},
                 {'record_length': 24, 'number_of_pixels': 3, 'number_of_lines': 4, 'number_of_bytes_per_one_sample': 2}]),
               ('blanks', '')]),
             'list',
             [('ndarray', '>i2', (3, 4), False, True, [[-4, -3, -2, -1], [0, 1, 2, 3], [4, 5, 6, 7]]),
              ('ndarray', '>i2', (3, 4), False, True, [[3, 4, 5, 6], [7, 8, 9, 10], [11, 12, 13, 14]])])),
           [('read', (720,), {}, 0), ('read', (), {}, 720)], 768),
          ('two-different',
           ('returns',
            ('Container',
             (42,
              [('number_of_low_resolution_images', 2),
               ('low_resolution_image_sizes',
                [{'record_length': 24, 'number_of_pixels': 3, 'number_of_lines': 4, 'number_of_bytes_per_one_sample': 2},
                 {'record_length': 40, 'number_of_pixels': 2, 'number_of_lines': 5, 'number_of_bytes_per_one_sample': 4}]),
               ('blanks', '')]),
             'list',
             [('ndarray', '>i2', (3, 4), False, True, [[-4, -3, -2, -1], [0, 1, 2, 3], [4, 5, 6, 7]]),
              ('ndarray', '>i4', (2, 5), False, True, [[97, 98, 99, 100, 101], [102, 103, 104, 105, 106]])])),
           [('read', (720,), {}, 0), ('read', (), {}, 720)], 784),
          ('three-mixed',
           ('returns',
            ('Container',
             (42,
              [('number_of_low_resolution_images', 3),
               ('low_resolution_image_sizes',
                [{'record_length': 6, 'number_of_pixels': 2, 'number_of_lines': 3, 'number_of_bytes_per_one_sample': 1},
                 {'record_length': 32, 'number_of_pixels': 2, 'number_of_lines': 2, 'number_of_bytes_per_one_sample': 8},
                 {'record_length': 30, 'number_of_pixels': 5, 'number_of_lines': 3, 'number_of_bytes_per_one_sample': 2}]),
               ('blanks', '')]),
             'list',
             [('ndarray', '|i1', (2, 3), False, True, [[-2, -1, 0], [1, 2, 3]]), ('ndarray', '>i8', (2, 2), False, True, [[-6, -5], [-4, -3]]),
              ('ndarray', '>i2', (5, 3), False, True, [[295, 296, 297], [298, 299, 300], [301, 302, 303], [304, 305, 306], [307, 308, 309]])])),
           [('read', (720,), {}, 0), ('read', (), {}, 720)], 788),
          ('seven',
           ('returns',
            ('Container',
             (42,
              [('number_of_low_resolution_images', 7),
               ('low_resolution_image_sizes',
                [{'record_length': 4, 'number_of_pixels': 1, 'number_of_lines': 2, 'number_of_bytes_per_one_sample': 2},
                 {'record_length': 8, 'number_of_pixels': 2, 'number_of_lines': 2, 'number_of_bytes_per_one_sample': 2},
                 {'record_length': 12, 'number_of_pixels': 3, 'number_of_lines': 2, 'number_of_bytes_per_one_sample': 2},
                 {'record_length': 16, 'number_of_pixels': 4, 'number_of_lines': 2, 'number_of_bytes_per_one_sample': 2},
                 {'record_length': 20, 'number_of_pixels': 5, 'number_of_lines': 2, 'number_of_bytes_per_one_sample': 2},
                 {'record_length': 24, 'number_of_pixels': 6, 'number_of_lines': 2, 'number_of_bytes_per_one_sample': 2},
                 {'record_length': 28, 'number_of_pixels': 7, 'number_of_lines': 2, 'number_of_bytes_per_one_sample': 2}]),
               ('blanks', '')]),
             'list',
             [('ndarray', '>i2', (1, 2), False, True, [[0, 1]]), ('ndarray', '>i2', (2, 2), False, True, [[9, 10], [11, 12]]),
              ('ndarray', '>i2', (3, 2), False, True, [[18, 19], [20, 21], [22, 23]]),
              ('ndarray', '>i2', (4, 2), False, True, [[28, 29], [30, 31], [32, 33], [34, 35]]),
              ('ndarray', '>i2', (5, 2), False, True, [[37, 38], [39, 40], [41, 42], [43, 44], [45, 46]]),
              ('ndarray', '>i2', (6, 2), False, True, [[46, 47], [48, 49], [50, 51], [52, 53], [54, 55], [56, 57]]),
              ('ndarray', '>i2', (7, 2), False, True, [[56, 57], [58, 59], [60, 61], [62, 63], [64, 65], [66, 67], [68, 69]])])),
           [('read', (720,), {}, 0), ('read', (), {}, 720)], 832),
          ('trailing-data',
           ('returns',
            ('Container',
             (42,
              [('number_of_low_resolution_images', 1),
               ('low_resolution_image_sizes',
                [{'record_length': 24, 'number_of_pixels': 3, 'number_of_lines': 4, 'number_of_bytes_per_one_sample': 2}]),
               ('blanks', '')]),
             'list', [('ndarray', '>i2', (3, 4), False, True, [[-4, -3, -2, -1], [0, 1, 2, 3], [4, 5, 6, 7]])])),
           [('read', (720,), {}, 0), ('read', (), {}, 720)], 752),
          ('padding-in-record', ('raises', ('ValueError', 'cannot reshape array of size 15 into shape (3,4)'), 'cause', None, 'context', None, False),
           [('read', (720,), {}, 0), ('read', (), {}, 720)], 774),
          ('empty-image',
           ('returns',
            ('Container',
             (42,
              [('number_of_low_resolution_images', 2),
               ('low_resolution_image_sizes',
                [{'record_length': 0, 'number_of_pixels': 0, 'number_of_lines': 4, 'number_of_bytes_per_one_sample': 2},
                 {'record_length': 8, 'number_of_pixels': 2, 'number_of_lines': 2, 'number_of_bytes_per_one_sample': 2}]),
               ('blanks', '')]),
             'list', [('ndarray', '>i2', (0, 4), False, True, []), ('ndarray', '>i2', (2, 2), False, True, [[-1, 0], [1, 2]])])),
           [('read', (720,), {}, 0), ('read', (), {}, 720)], 728),
          ('zero-by-zero',
           ('returns',
            ('Container',
             (42,
              [('number_of_low_resolution_images', 1),
               ('low_resolution_image_sizes',
                [{'record_length': 0, 'number_of_pixels': 0, 'number_of_lines': 0, 'number_of_bytes_per_one_sample': 1}]),
               ('blanks', '')]),
             'list', [('ndarray', '|i1', (0, 0), False, True, [])])),
           [('read', (720,), {}, 0), ('read', (), {}, 720)], 720),
          ('eight',
           ('raises', ('PaddingError', 'Error in path (parsing) -> blanks\nlength cannot be negative'), 'cause', None, 'context', None, False),
           [('read', (720,), {}, 0)], 720),
          ('three-byte-samples', ('raises', ('TypeError', "data type '>i3' not understood"), 'cause', None, 'context', None, False),
           [('read', (720,), {}, 0), ('read', (), {}, 720)], 756),
          ('zero-byte-samples', ('raises', ('TypeError', "data type '>i0' not understood"), 'cause', None, 'context', None, False),
           [('read', (720,), {}, 0), ('read', (), {}, 720)], 744),
          ('sixteen-byte-samples', ('raises', ('TypeError', "data type '>i16' not understood"), 'cause', None, 'context', None, False),
           [('read', (720,), {}, 0), ('read', (), {}, 720)], 752),
          ('blank-sample-size', ('raises', ('TypeError', "data type '>i-1' not understood"), 'cause', None, 'context', None, False),
           [('read', (720,), {}, 0), ('read', (), {}, 720)], 744),
          ('blank-record-length',
           ('returns',
            ('Container',
             (42,
              [('number_of_low_resolution_images', 1),
               ('low_resolution_image_sizes',
                [{'record_length': -1, 'number_of_pixels': 3, 'number_of_lines': 4, 'number_of_bytes_per_one_sample': 2}]),
               ('blanks', '')]),
             'list', [('ndarray', '>i2', (3, 4), False, True, [[0, 0, 0, 0], [0, 0, 0, 0], [0, 0, 0, 0]])])),
           [('read', (720,), {}, 0), ('read', (), {}, 720)], 745),
          ('blank-record-length-then-image',
           ('raises', ('ValueError', 'buffer size must be a multiple of element size'), 'cause', None, 'context', None, False),
           [('read', (720,), {}, 0), ('read', (), {}, 720)], 732),
          ('blank-shape', ('raises', ('ValueError', 'can only specify one unknown dimension'), 'cause', None, 'context', None, False),
           [('read', (720,), {}, 0), ('read', (), {}, 720)], 744),
          ('blank-lines',
           ('returns',
            ('Container',
             (42,
              [('number_of_low_resolution_images', 1),
               ('low_resolution_image_sizes',
                [{'record_length': 24, 'number_of_pixels': 3, 'number_of_lines': -1, 'number_of_bytes_per_one_sample': 2}]),
               ('blanks', '')]),
             'list', [('ndarray', '>i2', (3, 4), False, True, [[-4, -3, -2, -1], [0, 1, 2, 3], [4, 5, 6, 7]])])),
           [('read', (720,), {}, 0), ('read', (), {}, 720)], 744),
          ('shape-mismatch', ('raises', ('ValueError', 'cannot reshape array of size 12 into shape (3,5)'), 'cause', None, 'context', None, False),
           [('read', (720,), {}, 0), ('read', (), {}, 720)], 744),
          ('length-not-a-multiple',
           ('raises', ('ValueError', 'buffer size must be a multiple of element size'), 'cause', None, 'context', None, False),
           [('read', (720,), {}, 0), ('read', (), {}, 720)], 745),
          ('too-little-data', ('raises', ('ValueError', 'cannot reshape array of size 10 into shape (3,4)'), 'cause', None, 'context', None, False),
           [('read', (720,), {}, 0), ('read', (), {}, 720)], 740),
          ('no-data', ('raises', ('ValueError', 'cannot reshape array of size 0 into shape (3,4)'), 'cause', None, 'context', None, False),
           [('read', (720,), {}, 0), ('read', (), {}, 720)], 720),
          ('second-image-fails', ('raises', ('TypeError', "data type '>i3' not understood"), 'cause', None, 'context', None, False),
           [('read', (720,), {}, 0), ('read', (), {}, 720)], 768),
          ('first-image-fails', ('raises', ('TypeError', "data type '>i3' not understood"), 'cause', None, 'context', None, False),
           [('read', (720,), {}, 0), ('read', (), {}, 720)], 768),
          ('both-images-fail', ('raises', ('ValueError', 'cannot reshape array of size 12 into shape (3,5)'), 'cause', None, 'context', None, False),
           [('read', (720,), {}, 0), ('read', (), {}, 720)], 768),
          ('second-image-short', ('raises', ('ValueError', 'cannot reshape array of size 8 into shape (3,4)'), 'cause', None, 'context', None, False),
           [('read', (720,), {}, 0), ('read', (), {}, 720)], 760),
          ('more-images-than-announced',
           ('returns',
            ('Container',
             (42,
              [('number_of_low_resolution_images', 1),
               ('low_resolution_image_sizes',
                [{'record_length': 24, 'number_of_pixels': 3, 'number_of_lines': 4, 'number_of_bytes_per_one_sample': 2}]),
               ('blanks', '24     3     4     2')]),
             'list', [('ndarray', '>i2', (3, 4), False, True, [[-8, -7, -6, -5], [-4, -3, -2, -1], [0, 1, 2, 3]])])),
           [('read', (720,), {}, 0), ('read', (), {}, 720)], 768),
          ('fewer-images-than-announced', ('raises', ('TypeError', "data type '>i-1' not understood"), 'cause', None, 'context', None, False),
           [('read', (720,), {}, 0), ('read', (), {}, 720)], 768),
          ('blank-number-of-images',
           ('raises', ('RangeError', 'Error in path (parsing) -> low_resolution_image_sizes\ninvalid count -1'), 'cause', None, 'context', None,
            False),
           [('read', (720,), {}, 0)], 720),
          ('not-a-number', ('raises', ('ValueError', "invalid literal for int() with base 10: 'abc'"), 'cause', None, 'context', None, False),
           [('read', (720,), {}, 0)], 720),
          ('truncated-header',
           ('raises', ('StreamError', 'Error in path (parsing) -> blanks\nstream read less than specified amount, expected 198, found 4'), 'cause',
            None, 'context', None, False),
           [('read', (720,), {}, 0)], 500),
          ('truncated-header-in-blanks',
           ('raises', ('StreamError', 'Error in path (parsing) -> blanks\nstream read less than specified amount, expected 198, found 104'), 'cause',
            None, 'context', None, False),
           [('read', (720,), {}, 0)], 600),
          ('short-but-complete',
           ('returns', ('Container', (42, [('number_of_low_resolution_images', 0), ('low_resolution_image_sizes', []), ('blanks', '')]), 'list', [])),
           [('read', (720,), {}, 0), ('read', (), {}, 694)], 694),
          ('empty',
           ('raises',
            ('StreamError',
             'Error in path (parsing) -> preamble -> record_sequence_number\nstream read less than specified amount, expected 4, found 0'),
            'cause', None, 'context', None, False),
           [('read', (720,), {}, 0)], 0),
          ('non-ascii',
           ('raises',
            ('StringError',
             "cannot use encoding 'ascii' to decode "
             "b'\\xff\\xff\\xff\\xff\\xff\\xff\\xff\\xff\\xff\\xff\\xff\\xff\\xff\\xff\\xff\\xff\\xff\\xff\\xff\\xff\\xff\\xff\\xff\\xff\\xff\\xff\\xff\\xff\\xff\\xff\\xff\\xff\\xff\\xff\\xff\\xff\\xff\\xff\\xff\\xff\\xff\\xff\\xff\\xff\\xff\\xff\\xff\\xff\\xff\\xff\\xff\\xff\\xff\\xff\\xff\\xff\\xff\\xff\\xff\\xff\\xff\\xff\\xff\\xff\\xff\\xff\\xff\\xff\\xff\\xff\\xff\\xff\\xff\\xff\\xff\\xff\\xff\\xff\\xff\\xff\\xff\\xff\\xff\\xff\\xff\\xff\\xff\\xff\\xff\\xff\\xff\\xff\\xff\\xff\\xff\\xff\\xff\\xff\\xff\\xff\\xff\\xff\\xff\\xff\\xff\\xff\\xff\\xff\\xff\\xff\\xff\\xff\\xff\\xff\\xff\\xff\\xff\\xff\\xff\\xff\\xff\\xff\\xff\\xff\\xff\\xff\\xff\\xff\\xff\\xff\\xff\\xff\\xff\\xff\\xff\\xff\\xff\\xff\\xff\\xff\\xff\\xff\\xff\\xff\\xff\\xff\\xff\\xff\\xff\\xff\\xff\\xff\\xff\\xff\\xff\\xff\\xff\\xff\\xff\\xff\\xff\\xff\\xff\\xff\\xff\\xff\\xff\\xff\\xff\\xff\\xff\\xff\\xff\\xff\\xff\\xff\\xff\\xff\\xff\\xff\\xff\\xff\\xff\\xff\\xff\\xff\\xff\\xff\\xff\\xff\\xff\\xff\\xff\\xff\\xff\\xff\\xff\\xff'"),
            'cause', None, 'context', ('UnicodeDecodeError', "'ascii' codec can't decode byte 0xff in position 0: ordinal not in range(128)"),
            False),
           [('read', (720,), {}, 0)], 720)],
 'full': [('returns',
           ('Container',
            {'preamble': {'record_sequence_number': 1,
                          'first_record_subtype': 63,
                          'record_type': 192,
                          'second_record_subtype': 18,
                          'third_record_subtype': 18,
                          'record_length': 720},
             'ascii_ebcdic_code': 'A',
             'blanks1': '',
             'format_control_document_id': 'CEOS-SAR',
             'format_control_document_revision_number': 'A',
             'record_format_revision_level': 'B',
             'software_release_and_revision_number': '001.001',
             'file_number': 3,
             'file_id': 'ALOS2 SARTRAILER',
             'record_sequence_and_location_type_flag': 'FSEQ',
             'sequence_number_of_location': 1,
             'field_length_of_sequence_number': 4,
             'record_code_and_location_type_flag': 'FTYP',
             'location_of_record_code': 5,
             'field_length_of_record_code': 4,
             'record_length_and_location_type_flag': 'FLGT',
             'location_of_record_length': 9,
             'field_length_of_record_length': 4,
             'dataset_summary': {'number_of_records': 1, 'record_length': 100},
             'map_projection': {'number_of_records': 2, 'record_length': 200},
             'platform_position': {'number_of_records': 3, 'record_length': 300},
             'attitude': {'number_of_records': 4, 'record_length': 400},
             'radiometric_data': {'number_of_records': 5, 'record_length': 500},
             'radiometric_compensation': {'number_of_records': 6, 'record_length': 600},
             'data_quality_summary': {'number_of_records': 7, 'record_length': 700},
             'data_histogram': {'number_of_records': 8, 'record_length': 800},
             'range_spectra': {'number_of_records': 9, 'record_length': 900},
             'dem_descriptor': {'number_of_records': 10, 'record_length': 1000},
             'radar_parameter_update': {'number_of_records': 11, 'record_length': 1100},
             'annotation_data': {'number_of_records': 12, 'record_length': 1200},
             'detail_processing': {'number_of_records': 13, 'record_length': 1300},
             'calibration': {'number_of_records': 14, 'record_length': 1400},
             'gcp': {'number_of_records': 15, 'record_length': 1500},
             'spare': '',
             'facility_related_data_1': {'number_of_records': 21, 'record_length': 1000000},
             'facility_related_data_2': {'number_of_records': 22, 'record_length': 1000001},
             'facility_related_data_3': {'number_of_records': 23, 'record_length': 1000002},
             'facility_related_data_4': {'number_of_records': 24, 'record_length': 1000003},
             'facility_related_data_5': {'number_of_records': 25, 'record_length': 1000004},
             'number_of_low_resolution_images': 0,
             'low_resolution_image_sizes': [],
             'blanks': ''},
            'list', [])),
          ('returns',
           ('Container',
            {'preamble': {'record_sequence_number': 1,
                          'first_record_subtype': 63,
                          'record_type': 192,
                          'second_record_subtype': 18,
                          'third_record_subtype': 18,
                          'record_length': 720},
             'ascii_ebcdic_code': 'A',
             'blanks1': '',
             'format_control_document_id': 'CEOS-SAR',
             'format_control_document_revision_number': 'A',
             'record_format_revision_level': 'B',
             'software_release_and_revision_number': '001.001',
             'file_number': 3,
             'file_id': 'ALOS2 SARTRAILER',
             'record_sequence_and_location_type_flag': 'FSEQ',
             'sequence_number_of_location': 1,
             'field_length_of_sequence_number': 4,
             'record_code_and_location_type_flag': 'FTYP',
             'location_of_record_code': 5,
             'field_length_of_record_code': 4,
             'record_length_and_location_type_flag': 'FLGT',
             'location_of_record_length': 9,
             'field_length_of_record_length': 4,
             'dataset_summary': {'number_of_records': 1, 'record_length': 100},
             'map_projection': {'number_of_records': 2, 'record_length': 200},
             'platform_position': {'number_of_records': 3, 'record_length': 300},
             'attitude': {'number_of_records': 4, 'record_length': 400},
             'radiometric_data': {'number_of_records': 5, 'record_length': 500},
             'radiometric_compensation': {'number_of_records': 6, 'record_length': 600},
             'data_quality_summary': {'number_of_records': 7, 'record_length': 700},
             'data_histogram': {'number_of_records': 8, 'record_length': 800},
             'range_spectra': {'number_of_records': 9, 'record_length': 900},
             'dem_descriptor': {'number_of_records': 10, 'record_length': 1000},
             'radar_parameter_update': {'number_of_records': 11, 'record_length': 1100},
             'annotation_data': {'number_of_records': 12, 'record_length': 1200},
             'detail_processing': {'number_of_records': 13, 'record_length': 1300},
             'calibration': {'number_of_records': 14, 'record_length': 1400},
             'gcp': {'number_of_records': 15, 'record_length': 1500},
             'spare': '',
             'facility_related_data_1': {'number_of_records': 21, 'record_length': 1000000},
             'facility_related_data_2': {'number_of_records': 22, 'record_length': 1000001},
             'facility_related_data_3': {'number_of_records': 23, 'record_length': 1000002},
             'facility_related_data_4': {'number_of_records': 24, 'record_length': 1000003},
             'facility_related_data_5': {'number_of_records': 25, 'record_length': 1000004},
             'number_of_low_resolution_images': 2,
             'low_resolution_image_sizes': [{'record_length': 24, 'number_of_pixels': 3, 'number_of_lines': 4, 'number_of_bytes_per_one_sample': 2},
                                            {'record_length': 40, 'number_of_pixels': 2, 'number_of_lines': 5, 'number_of_bytes_per_one_sample': 4}],
             'blanks': ''},
            'list',
            [('ndarray', '>i2', (3, 4), False, True, [[-4, -3, -2, -1], [0, 1, 2, 3], [4, 5, 6, 7]]),
             ('ndarray', '>i4', (2, 5), False, True, [[97, 98, 99, 100, 101], [102, 103, 104, 105, 106]])]))],
 'image_data': [('returns', ('ndarray', '>i2', (3, 4), False, True, [[-4, -3, -2, -1], [0, 1, 2, 3], [4, 5, 6, 7]])),
                ('returns', ('ndarray', '>i2', (4, 3), False, True, [[-4, -3, -2], [-1, 0, 1], [2, 3, 4], [5, 6, 7]])),
                ('returns', ('ndarray', '>i2', (12,), False, True, [-4, -3, -2, -1, 0, 1, 2, 3, 4, 5, 6, 7])),
                ('returns', ('ndarray', '>i2', (2, 2, 3), False, True, [[[-4, -3, -2], [-1, 0, 1]], [[2, 3, 4], [5, 6, 7]]])),
                ('returns', ('ndarray', '>i2', (3, 4), False, True, [[-4, -3, -2, -1], [0, 1, 2, 3], [4, 5, 6, 7]])),
                ('returns', ('ndarray', '>i2', (12,), False, True, [-4, -3, -2, -1, 0, 1, 2, 3, 4, 5, 6, 7])),
                ('returns', ('ndarray', '>i4', (6, 1), False, True, [[-196611], [-65537], [1], [131075], [262149], [393223]])),
                ('returns',
                 ('ndarray', '|i1', (24, 1), False, True,
                  [[-1], [-4], [-1], [-3], [-1], [-2], [-1], [-1], [0], [0], [0], [1], [0], [2], [0], [3], [0], [4], [0], [5], [0], [6], [0], [7]])),
                ('returns', ('ndarray', '>i8', (3, 1), False, True, [[-844433520132097], [4295098371], [1125921382072327]])),
                ('returns', ('ndarray', '>i2', (0, 3), False, True, [])), ('returns', ('ndarray', '|i1', (0,), False, True, [])),
                ('returns', ('ndarray', '>i4', (2, 3), True, True, [[-2, -1, 0], [1, 2, 3]])),
                ('returns', ('ndarray', '>i4', (3, 2), False, True, [[-2, -1], [0, 1], [2, 3]])),
                ('returns', ('ndarray', '>i2', (3, 4), False, True, [[-4, -3, -2, -1], [0, 1, 2, 3], [4, 5, 6, 7]])),
                ('returns', ('ndarray', '>i2', (3, 4), False, True, [[-4, -3, -2, -1], [0, 1, 2, 3], [4, 5, 6, 7]])),
                ('raises', ('ValueError', 'cannot reshape array of size 12 into shape (3,5)'), 'cause', None, 'context', None, False),
                ('raises', ('TypeError', "data type '>i3' not understood"), 'cause', None, 'context', None, False),
                ('raises', ('TypeError', "data type '>i0' not understood"), 'cause', None, 'context', None, False),
                ('raises', ('TypeError', "data type '>i-1' not understood"), 'cause', None, 'context', None, False),
                ('raises', ('TypeError', "data type '>i2.0' not understood"), 'cause', None, 'context', None, False),
                ('raises', ('TypeError', "data type '>iNone' not understood"), 'cause', None, 'context', None, False),
                ('raises', ('ValueError', 'cannot reshape array of size 6 into shape (3,4)'), 'cause', None, 'context', None, False),
                ('raises', ('ValueError', 'buffer size must be a multiple of element size'), 'cause', None, 'context', None, False),
                ('raises', ('TypeError', "data type '>i16' not understood"), 'cause', None, 'context', None, False),
                ('returns', ('ndarray', '>i2', (12,), False, True, [-4, -3, -2, -1, 0, 1, 2, 3, 4, 5, 6, 7])),
                ('raises', ('TypeError', "'str' object cannot be interpreted as an integer"), 'cause', None, 'context', None, False),
                ('raises', ('TypeError', "a bytes-like object is required, not 'str'"), 'cause', None, 'context', None, False),
                ('raises', ('TypeError', "a bytes-like object is required, not 'NoneType'"), 'cause', None, 'context', None, False)],
 'fsspec': [('returns',
             ('Container',
              {'preamble': {'record_sequence_number': 1,
                            'first_record_subtype': 63,
                            'record_type': 192,
                            'second_record_subtype': 18,
                            'third_record_subtype': 18,
                            'record_length': 720},
               'ascii_ebcdic_code': 'A',
               'blanks1': '',
               'format_control_document_id': 'CEOS-SAR',
               'format_control_document_revision_number': 'A',
               'record_format_revision_level': 'B',
               'software_release_and_revision_number': '001.001',
               'file_number': 3,
               'file_id': 'ALOS2 SARTRAILER',
               'record_sequence_and_location_type_flag': 'FSEQ',
               'sequence_number_of_location': 1,
               'field_length_of_sequence_number': 4,
               'record_code_and_location_type_flag': 'FTYP',
               'location_of_record_code': 5,
               'field_length_of_record_code': 4,
               'record_length_and_location_type_flag': 'FLGT',
               'location_of_record_length': 9,
               'field_length_of_record_length': 4,
               'dataset_summary': {'number_of_records': 1, 'record_length': 100},
               'map_projection': {'number_of_records': 2, 'record_length': 200},
               'platform_position': {'number_of_records': 3, 'record_length': 300},
               'attitude': {'number_of_records': 4, 'record_length': 400},
               'radiometric_data': {'number_of_records': 5, 'record_length': 500},
               'radiometric_compensation': {'number_of_records': 6, 'record_length': 600},
               'data_quality_summary': {'number_of_records': 7, 'record_length': 700},
               'data_histogram': {'number_of_records': 8, 'record_length': 800},
               'range_spectra': {'number_of_records': 9, 'record_length': 900},
               'dem_descriptor': {'number_of_records': 10, 'record_length': 1000},
               'radar_parameter_update': {'number_of_records': 11, 'record_length': 1100},
               'annotation_data': {'number_of_records': 12, 'record_length': 1200},
               'detail_processing': {'number_of_records': 13, 'record_length': 1300},
               'calibration': {'number_of_records': 14, 'record_length': 1400},
               'gcp': {'number_of_records': 15, 'record_length': 1500},
               'spare': '',
               'facility_related_data_1': {'number_of_records': 21, 'record_length': 1000000},
               'facility_related_data_2': {'number_of_records': 22, 'record_length': 1000001},
               'facility_related_data_3': {'number_of_records': 23, 'record_length': 1000002},
               'facility_related_data_4': {'number_of_records': 24, 'record_length': 1000003},
               'facility_related_data_5': {'number_of_records': 25, 'record_length': 1000004},
               'number_of_low_resolution_images': 3,
               'low_resolution_image_sizes': [{'record_length': 6, 'number_of_pixels': 2, 'number_of_lines': 3, 'number_of_bytes_per_one_sample': 1},
                                              {'record_length': 32, 'number_of_pixels': 2, 'number_of_lines': 2, 'number_of_bytes_per_one_sample': 8},
                                              {'record_length': 30,
                                               'number_of_pixels': 5,
                                               'number_of_lines': 3,
                                               'number_of_bytes_per_one_sample': 2}],
               'blanks': ''},
              'list',
              [('ndarray', '|i1', (2, 3), False, True, [[-2, -1, 0], [1, 2, 3]]), ('ndarray', '>i8', (2, 2), False, True, [[-6, -5], [-4, -3]]),
               ('ndarray', '>i2', (5, 3), False, True, [[295, 296, 297], [298, 299, 300], [301, 302, 303], [304, 305, 306], [307, 308, 309]])])),
            788],
 'structure': [[('preamble', 'Renamed', 'Struct'), ('ascii_ebcdic_code', 'Renamed', 'PaddedString'), ('blanks1', 'Renamed', 'PaddedString'),
                ('format_control_document_id', 'Renamed', 'PaddedString'), ('format_control_document_revision_number', 'Renamed', 'PaddedString'),
                ('record_format_revision_level', 'Renamed', 'PaddedString'), ('software_release_and_revision_number', 'Renamed', 'PaddedString'),
                ('file_number', 'Renamed', 'AsciiInteger'), ('file_id', 'Renamed', 'PaddedString'),
                ('record_sequence_and_location_type_flag', 'Renamed', 'PaddedString'), ('sequence_number_of_location', 'Renamed', 'AsciiInteger'),
                ('field_length_of_sequence_number', 'Renamed', 'AsciiInteger'), ('record_code_and_location_type_flag', 'Renamed', 'PaddedString'),
                ('location_of_record_code', 'Renamed', 'AsciiInteger'), ('field_length_of_record_code', 'Renamed', 'AsciiInteger'),
                ('record_length_and_location_type_flag', 'Renamed', 'PaddedString'), ('location_of_record_length', 'Renamed', 'AsciiInteger'),
                ('field_length_of_record_length', 'Renamed', 'AsciiInteger'), ('blanks1', 'Renamed', 'PaddedString'),
                ('dataset_summary', 'Renamed', 'Struct'), ('map_projection', 'Renamed', 'Struct'), ('platform_position', 'Renamed', 'Struct'),
                ('attitude', 'Renamed', 'Struct'), ('radiometric_data', 'Renamed', 'Struct'), ('radiometric_compensation', 'Renamed', 'Struct'),
                ('data_quality_summary', 'Renamed', 'Struct'), ('data_histogram', 'Renamed', 'Struct'), ('range_spectra', 'Renamed', 'Struct'),
                ('dem_descriptor', 'Renamed', 'Struct'), ('radar_parameter_update', 'Renamed', 'Struct'), ('annotation_data', 'Renamed', 'Struct'),
                ('detail_processing', 'Renamed', 'Struct'), ('calibration', 'Renamed', 'Struct'), ('gcp', 'Renamed', 'Struct'),
                ('spare', 'Renamed', 'PaddedString'), ('facility_related_data_1', 'Renamed', 'Struct'),
                ('facility_related_data_2', 'Renamed', 'Struct'), ('facility_related_data_3', 'Renamed', 'Struct'),
                ('facility_related_data_4', 'Renamed', 'Struct'), ('facility_related_data_5', 'Renamed', 'Struct'),
                ('number_of_low_resolution_images', 'Renamed', 'AsciiInteger'), ('low_resolution_image_sizes', 'Renamed', 'Array'),
                ('blanks', 'Renamed', 'PaddedString')],
               [12, 2, 2, 12, 2, 2, 12, 4, 16, 4, 8, 4, 4, 8, 4, 4, 8, 4, 68, 12, 12, 12, 12, 12, 12, 12, 12, 12, 12, 12, 12, 12, 12, 12, 60, 14, 14,
                14, 14, 14, 6, 'SizeofError', 'KeyError'],
               [('number_of_records', 'Renamed', 'AsciiInteger'), ('record_length', 'Renamed', 'AsciiInteger')],
               [('number_of_records', 'Renamed', 'AsciiInteger'), ('record_length', 'Renamed', 'AsciiInteger')],
               [('record_length', 'Renamed', 'AsciiInteger'), ('number_of_pixels', 'Renamed', 'AsciiInteger'),
                ('number_of_lines', 'Renamed', 'AsciiInteger'), ('number_of_bytes_per_one_sample', 'Renamed', 'AsciiInteger')],
               12, 14, 26]}
# fmt: on
# EXPECTED-END

if __name__ == "__main__":
    if "--record" in sys.argv:
        text = pprint.pformat(observe(), width=150, compact=True, sort_dicts=False)
        print("EXPECTED = " + text)
    else:
        test_equivalent()
        n = sum(len(v) for v in EXPECTED.values())
        print(f"equivalent: {n} recorded outcomes reproduced")
