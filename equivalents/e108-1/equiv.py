"""Equivalence checks for refactoring 1 (ceos_alos2/utils.py).

Expected values were recorded from the unchanged code.
Run: PYTHONPATH=/tmp/wt13/e108 /venv/bin/python _eq/1/equiv.py
"""
import datetime
import io
from collections import OrderedDict

from construct import Container, Enum, Int8ub, ListContainer, Struct, Array as CArray

from ceos_alos2 import utils
from ceos_alos2.utils import byte_sizes, parse_bytes, remove_nesting_layer, to_dict

# public names still importable
for name in ("unique", "starcall", "to_dict", "rename", "remove_nesting_layer", "byte_sizes",
             "parse_bytes", "datetime", "EnumIntegerString", "ListContainer", "keymap"):
    assert hasattr(utils, name), name


def outcome(f, *args):
    try:
        r = f(*args)
        return ("ok", type(r).__name__, r)
    except Exception as e:  # noqa: BLE001
        cause = e.__cause__
        return ("err", type(e).__name__, str(e), type(cause).__name__ if cause is not None else None,
                e.__suppress_context__)


# ---- to_dict
enum = Enum(Int8ub, a=1, b=2)
parsed_enum = enum.parse(b"\x01")
unknown_enum = enum.parse(b"\x07")
struct = Struct("x" / Int8ub, "e" / enum, "arr" / CArray(2, Int8ub), "sub" / Struct("y" / Int8ub))
parsed = struct.parse(b"\x05\x02\x01\x02\x09")
dt = datetime.datetime(2020, 1, 2, 3, 4, 5)


class MyList(list):
    pass


class MyStr(str):
    pass


to_dict_cases = [
    (parsed_enum, ("ok", "str", "a")),
    (unknown_enum, ("ok", "EnumInteger", 7)),
    (1, ("ok", "int", 1)),
    (True, ("ok", "bool", True)),
    (1.5, ("ok", "float", 1.5)),
    ("abc", ("ok", "str", "abc")),
    (b"abc", ("ok", "bytes", b"abc")),
    (1 + 2j, ("ok", "complex", 1 + 2j)),
    (dt, ("ok", "datetime", dt)),
    ([1, [2, (3, parsed_enum)]], ("ok", "list", [1, [2, (3, "a")]])),
    ((1, 2), ("ok", "tuple", (1, 2))),
    ((), ("ok", "tuple", ())),
    ([], ("ok", "list", [])),
    (ListContainer([1, ListContainer([2])]), ("ok", "list", [1, [2]])),
    (MyList([1, 2]), ("ok", "MyList", [1, 2])),
    (MyStr("q"), ("ok", "MyStr", "q")),
    ({"a": 1, "_io": io.BytesIO(b""), "b": {"_io": 3, "c": (1,)}}, ("ok", "dict", {"a": 1, "b": {"c": (1,)}})),
    (Container(a=1, b=Container(c=ListContainer([1, 2]))), ("ok", "dict", {"a": 1, "b": {"c": [1, 2]}})),
    (OrderedDict([("z", 1), ("a", 2)]), ("ok", "dict", {"z": 1, "a": 2})),
    (parsed, ("ok", "dict", {"x": 5, "e": "b", "arr": [1, 2], "sub": {"y": 9}})),
    (None, ("err", "AttributeError", "'NoneType' object has no attribute 'items'", None, False)),
    ({1, 2}, ("err", "AttributeError", "'set' object has no attribute 'items'", None, False)),
    ([None], ("err", "AttributeError", "'NoneType' object has no attribute 'items'", None, False)),
]
for value, expected in to_dict_cases:
    actual = outcome(to_dict, value)
    assert actual == expected, (value, actual, expected)
    if actual[0] == "ok" and isinstance(actual[2], (list, dict)):
        assert actual[2] is not value
# exact result types inside nested structures
r = to_dict(parsed)
assert type(r) is dict and type(r["arr"]) is list and type(r["sub"]) is dict and type(r["e"]) is str
assert list(r) == ["x", "e", "arr", "sub"]
r = to_dict(MyList([(1,), ListContainer([2])]))
assert type(r) is MyList and type(r[0]) is tuple and type(r[1]) is list
# identity for scalars
s = MyStr("q")
assert to_dict(s) is s
# namedtuple-like tuple subclass: type_(generator) call shape is preserved
import collections
NT = collections.namedtuple("NT", "a b")
assert outcome(to_dict, NT(1, 2)) == (
    "err", "TypeError", "NT.__new__() missing 1 required positional argument: 'b'", None, False
), outcome(to_dict, NT(1, 2))

# ---- remove_nesting_layer
rnl_cases = [
    ({}, {}),
    ({"a": 1}, {"a": 1}),
    ({"a": {"b": 1, "c": 2}, "d": 3}, {"b": 1, "c": 2, "d": 3}),
    ({"a": {"b": {"c": 1}}}, {"b": {"c": 1}}),
    ({"a": {}, "b": 2}, {"b": 2}),
    ({"x": 1, "a": {"x": 2}}, {"x": 2}),
    ({"a": {"x": 2}, "x": 1}, {"x": 1}),
    ({"a": {"k": 1}, "b": {"k": 2, "j": 3}}, {"k": 2, "j": 3}),
    ({"a": OrderedDict(b=1)}, {"b": 1}),
    ({"a": Container(b=1)}, {"b": 1}),
    ({"a": [1, 2], "b": None}, {"a": [1, 2], "b": None}),
]
for value, expected in rnl_cases:
    actual = remove_nesting_layer(value)
    assert actual == expected and type(actual) is dict, (value, actual)
    assert list(actual) == list(expected), (value, list(actual))
assert list(remove_nesting_layer({"z": 0, "a": {"y": 1, "z": 5}, "b": 2})) == ["z", "y", "b"]
assert outcome(remove_nesting_layer, None) == (
    "err", "AttributeError", "'NoneType' object has no attribute 'items'", None, False)
assert outcome(remove_nesting_layer, [("a", 1)]) == (
    "err", "AttributeError", "'list' object has no attribute 'items'", None, False)


class Recording(dict):
    log = []

    def items(self):
        self.log.append("items")
        return super().items()


rec = Recording(a=1)
assert remove_nesting_layer(rec) == {"a": 1} and Recording.log == ["items"]

# ---- byte_sizes table
assert byte_sizes == {
    "kb": 1000, "mb": 1000000, "gb": 1000000000, "tb": 1000000000000, "pb": 1000000000000000,
    "kib": 1024, "mib": 1048576, "gib": 1073741824, "tib": 1099511627776, "pib": 1125899906842624,
    "b": 1, "": 1, "k": 1000, "m": 1000000, "g": 1000000000, "t": 1000000000000,
    "p": 1000000000000000, "ki": 1024, "mi": 1048576, "gi": 1073741824, "ti": 1099511627776,
    "pi": 1125899906842624,
}, byte_sizes
assert list(byte_sizes) == ["kb", "mb", "gb", "tb", "pb", "kib", "mib", "gib", "tib", "pib", "b", "",
                            "k", "m", "g", "t", "p", "ki", "mi", "gi", "ti", "pi"]

# ---- parse_bytes
NUM = "ValueError"
pb_cases = [
    ("100", ("ok", "int", 100)),
    ("100 MB", ("ok", "int", 100000000)),
    ("100M", ("ok", "int", 100000000)),
    ("5kB", ("ok", "int", 5000)),
    ("5.4 kB", ("ok", "int", 5400)),
    ("1kiB", ("ok", "int", 1024)),
    ("1e6", ("ok", "int", 1000000)),
    ("1e6 kB", ("ok", "int", 1000000000)),
    ("MB", ("ok", "int", 1000000)),
    (123, ("ok", "int", 123)),
    (123.9, ("ok", "int", 123)),
    (-1.5, ("ok", "int", -1)),
    (True, ("ok", "int", 1)),
    ("", ("ok", "int", 1)),
    (" ", ("ok", "int", 1)),
    ("B", ("ok", "int", 1)),
    ("b", ("ok", "int", 1)),
    ("1 0 0", ("ok", "int", 100)),
    ("2 Ki", ("ok", "int", 2048)),
    ("2PIB", ("ok", "int", 2251799813685248)),
    ("0.5", ("ok", "int", 0)),
    ("-5kB", ("ok", "int", -5000)),
    (".5k", ("ok", "int", 500)),
    ("1_0k", ("ok", "int", 10000)),
    ("٣", ("ok", "int", 3)),
    ("٣k", ("ok", "int", 3000)),
    ("5 foos", ("err", NUM, "Could not interpret 'foos' as a byte unit", "KeyError", True)),
    ("foos", ("err", NUM, "Could not interpret 'foos' as a byte unit", "KeyError", True)),
    ("5µ", ("err", NUM, "Could not interpret 'µ' as a byte unit", "KeyError", True)),
    ("5 K B", ("ok", "int", 5000)),
    ("k5", ("err", NUM, "Could not interpret 'k5' as a number", "ValueError", True)),
    ("5k5", ("err", NUM, "Could not interpret '5k5' as a number", "ValueError", True)),
    ("1.2.3MB", ("err", NUM, "Could not interpret '1.2.3' as a number", "ValueError", True)),
    ("--", ("err", NUM, "Could not interpret '1--' as a number", "ValueError", True)),
    ("-", ("err", NUM, "Could not interpret '1-' as a number", "ValueError", True)),
    ("²", ("err", NUM, "Could not interpret '²' as a number", "ValueError", True)),
    ("5\tkB", ("ok", "int", 5000)),
    ("inf", ("err", NUM, "Could not interpret 'inf' as a byte unit", "KeyError", True)),
    ("1e400", ("err", "OverflowError", "cannot convert float infinity to integer", None, False)),
    ("nan1", ("err", NUM, "Could not interpret 'nan1' as a number", "ValueError", True)),
    (None, ("err", "AttributeError", "'NoneType' object has no attribute 'replace'", None, False)),
    (b"5kB", ("err", "TypeError", "a bytes-like object is required, not 'str'", None, False)),
    (float("inf"), ("err", "OverflowError", "cannot convert float infinity to integer", None, False)),
    (float("nan"), ("err", "ValueError", "cannot convert float NaN to integer", None, False)),
]
for value, expected in pb_cases:
    actual = outcome(parse_bytes, value)
    assert actual == expected, (value, actual, expected)
    if actual[0] == "ok":
        assert type(actual[2]) is int

# every unit with a couple of numbers
for unit, mult in byte_sizes.items():
    for spelled in (unit, unit.upper(), unit.title()):
        assert parse_bytes(f"3{spelled}") == 3 * mult, spelled
        assert parse_bytes(f"2.5 {spelled}") == int(2.5 * mult), spelled
        if spelled:
            assert parse_bytes(spelled) == mult

# annotations unchanged for the public signature
assert parse_bytes.__annotations__["return"] in (int, "int")
print("ok")
