"""Equivalence check for refactoring 1 (ceos_alos2/utils.py: byte_sizes / parse_bytes).

Run as:  PYTHONPATH=<worktree> python equiv.py            (asserts against recorded values)
         PYTHONPATH=<worktree> python equiv.py --record   (prints the observations as JSON)

EXPECTED below was recorded with the unchanged code (HEAD 343c5cf).
"""

import hashlib
import json
import random
import sys

from ceos_alos2 import utils

EXPLICIT = [
    # numbers
    0, 1, 123, -5, 1.9, -1.9, 1e3, True, False, 2**70,
    # plain strings
    "100", "100 MB", "100M", "5kB", "5.4 kB", "1kiB", "1e6", "1e6 kB", "MB", "5 foos",
    "", " ", "   ", "B", "b", "k", "K", "kb", "KB", "Kb", "ki", "Ki", "KI", "kib", "KIB",
    "m", "mi", "mib", "g", "gi", "gib", "t", "ti", "tib", "p", "pi", "pib", "PiB", "pB",
    "1 b", "1 B", "12 k", "12 ki", "3.5 GiB", "3.5GiB", " 3 . 5 G i B ", "0.1 TB", "1e-3 PB",
    "1e3", "1E3", "1e3e", "1e", "1e kB", "e", "1.", ".5", ".5 M", ".", "..", "-1", "-1 kB", "+2MB",
    "--1", "1-", "1 -", "kB 5", "5 kB 5", "5kB5", "k5", "5 k B", "5_000", "5_000 kB", "5__0",
    "1 i", "1 ib", "1 kbb", "1 bb", "1 bi", "1 kik", "1 x", "1 kibi", "1kBkB",
    "nan", "inf", "1nan", "1 inf", "infinity", "-inf", "1e400", "1e400 kB", "1e308 PB", "9" * 400,
    "0x10", "0b1", "1j", "١٢٣", "١٢٣ kB", "²", "5²", "2²kB", "½", "5½", "1µ", "1 µB", "5 ＫＢ", "5 ｋB",
    "1 İB", "5 KİB", "1ſ", "1 K", "1 K", "1\tkB", "1\nkB", "1 kB\n", "\n", "1,5 kB", "1;kB",
    "5 Мб", "５", "５ kB", "1 ß",
]
BAD_TYPES = [None, b"5 kB", [1], ("5",), {"a": 1}, 1 + 2j]


def outcome(value):
    try:
        result = utils.parse_bytes(value)
    except BaseException as e:  # noqa: B902
        cause = e.__cause__
        return [
            "raise",
            type(e).__name__,
            str(e),
            None if cause is None else [type(cause).__name__, str(cause)],
            e.__suppress_context__,
        ]
    return ["return", type(result).__name__, repr(result)]


def fuzz_cases():
    rng = random.Random(20240928)
    alphabet = "0123456789" * 3 + ".eE+-  kKmMgGtTpPiIbBxz_"
    for _ in range(6000):
        yield "".join(rng.choice(alphabet) for _ in range(rng.randint(0, 9)))
    units = list(utils.byte_sizes) + ["foo", "bib", "kk", "KIb", "I", "ii"]
    for _ in range(3000):
        number = rng.choice(["", "1", "12", "1.5", "1e3", ".5", "2.", "-3", "1e-2", "7e", "1.2.3"])
        sep = rng.choice(["", " ", "  "])
        unit = rng.choice(units)
        unit = "".join(rng.choice([c.lower(), c.upper()]) for c in unit)
        yield number + sep + unit


def observe():
    fuzz = [[case, outcome(case)] for case in fuzz_cases()]
    n_ok = sum(1 for _, o in fuzz if o[0] == "return")
    return {
        "byte_sizes_items": [[k, v] for k, v in utils.byte_sizes.items()],
        "byte_sizes_type": type(utils.byte_sizes).__name__,
        "explicit": [[repr(case), outcome(case)] for case in EXPLICIT],
        "bad_types": [[repr(case), outcome(case)] for case in BAD_TYPES],
        "fuzz_count": len(fuzz),
        "fuzz_ok": n_ok,
        "fuzz_digest": hashlib.sha256(json.dumps(fuzz).encode()).hexdigest(),
        "doc": utils.parse_bytes.__doc__,
    }


def check_digits_are_not_alphabetic():
    # the reason the backwards search in parse_bytes always stops early
    for cp in range(sys.maxunicode + 1):
        c = chr(cp)
        assert not (c.isdigit() and c.isalpha()), hex(cp)


EXPECTED_JSON = r"""
{
 "byte_sizes_items": [
  [
   "kb",
   1000
  ],
  [
   "mb",
   1000000
  ],
  [
   "gb",
   1000000000
  ],
  [
   "tb",
   1000000000000
  ],
  [
   "pb",
   1000000000000000
  ],
  [
   "kib",
   1024
  ],
  [
   "mib",
   1048576
  ],
  [
   "gib",
   1073741824
  ],
  [
   "tib",
   1099511627776
  ],
  [
   "pib",
   1125899906842624
  ],
  [
   "b",
   1
  ],
  [
   "",
   1
  ],
  [
   "k",
   1000
  ],
  [
   "m",
   1000000
  ],
  [
   "g",
   1000000000
  ],
  [
   "t",
   1000000000000
  ],
  [
   "p",
   1000000000000000
  ],
  [
   "ki",
   1024
  ],
  [
   "mi",
   1048576
  ],
  [
   "gi",
   1073741824
  ],
  [
   "ti",
   1099511627776
  ],
  [
   "pi",
   1125899906842624
  ]
 ],
 "byte_sizes_type": "dict",
 "explicit": [
  [
   "0",
   [
    "return",
    "int",
    "0"
   ]
  ],
  [
   "1",
   [
    "return",
    "int",
    "1"
   ]
  ],
  [
   "123",
   [
    "return",
    "int",
    "123"
   ]
  ],
  [
   "-5",
   [
    "return",
    "int",
    "-5"
   ]
  ],
  [
   "1.9",
   [
    "return",
    "int",
    "1"
   ]
  ],
  [
   "-1.9",
   [
    "return",
    "int",
    "-1"
   ]
  ],
  [
   "1000.0",
   [
    "return",
    "int",
    "1000"
   ]
  ],
  [
   "True",
   [
    "return",
    "int",
    "1"
   ]
  ],
  [
   "False",
   [
    "return",
    "int",
    "0"
   ]
  ],
  [
   "1180591620717411303424",
   [
    "return",
    "int",
    "1180591620717411303424"
   ]
  ],
  [
   "'100'",
   [
    "return",
    "int",
    "100"
   ]
  ],
  [
   "'100 MB'",
   [
    "return",
    "int",
    "100000000"
   ]
  ],
  [
   "'100M'",
   [
    "return",
    "int",
    "100000000"
   ]
  ],
  [
   "'5kB'",
   [
    "return",
    "int",
    "5000"
   ]
  ],
  [
   "'5.4 kB'",
   [
    "return",
    "int",
    "5400"
   ]
  ],
  [
   "'1kiB'",
   [
    "return",
    "int",
    "1024"
   ]
  ],
  [
   "'1e6'",
   [
    "return",
    "int",
    "1000000"
   ]
  ],
  [
   "'1e6 kB'",
   [
    "return",
    "int",
    "1000000000"
   ]
  ],
  [
   "'MB'",
   [
    "return",
    "int",
    "1000000"
   ]
  ],
  [
   "'5 foos'",
   [
    "raise",
    "ValueError",
    "Could not interpret 'foos' as a byte unit",
    [
     "KeyError",
     "'foos'"
    ],
    true
   ]
  ],
  [
   "''",
   [
    "return",
    "int",
    "1"
   ]
  ],
  [
   "' '",
   [
    "return",
    "int",
    "1"
   ]
  ],
  [
   "'   '",
   [
    "return",
    "int",
    "1"
   ]
  ],
  [
   "'B'",
   [
    "return",
    "int",
    "1"
   ]
  ],
  [
   "'b'",
   [
    "return",
    "int",
    "1"
   ]
  ],
  [
   "'k'",
   [
    "return",
    "int",
    "1000"
   ]
  ],
  [
   "'K'",
   [
    "return",
    "int",
    "1000"
   ]
  ],
  [
   "'kb'",
   [
    "return",
    "int",
    "1000"
   ]
  ],
  [
   "'KB'",
   [
    "return",
    "int",
    "1000"
   ]
  ],
  [
   "'Kb'",
   [
    "return",
    "int",
    "1000"
   ]
  ],
  [
   "'ki'",
   [
    "return",
    "int",
    "1024"
   ]
  ],
  [
   "'Ki'",
   [
    "return",
    "int",
    "1024"
   ]
  ],
  [
   "'KI'",
   [
    "return",
    "int",
    "1024"
   ]
  ],
  [
   "'kib'",
   [
    "return",
    "int",
    "1024"
   ]
  ],
  [
   "'KIB'",
   [
    "return",
    "int",
    "1024"
   ]
  ],
  [
   "'m'",
   [
    "return",
    "int",
    "1000000"
   ]
  ],
  [
   "'mi'",
   [
    "return",
    "int",
    "1048576"
   ]
  ],
  [
   "'mib'",
   [
    "return",
    "int",
    "1048576"
   ]
  ],
  [
   "'g'",
   [
    "return",
    "int",
    "1000000000"
   ]
  ],
  [
   "'gi'",
   [
    "return",
    "int",
    "1073741824"
   ]
  ],
  [
   "'gib'",
   [
    "return",
    "int",
    "1073741824"
   ]
  ],
  [
   "'t'",
   [
    "return",
    "int",
    "1000000000000"
   ]
  ],
  [
   "'ti'",
   [
    "return",
    "int",
    "1099511627776"
   ]
  ],
  [
   "'tib'",
   [
    "return",
    "int",
    "1099511627776"
   ]
  ],
  [
   "'p'",
   [
    "return",
    "int",
    "1000000000000000"
   ]
  ],
  [
   "'pi'",
   [
    "return",
    "int",
    "1125899906842624"
   ]
  ],
  [
   "'pib'",
   [
    "return",
    "int",
    "1125899906842624"
   ]
  ],
  [
   "'PiB'",
   [
    "return",
    "int",
    "1125899906842624"
   ]
  ],
  [
   "'pB'",
   [
    "return",
    "int",
    "1000000000000000"
   ]
  ],
  [
   "'1 b'",
   [
    "return",
    "int",
    "1"
   ]
  ],
  [
   "'1 B'",
   [
    "return",
    "int",
    "1"
   ]
  ],
  [
   "'12 k'",
   [
    "return",
    "int",
    "12000"
   ]
  ],
  [
   "'12 ki'",
   [
    "return",
    "int",
    "12288"
   ]
  ],
  [
   "'3.5 GiB'",
   [
    "return",
    "int",
    "3758096384"
   ]
  ],
  [
   "'3.5GiB'",
   [
    "return",
    "int",
    "3758096384"
   ]
  ],
  [
   "' 3 . 5 G i B '",
   [
    "return",
    "int",
    "3758096384"
   ]
  ],
  [
   "'0.1 TB'",
   [
    "return",
    "int",
    "100000000000"
   ]
  ],
  [
   "'1e-3 PB'",
   [
    "return",
    "int",
    "1000000000000"
   ]
  ],
  [
   "'1e3'",
   [
    "return",
    "int",
    "1000"
   ]
  ],
  [
   "'1E3'",
   [
    "return",
    "int",
    "1000"
   ]
  ],
  [
   "'1e3e'",
   [
    "raise",
    "ValueError",
    "Could not interpret 'e' as a byte unit",
    [
     "KeyError",
     "'e'"
    ],
    true
   ]
  ],
  [
   "'1e'",
   [
    "raise",
    "ValueError",
    "Could not interpret 'e' as a byte unit",
    [
     "KeyError",
     "'e'"
    ],
    true
   ]
  ],
  [
   "'1e kB'",
   [
    "raise",
    "ValueError",
    "Could not interpret 'ekB' as a byte unit",
    [
     "KeyError",
     "'ekb'"
    ],
    true
   ]
  ],
  [
   "'e'",
   [
    "raise",
    "ValueError",
    "Could not interpret 'e' as a byte unit",
    [
     "KeyError",
     "'e'"
    ],
    true
   ]
  ],
  [
   "'1.'",
   [
    "return",
    "int",
    "1"
   ]
  ],
  [
   "'.5'",
   [
    "return",
    "int",
    "0"
   ]
  ],
  [
   "'.5 M'",
   [
    "return",
    "int",
    "500000"
   ]
  ],
  [
   "'.'",
   [
    "return",
    "int",
    "1"
   ]
  ],
  [
   "'..'",
   [
    "raise",
    "ValueError",
    "Could not interpret '1..' as a number",
    [
     "ValueError",
     "could not convert string to float: '1..'"
    ],
    true
   ]
  ],
  [
   "'-1'",
   [
    "return",
    "int",
    "-1"
   ]
  ],
  [
   "'-1 kB'",
   [
    "return",
    "int",
    "-1000"
   ]
  ],
  [
   "'+2MB'",
   [
    "return",
    "int",
    "2000000"
   ]
  ],
  [
   "'--1'",
   [
    "raise",
    "ValueError",
    "Could not interpret '--1' as a number",
    [
     "ValueError",
     "could not convert string to float: '--1'"
    ],
    true
   ]
  ],
  [
   "'1-'",
   [
    "raise",
    "ValueError",
    "Could not interpret '1-' as a number",
    [
     "ValueError",
     "could not convert string to float: '1-'"
    ],
    true
   ]
  ],
  [
   "'1 -'",
   [
    "raise",
    "ValueError",
    "Could not interpret '1-' as a number",
    [
     "ValueError",
     "could not convert string to float: '1-'"
    ],
    true
   ]
  ],
  [
   "'kB 5'",
   [
    "raise",
    "ValueError",
    "Could not interpret 'kB5' as a number",
    [
     "ValueError",
     "could not convert string to float: 'kB5'"
    ],
    true
   ]
  ],
  [
   "'5 kB 5'",
   [
    "raise",
    "ValueError",
    "Could not interpret '5kB5' as a number",
    [
     "ValueError",
     "could not convert string to float: '5kB5'"
    ],
    true
   ]
  ],
  [
   "'5kB5'",
   [
    "raise",
    "ValueError",
    "Could not interpret '5kB5' as a number",
    [
     "ValueError",
     "could not convert string to float: '5kB5'"
    ],
    true
   ]
  ],
  [
   "'k5'",
   [
    "raise",
    "ValueError",
    "Could not interpret 'k5' as a number",
    [
     "ValueError",
     "could not convert string to float: 'k5'"
    ],
    true
   ]
  ],
  [
   "'5 k B'",
   [
    "return",
    "int",
    "5000"
   ]
  ],
  [
   "'5_000'",
   [
    "return",
    "int",
    "5000"
   ]
  ],
  [
   "'5_000 kB'",
   [
    "return",
    "int",
    "5000000"
   ]
  ],
  [
   "'5__0'",
   [
    "raise",
    "ValueError",
    "Could not interpret '5__0' as a number",
    [
     "ValueError",
     "could not convert string to float: '5__0'"
    ],
    true
   ]
  ],
  [
   "'1 i'",
   [
    "raise",
    "ValueError",
    "Could not interpret 'i' as a byte unit",
    [
     "KeyError",
     "'i'"
    ],
    true
   ]
  ],
  [
   "'1 ib'",
   [
    "raise",
    "ValueError",
    "Could not interpret 'ib' as a byte unit",
    [
     "KeyError",
     "'ib'"
    ],
    true
   ]
  ],
  [
   "'1 kbb'",
   [
    "raise",
    "ValueError",
    "Could not interpret 'kbb' as a byte unit",
    [
     "KeyError",
     "'kbb'"
    ],
    true
   ]
  ],
  [
   "'1 bb'",
   [
    "raise",
    "ValueError",
    "Could not interpret 'bb' as a byte unit",
    [
     "KeyError",
     "'bb'"
    ],
    true
   ]
  ],
  [
   "'1 bi'",
   [
    "raise",
    "ValueError",
    "Could not interpret 'bi' as a byte unit",
    [
     "KeyError",
     "'bi'"
    ],
    true
   ]
  ],
  [
   "'1 kik'",
   [
    "raise",
    "ValueError",
    "Could not interpret 'kik' as a byte unit",
    [
     "KeyError",
     "'kik'"
    ],
    true
   ]
  ],
  [
   "'1 x'",
   [
    "raise",
    "ValueError",
    "Could not interpret 'x' as a byte unit",
    [
     "KeyError",
     "'x'"
    ],
    true
   ]
  ],
  [
   "'1 kibi'",
   [
    "raise",
    "ValueError",
    "Could not interpret 'kibi' as a byte unit",
    [
     "KeyError",
     "'kibi'"
    ],
    true
   ]
  ],
  [
   "'1kBkB'",
   [
    "raise",
    "ValueError",
    "Could not interpret 'kBkB' as a byte unit",
    [
     "KeyError",
     "'kbkb'"
    ],
    true
   ]
  ],
  [
   "'nan'",
   [
    "raise",
    "ValueError",
    "Could not interpret 'nan' as a byte unit",
    [
     "KeyError",
     "'nan'"
    ],
    true
   ]
  ],
  [
   "'inf'",
   [
    "raise",
    "ValueError",
    "Could not interpret 'inf' as a byte unit",
    [
     "KeyError",
     "'inf'"
    ],
    true
   ]
  ],
  [
   "'1nan'",
   [
    "raise",
    "ValueError",
    "Could not interpret 'nan' as a byte unit",
    [
     "KeyError",
     "'nan'"
    ],
    true
   ]
  ],
  [
   "'1 inf'",
   [
    "raise",
    "ValueError",
    "Could not interpret 'inf' as a byte unit",
    [
     "KeyError",
     "'inf'"
    ],
    true
   ]
  ],
  [
   "'infinity'",
   [
    "raise",
    "ValueError",
    "Could not interpret 'infinity' as a byte unit",
    [
     "KeyError",
     "'infinity'"
    ],
    true
   ]
  ],
  [
   "'-inf'",
   [
    "raise",
    "ValueError",
    "Could not interpret '1-' as a number",
    [
     "ValueError",
     "could not convert string to float: '1-'"
    ],
    true
   ]
  ],
  [
   "'1e400'",
   [
    "raise",
    "OverflowError",
    "cannot convert float infinity to integer",
    null,
    false
   ]
  ],
  [
   "'1e400 kB'",
   [
    "raise",
    "OverflowError",
    "cannot convert float infinity to integer",
    null,
    false
   ]
  ],
  [
   "'1e308 PB'",
   [
    "raise",
    "OverflowError",
    "cannot convert float infinity to integer",
    null,
    false
   ]
  ],
  [
   "'9999999999999999999999999999999999999999999999999999999999999999999999999999999999999999999999999999999999999999999999999999999999999999999999999999999999999999999999999999999999999999999999999999999999999999999999999999999999999999999999999999999999999999999999999999999999999999999999999999999999999999999999999999999999999999999999999999999999999999999999999999999999999999999999999999999999999999'",
   [
    "raise",
    "OverflowError",
    "cannot convert float infinity to integer",
    null,
    false
   ]
  ],
  [
   "'0x10'",
   [
    "raise",
    "ValueError",
    "Could not interpret '0x10' as a number",
    [
     "ValueError",
     "could not convert string to float: '0x10'"
    ],
    true
   ]
  ],
  [
   "'0b1'",
   [
    "raise",
    "ValueError",
    "Could not interpret '0b1' as a number",
    [
     "ValueError",
     "could not convert string to float: '0b1'"
    ],
    true
   ]
  ],
  [
   "'1j'",
   [
    "raise",
    "ValueError",
    "Could not interpret 'j' as a byte unit",
    [
     "KeyError",
     "'j'"
    ],
    true
   ]
  ],
  [
   "'\u0661\u0662\u0663'",
   [
    "return",
    "int",
    "123"
   ]
  ],
  [
   "'\u0661\u0662\u0663 kB'",
   [
    "return",
    "int",
    "123000"
   ]
  ],
  [
   "'\u00b2'",
   [
    "raise",
    "ValueError",
    "Could not interpret '\u00b2' as a number",
    [
     "ValueError",
     "could not convert string to float: '\u00b2'"
    ],
    true
   ]
  ],
  [
   "'5\u00b2'",
   [
    "raise",
    "ValueError",
    "Could not interpret '5\u00b2' as a number",
    [
     "ValueError",
     "could not convert string to float: '5\u00b2'"
    ],
    true
   ]
  ],
  [
   "'2\u00b2kB'",
   [
    "raise",
    "ValueError",
    "Could not interpret '2\u00b2' as a number",
    [
     "ValueError",
     "could not convert string to float: '2\u00b2'"
    ],
    true
   ]
  ],
  [
   "'\u00bd'",
   [
    "raise",
    "ValueError",
    "Could not interpret '1\u00bd' as a number",
    [
     "ValueError",
     "could not convert string to float: '1\u00bd'"
    ],
    true
   ]
  ],
  [
   "'5\u00bd'",
   [
    "raise",
    "ValueError",
    "Could not interpret '5\u00bd' as a number",
    [
     "ValueError",
     "could not convert string to float: '5\u00bd'"
    ],
    true
   ]
  ],
  [
   "'1\u00b5'",
   [
    "raise",
    "ValueError",
    "Could not interpret '\u00b5' as a byte unit",
    [
     "KeyError",
     "'\u00b5'"
    ],
    true
   ]
  ],
  [
   "'1 \u00b5B'",
   [
    "raise",
    "ValueError",
    "Could not interpret '\u00b5B' as a byte unit",
    [
     "KeyError",
     "'\u00b5b'"
    ],
    true
   ]
  ],
  [
   "'5 \uff2b\uff22'",
   [
    "raise",
    "ValueError",
    "Could not interpret '\uff2b\uff22' as a byte unit",
    [
     "KeyError",
     "'\uff4b\uff42'"
    ],
    true
   ]
  ],
  [
   "'5 \uff4bB'",
   [
    "raise",
    "ValueError",
    "Could not interpret '\uff4bB' as a byte unit",
    [
     "KeyError",
     "'\uff4bb'"
    ],
    true
   ]
  ],
  [
   "'1 \u0130B'",
   [
    "raise",
    "ValueError",
    "Could not interpret '\u0130B' as a byte unit",
    [
     "KeyError",
     "'i\u0307b'"
    ],
    true
   ]
  ],
  [
   "'5 K\u0130B'",
   [
    "raise",
    "ValueError",
    "Could not interpret 'K\u0130B' as a byte unit",
    [
     "KeyError",
     "'ki\u0307b'"
    ],
    true
   ]
  ],
  [
   "'1\u017f'",
   [
    "raise",
    "ValueError",
    "Could not interpret '\u017f' as a byte unit",
    [
     "KeyError",
     "'\u017f'"
    ],
    true
   ]
  ],
  [
   "'1 K'",
   [
    "return",
    "int",
    "1000"
   ]
  ],
  [
   "'1 K'",
   [
    "return",
    "int",
    "1000"
   ]
  ],
  [
   "'1\\tkB'",
   [
    "return",
    "int",
    "1000"
   ]
  ],
  [
   "'1\\nkB'",
   [
    "return",
    "int",
    "1000"
   ]
  ],
  [
   "'1 kB\\n'",
   [
    "raise",
    "ValueError",
    "Could not interpret '1kB\n' as a number",
    [
     "ValueError",
     "could not convert string to float: '1kB\\n'"
    ],
    true
   ]
  ],
  [
   "'\\n'",
   [
    "return",
    "int",
    "1"
   ]
  ],
  [
   "'1,5 kB'",
   [
    "raise",
    "ValueError",
    "Could not interpret '1,5' as a number",
    [
     "ValueError",
     "could not convert string to float: '1,5'"
    ],
    true
   ]
  ],
  [
   "'1;kB'",
   [
    "raise",
    "ValueError",
    "Could not interpret '1;' as a number",
    [
     "ValueError",
     "could not convert string to float: '1;'"
    ],
    true
   ]
  ],
  [
   "'5 \u041c\u0431'",
   [
    "raise",
    "ValueError",
    "Could not interpret '\u041c\u0431' as a byte unit",
    [
     "KeyError",
     "'\u043c\u0431'"
    ],
    true
   ]
  ],
  [
   "'\uff15'",
   [
    "return",
    "int",
    "5"
   ]
  ],
  [
   "'\uff15 kB'",
   [
    "return",
    "int",
    "5000"
   ]
  ],
  [
   "'1 \u00df'",
   [
    "raise",
    "ValueError",
    "Could not interpret '\u00df' as a byte unit",
    [
     "KeyError",
     "'\u00df'"
    ],
    true
   ]
  ]
 ],
 "bad_types": [
  [
   "None",
   [
    "raise",
    "AttributeError",
    "'NoneType' object has no attribute 'replace'",
    null,
    false
   ]
  ],
  [
   "b'5 kB'",
   [
    "raise",
    "TypeError",
    "a bytes-like object is required, not 'str'",
    null,
    false
   ]
  ],
  [
   "[1]",
   [
    "raise",
    "AttributeError",
    "'list' object has no attribute 'replace'",
    null,
    false
   ]
  ],
  [
   "('5',)",
   [
    "raise",
    "AttributeError",
    "'tuple' object has no attribute 'replace'",
    null,
    false
   ]
  ],
  [
   "{'a': 1}",
   [
    "raise",
    "AttributeError",
    "'dict' object has no attribute 'replace'",
    null,
    false
   ]
  ],
  [
   "(1+2j)",
   [
    "raise",
    "AttributeError",
    "'complex' object has no attribute 'replace'",
    null,
    false
   ]
  ]
 ],
 "fuzz_count": 9000,
 "fuzz_ok": 4052,
 "fuzz_digest": "dcbdc5ef521cfb259af65a9aaebc1dbd776832279cea8da3b0c063b9d5b34ff1",
 "doc": "Parse byte string to numbers\n\n    >>> from dask.utils import parse_bytes\n    >>> parse_bytes(\"100\")\n    100\n    >>> parse_bytes(\"100 MB\")\n    100000000\n    >>> parse_bytes(\"100M\")\n    100000000\n    >>> parse_bytes(\"5kB\")\n    5000\n    >>> parse_bytes(\"5.4 kB\")\n    5400\n    >>> parse_bytes(\"1kiB\")\n    1024\n    >>> parse_bytes(\"1e6\")\n    1000000\n    >>> parse_bytes(\"1e6 kB\")\n    1000000000\n    >>> parse_bytes(\"MB\")\n    1000000\n    >>> parse_bytes(123)\n    123\n    >>> parse_bytes(\"5 foos\")\n    Traceback (most recent call last):\n        ...\n    ValueError: Could not interpret 'foos' as a byte unit\n    "
}
"""


def test_equivalent():
    EXPECTED = json.loads(EXPECTED_JSON)
    observed = json.loads(json.dumps(observe()))
    for key in EXPECTED:
        if isinstance(EXPECTED[key], list) and key != "byte_sizes_items":
            for exp, obs in zip(EXPECTED[key], observed[key]):
                assert obs == exp, (key, exp, obs)
        assert observed[key] == EXPECTED[key], key
    assert observed == EXPECTED
    check_digits_are_not_alphabetic()


if __name__ == "__main__":
    if "--record" in sys.argv:
        print(json.dumps(observe(), indent=1))
    else:
        test_equivalent()
        print("refactoring 1: OK", utils.__file__)
