"""Equivalence check for refactoring 1 (parse_line / with_lineno / parse_summary).

Run as ``python _eq/1/equiv.py`` (or through pytest).  ``python _eq/1/equiv.py --record``
prints the observations instead of comparing them; EXPECTED below was recorded that way
from the unchanged code.
"""

import pprint
import sys

from ceos_alos2 import summary

try:
    ExceptionGroup
except NameError:  # pragma: no cover
    from exceptiongroup import ExceptionGroup


def describe_exception(e):
    if isinstance(e, ExceptionGroup):
        info = [type(e).__name__, e.message]
        info.append([describe_exception(sub) for sub in e.exceptions])
    else:
        info = [type(e).__name__, repr(e.args)]
    info.append(type(e.__cause__).__name__)
    info.append(e.__suppress_context__)
    return info


def observe(f, *args):
    try:
        result = f(*args)
    except BaseException as e:  # noqa: B902
        return ["raises", describe_exception(e)]
    # repr keeps types, values and the order of dict items
    return ["returns", repr(result)]


LINES = [
    'Scs_SceneShift="0"',
    'Pds_ProductID="WWDR1.1__D"',
    'Scs_SceneShift"0"',
    'PdsProductID="WWDR1.1__D"',
    "",
    " ",
    'abc_="x"',
    'abc_k=""',
    'ABC_key_with_underscores="a b c"',
    'Abc_k="x"y"',
    'Abc_k="x" Abc_l="y"',
    'Abc_k=v="x"',
    'Abcd_k="x"',
    'Ab_k="x"',
    'Ab1_k="x"',
    ' Abc_k="x"',
    'Abc_k="x" ',
    'Abc_k="x"\n',
    'Abc_k="éè"',
    'Äbc_k="x"',
    'Abc_k=x',
    'Abc_k="x',
    'Abc_="',
    'Abc_k=""""',
]

CONTENTS = [
    "",
    "\n",
    'Scs_SceneShift="0"\nPds_ProductID="WWDR1.1__D"',
    'Scs_SceneShift="0"\nPds_ProductID="WWDR1.1__D"\n',
    'Scs_SceneShift="0"\r\nPds_ProductID="WWDR1.1__D"\r\n',
    'Scs_SceneShift="0"\n\nPds_ProductID="WWDR1.1__D"',
    'Scs_SceneShift"0"\nPdsProductID="WWDR1.1__D"',
    # sections are merged in order of first appearance, later keywords win
    'Pds_a="1"\nScs_b="2"\nPds_c="3"\nScs_b="4"\nPds_a="5"',
    # differently spelled sections only collide after the merge
    'Scs_a="1"\nSCS_b="2"\nscs_c="3"',
    'SCS_b="2"\nOdi_x="y"\nScs_a="1"\nscs_b="0"\nSCS_d="9"',
    'scs_a="1"\nodi_a="2"\nSCS_a="3"\nODI_b="4"',
    # unusual line separators
    'Scs_a="1"\x0cScs_b="2"\x1cScs_c="3" Scs_d="4"',
    'Scs_a="1"\vbroken\x85Scs_c="3"',
    # errors: only some lines are invalid
    'Scs_a="1"\nbroken\nScs_b="2"\nalso broken\n',
    'Img_k="x"y"\nImg_l="a" Img_m="b"',
    'Abc_="x"\nAbc_="y"\nAbc_k=""',
    "   ",
]


def with_lineno_cases():
    cases = []

    e = ValueError("invalid line")
    r = summary.with_lineno(e, 3)
    cases.append([r is e, repr(r.args)])

    e = ValueError("a", "b", 3)
    r = summary.with_lineno(e, 123)
    cases.append([r is e, repr(r.args)])

    e = KeyError(("x", "y"))
    r = summary.with_lineno(e, 0)
    cases.append([r is e, repr(r.args)])

    e = OSError(2, "no such file")
    r = summary.with_lineno(e, 7)
    cases.append([r is e, repr(r.args), repr(e.errno)])

    e = ValueError()
    cases.append(observe(summary.with_lineno, e, 1))
    cases.append(repr(e.args))

    e = ValueError("m")
    cases.append(observe(summary.with_lineno, e, "1"))
    cases.append(repr(e.args))
    cases.append(observe(summary.with_lineno, e, -5))
    cases.append(observe(summary.with_lineno, e, 2.5))

    return cases


def identity_cases():
    """the group contains the very exceptions raised by parse_line, modified in place"""
    raised = []
    original = summary.parse_line

    def spy(line):
        try:
            return original(line)
        except ValueError as e:
            raised.append(e)
            raise

    summary.parse_line = spy
    try:
        try:
            summary.parse_summary('a\nAbc_k="v"\nb')
        except ExceptionGroup as group:
            result = [
                len(raised),
                len(group.exceptions),
                all(a is b for a, b in zip(raised, group.exceptions)),
                [repr(e.args) for e in raised],
            ]
        else:
            result = "no error"
    finally:
        summary.parse_line = original

    return result


def long_case():
    """more than a hundred lines: the line number is padded to two digits only"""
    content = "\n".join(["x"] * 101 + ['Abc_k="v"'] + ["y"])
    try:
        summary.parse_summary(content)
    except ExceptionGroup as group:
        messages = [e.args[0] for e in group.exceptions]
        return [len(messages), messages[0], messages[9:11], messages[99:]]
    return "no error"


def collect():
    return {
        "long": long_case(),
        "parse_line": [observe(summary.parse_line, line) for line in LINES],
        "parse_line_types": [
            observe(summary.parse_line, value) for value in (None, b'Abc_k="v"', 1, ["a"])
        ],
        "parse_summary": [observe(summary.parse_summary, content) for content in CONTENTS],
        "parse_summary_types": [
            observe(summary.parse_summary, value) for value in (None, b'Abc_k="v"', 1)
        ],
        "with_lineno": with_lineno_cases(),
        "identity": identity_cases(),
    }


EXPECTED = {'long': [102,
          'line 00: invalid line',
          ['line 09: invalid line', 'line 10: invalid line'],
          ['line 99: invalid line', 'line 100: invalid line', 'line 102: invalid line']],
 'parse_line': [['returns', "{'section': 'Scs', 'keyword': 'SceneShift', 'value': '0'}"],
                ['returns', "{'section': 'Pds', 'keyword': 'ProductID', 'value': 'WWDR1.1__D'}"],
                ['raises', ['ValueError', "('invalid line',)", 'NoneType', False]],
                ['raises', ['ValueError', "('invalid line',)", 'NoneType', False]],
                ['raises', ['ValueError', "('invalid line',)", 'NoneType', False]],
                ['raises', ['ValueError', "('invalid line',)", 'NoneType', False]],
                ['returns', "{'section': 'abc', 'keyword': '', 'value': 'x'}"],
                ['returns', "{'section': 'abc', 'keyword': 'k', 'value': ''}"],
                ['returns',
                 "{'section': 'ABC', 'keyword': 'key_with_underscores', 'value': 'a b c'}"],
                ['returns', '{\'section\': \'Abc\', \'keyword\': \'k\', \'value\': \'x"y\'}'],
                ['returns',
                 '{\'section\': \'Abc\', \'keyword\': \'k\', \'value\': \'x" Abc_l="y\'}'],
                ['returns', "{'section': 'Abc', 'keyword': 'k=v', 'value': 'x'}"],
                ['raises', ['ValueError', "('invalid line',)", 'NoneType', False]],
                ['raises', ['ValueError', "('invalid line',)", 'NoneType', False]],
                ['raises', ['ValueError', "('invalid line',)", 'NoneType', False]],
                ['raises', ['ValueError', "('invalid line',)", 'NoneType', False]],
                ['raises', ['ValueError', "('invalid line',)", 'NoneType', False]],
                ['raises', ['ValueError', "('invalid line',)", 'NoneType', False]],
                ['returns', "{'section': 'Abc', 'keyword': 'k', 'value': 'éè'}"],
                ['raises', ['ValueError', "('invalid line',)", 'NoneType', False]],
                ['raises', ['ValueError', "('invalid line',)", 'NoneType', False]],
                ['raises', ['ValueError', "('invalid line',)", 'NoneType', False]],
                ['raises', ['ValueError', "('invalid line',)", 'NoneType', False]],
                ['returns', '{\'section\': \'Abc\', \'keyword\': \'k\', \'value\': \'""\'}']],
 'parse_line_types': [['raises',
                       ['TypeError',
                        '("expected string or bytes-like object, got \'NoneType\'",)',
                        'NoneType',
                        False]],
                      ['raises',
                       ['TypeError',
                        "('cannot use a string pattern on a bytes-like object',)",
                        'NoneType',
                        False]],
                      ['raises',
                       ['TypeError',
                        '("expected string or bytes-like object, got \'int\'",)',
                        'NoneType',
                        False]],
                      ['raises',
                       ['TypeError',
                        '("expected string or bytes-like object, got \'list\'",)',
                        'NoneType',
                        False]]],
 'parse_summary': [['returns', '{}'],
                   ['raises',
                    ['ExceptionGroup',
                     'failed to parse the summary',
                     [['ValueError', "('line 00: invalid line',)", 'NoneType', False]],
                     'NoneType',
                     False]],
                   ['returns', "{'scs': {'SceneShift': '0'}, 'pds': {'ProductID': 'WWDR1.1__D'}}"],
                   ['returns', "{'scs': {'SceneShift': '0'}, 'pds': {'ProductID': 'WWDR1.1__D'}}"],
                   ['returns', "{'scs': {'SceneShift': '0'}, 'pds': {'ProductID': 'WWDR1.1__D'}}"],
                   ['raises',
                    ['ExceptionGroup',
                     'failed to parse the summary',
                     [['ValueError', "('line 01: invalid line',)", 'NoneType', False]],
                     'NoneType',
                     False]],
                   ['raises',
                    ['ExceptionGroup',
                     'failed to parse the summary',
                     [['ValueError', "('line 00: invalid line',)", 'NoneType', False],
                      ['ValueError', "('line 01: invalid line',)", 'NoneType', False]],
                     'NoneType',
                     False]],
                   ['returns', "{'pds': {'a': '5', 'c': '3'}, 'scs': {'b': '4'}}"],
                   ['returns', "{'scs': {'c': '3'}}"],
                   ['returns', "{'scs': {'b': '0'}, 'odi': {'x': 'y'}}"],
                   ['returns', "{'scs': {'a': '3'}, 'odi': {'b': '4'}}"],
                   ['returns', "{'scs': {'a': '1', 'b': '2', 'c': '3', 'd': '4'}}"],
                   ['raises',
                    ['ExceptionGroup',
                     'failed to parse the summary',
                     [['ValueError', "('line 01: invalid line',)", 'NoneType', False]],
                     'NoneType',
                     False]],
                   ['raises',
                    ['ExceptionGroup',
                     'failed to parse the summary',
                     [['ValueError', "('line 01: invalid line',)", 'NoneType', False],
                      ['ValueError', "('line 03: invalid line',)", 'NoneType', False]],
                     'NoneType',
                     False]],
                   ['returns', '{\'img\': {\'k\': \'x"y\', \'l\': \'a" Img_m="b\'}}'],
                   ['returns', "{'abc': {'': 'y', 'k': ''}}"],
                   ['raises',
                    ['ExceptionGroup',
                     'failed to parse the summary',
                     [['ValueError', "('line 00: invalid line',)", 'NoneType', False]],
                     'NoneType',
                     False]]],
 'parse_summary_types': [['raises',
                          ['AttributeError',
                           '("\'NoneType\' object has no attribute \'splitlines\'",)',
                           'NoneType',
                           False]],
                         ['raises',
                          ['TypeError',
                           "('cannot use a string pattern on a bytes-like object',)",
                           'NoneType',
                           False]],
                         ['raises',
                          ['AttributeError',
                           '("\'int\' object has no attribute \'splitlines\'",)',
                           'NoneType',
                           False]]],
 'with_lineno': [[True, "('line 03: invalid line',)"],
                 [True, "('line 123: a', 'b', 3)"],
                 [True, '("line 00: (\'x\', \'y\')",)'],
                 [True, "('line 07: 2', 'no such file')", '2'],
                 ['raises', ['IndexError', "('tuple index out of range',)", 'NoneType', False]],
                 '()',
                 ['raises',
                  ['ValueError',
                   '("Unknown format code \'d\' for object of type \'str\'",)',
                   'NoneType',
                   False]],
                 "('m',)",
                 ['returns', "ValueError('line -5: m')"],
                 ['raises',
                  ['ValueError',
                   '("Unknown format code \'d\' for object of type \'float\'",)',
                   'NoneType',
                   False]]],
 'identity': [2, 2, True, ["('line 00: invalid line',)", "('line 02: invalid line',)"]]}


def test_equivalence():
    actual = collect()
    assert sorted(actual) == sorted(EXPECTED)
    for name, expected in EXPECTED.items():
        assert len(actual[name]) == len(expected), name
        for index, (a, e) in enumerate(zip(actual[name], expected)):
            assert a == e, (name, index, a, e)


if __name__ == "__main__":
    if "--record" in sys.argv:
        pprint.pprint(collect(), width=100, sort_dicts=False)
    else:
        test_equivalence()
        print("ok:", sum(len(v) for v in EXPECTED.values()), "observations identical")
