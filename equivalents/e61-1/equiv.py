"""equivalence check for refactoring 1: ceos_alos2/sar_image/io.py
(parse_chunk, adjust_offsets, read_metadata)

run as

    cd /tmp/wt8/e61 && PYTHONPATH=/tmp/wt8/e61 /venv/bin/python _eq/1/equiv.py

Every case calls the public functions of `ceos_alos2.sar_image.io` on synthetic
CEOS bytes (or on stand-in objects) and describes the outcome: the returned value
including the types of all containers, or the type and message of the exception,
and, for `read_metadata`, the sequence of `read` requests the file object received.
The descriptions are compared with the ones recorded from the unchanged code
(`EXPECTED`, at the bottom; long descriptions are stored as sha256).
"""
import datetime as _dt
import hashlib
import pprint
import sys
import types as _types

import numpy as np

from ceos_alos2.array import Array
from ceos_alos2.hierarchy import Group, Variable


# --------------------------------------------------------------------------
# harness: describe results (values *and* types) in a deterministic way, record
# them with `--record`, compare them with the recorded ones otherwise
# --------------------------------------------------------------------------
def describe(obj):
    """deterministic, type-aware description of a result"""
    if isinstance(obj, Group):
        return "Group(path={}, url={}, attrs={}, data={})".format(
            describe(obj.path), describe(obj.url), describe(obj.attrs), describe(obj.data)
        )
    if isinstance(obj, Variable):
        return "Variable(dims={}, data={}, attrs={})".format(
            describe(obj.dims), describe(obj.data), describe(obj.attrs)
        )
    if isinstance(obj, Array):
        return "Array({})".format(
            ", ".join(
                "{}={}".format(name, describe(getattr(obj, name)))
                for name in [
                    "url",
                    "byte_ranges",
                    "shape",
                    "dtype",
                    "type_code",
                    "records_per_chunk",
                    "chunk_offsets",
                ]
            )
        )
    if isinstance(obj, np.ndarray):
        return "ndarray(dtype={}, shape={}, data={})".format(
            obj.dtype, obj.shape, describe(obj.astype(str).tolist())
        )
    if isinstance(obj, dict):
        return "{}{{{}}}".format(
            type(obj).__name__,
            ", ".join("{}: {}".format(describe(k), describe(v)) for k, v in obj.items()),
        )
    if isinstance(obj, (list, tuple)):
        return "{}[{}]".format(type(obj).__name__, ", ".join(describe(v) for v in obj))
    if isinstance(obj, (set, frozenset)):
        return "{}[{}]".format(type(obj).__name__, ", ".join(sorted(describe(v) for v in obj)))
    if isinstance(obj, float) and obj != obj:
        return "float:nan"
    if isinstance(obj, (_dt.datetime, _dt.date)):
        return "{}:{}".format(type(obj).__name__, obj.isoformat())
    if obj is None or isinstance(obj, (bool, int, float, complex, str, bytes, np.generic)):
        return "{}:{!r}".format(type(obj).__name__, obj)
    if isinstance(obj, _types.GeneratorType) or type(obj).__name__.endswith("iterator"):
        # no addresses
        return "<{}>".format(type(obj).__name__)
    if hasattr(obj, "__dict__"):
        return "{}<{}>".format(type(obj).__name__, describe(vars(obj)))
    return "{}:{!r}".format(type(obj).__name__, obj)


def outcome(thunk):
    try:
        result = thunk()
    except Exception as e:  # noqa: BLE001
        return "raised {}: {}".format(type(e).__name__, e)
    return "returned " + describe(result)


def compact(text):
    if len(text) <= 200:
        return text
    return "sha256:{} (len {})".format(hashlib.sha256(text.encode()).hexdigest(), len(text))


CASES = {}


def case(name):
    def register(thunk):
        assert name not in CASES, name
        CASES[name] = thunk
        return thunk

    return register


def main(expected):
    import ceos_alos2

    print("using", ceos_alos2.__file__)
    if "--show" in sys.argv:
        # full descriptions of the cases whose names contain the given text
        pattern = sys.argv[sys.argv.index("--show") + 1]
        for name, thunk in CASES.items():
            if pattern in name:
                print("{}\n    {}".format(name, outcome(thunk)))
        return 0

    actual = {name: compact(outcome(thunk)) for name, thunk in CASES.items()}
    if "--record" in sys.argv:
        print("EXPECTED = \\")
        pprint.pprint(actual, width=100, sort_dicts=False)
        return 0

    failures = []
    for name, value in actual.items():
        if name not in expected:
            failures.append((name, "<not recorded>", value))
        elif expected[name] != value:
            failures.append((name, expected[name], value))
    for name in expected:
        if name not in actual:
            failures.append((name, expected[name], "<missing>"))

    for name, want, got in failures:
        print("MISMATCH {}\n   recorded: {}\n   actual:   {}".format(name, want, got))
    print("{} cases, {} mismatches".format(len(actual), len(failures)))
    return 1 if failures else 0

import struct


# --------------------------------------------------------------------------
# synthetic CEOS bytes
# --------------------------------------------------------------------------
def preamble(seq, record_type, length):
    return struct.pack(">IBBBBI", seq, 50, record_type, 18, 20, length)


def processed_record(seq, line, n_data_bytes, *, scan_id=0, doy=10, fill=None, length=None):
    """record type 11 (level 1.1 / 1.5): 192 bytes of prefix + pixel data"""
    length = 192 + n_data_bytes if length is None else length
    prefix = b"".join(
        [
            preamble(seq, 11, length),
            struct.pack(">6I", line, 1, 0, n_data_bytes // 2, 0, 1),
            struct.pack(">3I", 2020, doy, 45_462_451 + line),
            struct.pack(">4H", 2, 0, 0, 1),
            struct.pack(">2I", 2_100_000 + line, scan_id),
            struct.pack(">3I", 700_000, 720_000 + line, 740_000),
            struct.pack(">3I", 1000, 2000, 3000 + line),
            struct.pack(">3I", 11, 12, 13),
            struct.pack(">2I", 30_000_000, 1_000_000),
            b"\x00" * 20,
            struct.pack(">I", 1),
            struct.pack(">6I", 35_000_000, 35_100_000, 35_200_000 + line, 139_000_000, 1, 2),
            struct.pack(">I", 4_000_000),
            b"\x00" * 4,
            struct.pack(">2I", 4_100_000, 500_000),
            b"ab\x00\x00",
            struct.pack(">2I", 600_000, 190_000_000),
            b"\x00" * 8,
        ]
    )
    assert len(prefix) == 192, len(prefix)
    data = bytes((fill if fill is not None else (seq + i) % 251) for i in range(n_data_bytes))
    return prefix + data


def signal_record(seq, line, n_data_bytes, *, scan_id=3, channel_id=1, frame=710):
    """record type 10 (level 1.0 / 1.1 signal data): 544 bytes of prefix + data"""
    length = 544 + n_data_bytes
    prefix = b"".join(
        [
            preamble(seq, 10, length),
            struct.pack(">6I", line, 1, 2, n_data_bytes // 8, 3, 0),
            struct.pack(">3I", 2019, 283, 12_345_678 + line),
            struct.pack(">4H", channel_id, 0, 1, 0),
            struct.pack(">2I", 1_500_000, scan_id),
            struct.pack(">2H", 1, 0),
            struct.pack(">4I", 30_000, 0, 1, 2),
            struct.pack(">Q", 12_345_678_901 + line),
            struct.pack(">2I", 40, 0),
            struct.pack(">4I", 1, 2, 3, 4),
            struct.pack(">3I", 800_000, 5_000, 0),
            struct.pack(">5I", 1, 34_500_000, 135_250_000, 628_000, 700_000),
            struct.pack(">6I", 1, 2, 3, 4, 5, 6),
            struct.pack(">2I", 190_000_000, 191_000_000),
            struct.pack(">3I", 7, 8, 9),
            struct.pack(">6I", 10, 11, 12, 13, 14, 15 + line),
            struct.pack(">2I", 2, 17 + line),
            b"\x00" * 60,
            struct.pack(">I", frame),
            b"aux" + b"\x00" * 253,
        ]
    )
    assert len(prefix) == 544, len(prefix)
    return prefix + bytes((seq * 3 + i) % 256 for i in range(n_data_bytes))


def _fill(subcon, values, prefix=()):
    from construct import Renamed, Struct

    name = subcon.name
    inner = subcon.subcon if isinstance(subcon, Renamed) else subcon
    if name == "preamble":
        return preamble(1, 192, 720)
    if isinstance(inner, Struct):
        return b"".join(_fill(sub, values, prefix + (name,)) for sub in inner.subcons)
    width = inner.sizeof()
    value = values.get(".".join(prefix + (name,)), values.get(name, ""))
    text = str(value)
    assert len(text) <= width, (name, text, width)
    if isinstance(value, int):
        return text.rjust(width).encode("ascii")
    return text.ljust(width).encode("ascii")


def file_descriptor(n_records, record_length, n_lines=None, n_pixels=4, type_code="IU2", **extra):
    """720 bytes of file descriptor; `extra` overrides fields by name"""
    from ceos_alos2.sar_image.file_descriptor import file_descriptor_record

    values = {
        "ascii_ebcdic_flag": "A",
        "format_control_document_id": "CEOS-SAR",
        "file_number": 2,
        "file_id": "IMOP",
        "number_of_sar_data_records": n_records,
        "sar_data_record_length": record_length,
        "number_of_lines_per_dataset": n_records if n_lines is None else n_lines,
        "number_of_data_groups_per_line": n_pixels,
        "interleaving_id": "BSQ",
        "sar_data_format_type_code": type_code,
        "sar_data_format_type_indicator": "UNSIGNED INTEGER*2",
    }
    values.update(extra)
    content = b"".join(_fill(sub, values) for sub in file_descriptor_record.subcons)
    assert len(content) == 720, len(content)
    return content


def image_file(kind, n_records, n_data_bytes, **descriptor):
    make = {"processed": processed_record, "signal": signal_record}[kind]
    prefix = {"processed": 192, "signal": 544}[kind]
    records = [make(index + 1, index + 1, n_data_bytes) for index in range(n_records)]
    header = file_descriptor(n_records, prefix + n_data_bytes, **descriptor)
    return header + b"".join(records)


class LoggingFile:
    """file-like object that records the requests it receives"""

    def __init__(self, content, log=None, coerce=False):
        import io as _io

        self._f = _io.BytesIO(content)
        self.log = [] if log is None else log
        self.coerce = coerce

    def read(self, size=-1):
        self.log.append(("read", size, self._f.tell()))
        if self.coerce:
            # fsspec's buffered files accept anything `int` accepts
            size = -1 if size is None else int(size)
        return self._f.read(size)

    def seek(self, offset, whence=0):
        self.log.append(("seek", offset, whence))
        return self._f.seek(offset, whence)

    def tell(self):
        return self._f.tell()

    def close(self):
        self.log.append(("close",))

    def __enter__(self):
        return self

    def __exit__(self, *args):
        self.close()

import copy  # noqa: E402
import types  # noqa: E402

import fsspec  # noqa: E402
from construct import Int8ub, Int16ub, Seek, Struct, Tell, this  # noqa: E402

from ceos_alos2.common import record_preamble  # noqa: E402
from ceos_alos2.sar_image import io as sio  # noqa: E402
from ceos_alos2.utils import to_dict  # noqa: E402


# --------------------------------------------------------------------------
# parse_chunk
# --------------------------------------------------------------------------
def _parsed(content, element_size):
    records = sio.parse_chunk(content, element_size)
    return [type(records).__name__, to_dict(records)]


for _n in (1, 2, 3, 5):

    @case(f"parse_chunk/processed/{_n}")
    def _(n=_n):
        content = b"".join(processed_record(i + 1, i + 7, 12) for i in range(n))
        return _parsed(content, 204)

    @case(f"parse_chunk/signal/{_n}")
    def _(n=_n):
        content = b"".join(signal_record(i + 1, i + 1, 16, scan_id=i) for i in range(n))
        return _parsed(content, 560)


@case("parse_chunk/empty-data-part")
def _():
    return _parsed(processed_record(1, 1, 0) + processed_record(2, 2, 0), 192)


@case("parse_chunk/record_length-shorter-than-element")
def _():
    # the preamble advertises less than what is there: Seek goes backwards
    content = processed_record(1, 1, 8, length=196) + processed_record(2, 2, 8, length=196)
    return _parsed(content, 200)


@case("parse_chunk/element-size-mismatch/too-long")
def _():
    return _parsed(processed_record(1, 1, 8) + b"\x00", 200)


@case("parse_chunk/element-size-mismatch/too-short")
def _():
    return _parsed(processed_record(1, 1, 8)[:-1], 200)


@case("parse_chunk/element-size-mismatch/3-by-2")
def _():
    return _parsed(b"\x00\x00\x00", 2)


@case("parse_chunk/element-size-mismatch/shorter-than-element")
def _():
    return _parsed(b"\x00" * 5, 16)


@case("parse_chunk/element-size-mismatch/float")
def _():
    return _parsed(b"\x00" * 5, 2.0)


@case("parse_chunk/unknown-record-type/0")
def _():
    return _parsed(b"\x00" * 12, 2)


@case("parse_chunk/unknown-record-type/50")
def _():
    return _parsed(preamble(1, 50, 16) + b"\x00" * 4, 16)


@case("parse_chunk/unknown-record-type/element-larger-than-content-is-fine")
def _():
    # 0 elements of size 24 do not cover the 12 bytes
    return _parsed(preamble(1, 50, 16), 24)


@case("parse_chunk/empty-content")
def _():
    return _parsed(b"", 16)


@case("parse_chunk/short-content")
def _():
    return _parsed(b"\x00" * 6, 3)


@case("parse_chunk/zero-element-size")
def _():
    return _parsed(processed_record(1, 1, 8), 0)


@case("parse_chunk/negative-element-size")
def _():
    return _parsed(processed_record(1, 1, 8), -200)


@case("parse_chunk/float-element-size")
def _():
    return _parsed(processed_record(1, 1, 8), 200.0)


@case("parse_chunk/none-element-size")
def _():
    return _parsed(processed_record(1, 1, 8), None)


@case("parse_chunk/str-content")
def _():
    return _parsed("abcdabcdabcdabcd", 16)


@case("parse_chunk/bytearray-content")
def _():
    return _parsed(bytearray(processed_record(1, 1, 8) + processed_record(2, 5, 8)), 200)


@case("parse_chunk/memoryview-content")
def _():
    return _parsed(memoryview(processed_record(1, 1, 8) + processed_record(2, 5, 8)), 200)


@case("parse_chunk/truncated-second-record")
def _():
    # sizes agree, but the second record advertises more than there is
    content = processed_record(1, 1, 8) + processed_record(2, 2, 8, length=400)
    return _parsed(content, 200)


_dummy_record_types = {
    10: Struct("preamble" / record_preamble, "a" / Int8ub, "b" / Int8ub, "c" / Int16ub),
    11: Struct("preamble" / record_preamble, "x" / Int8ub, "y" / Int8ub),
    12: None,
}


def _with_record_types(mapping, thunk):
    original = sio.record_types
    sio.record_types = mapping
    try:
        return thunk()
    finally:
        sio.record_types = original


@case("parse_chunk/replaced-table/10")
def _():
    content = (
        b"\x00\x00\x00\x01\x00\x0A\x00\x00\x00\x00\x00\x10\x02\x03\x00\x1F"
        + b"\x00\x00\x00\x02\x00\x0A\x00\x00\x00\x00\x00\x10\x04\x05\x00\x2F"
    )
    return _with_record_types(_dummy_record_types, lambda: _parsed(content, 16))


@case("parse_chunk/replaced-table/11")
def _():
    content = (
        b"\x00\x00\x00\x01\x00\x0B\x00\x00\x00\x00\x00\x0E\x03\x04"
        + b"\x00\x00\x00\x02\x00\x0B\x00\x00\x00\x00\x00\x0E\x04\x05"
    )
    return _with_record_types(_dummy_record_types, lambda: _parsed(content, 14))


@case("parse_chunk/replaced-table/entry-is-None")
def _():
    content = b"\x00\x00\x00\x01\x00\x0C\x00\x00\x00\x00\x00\x0E\x03\x04"
    return _with_record_types(_dummy_record_types, lambda: _parsed(content, 14))


@case("parse_chunk/replaced-table/empty")
def _():
    return _with_record_types({}, lambda: _parsed(processed_record(1, 1, 8), 200))


# --------------------------------------------------------------------------
# adjust_offsets
# --------------------------------------------------------------------------
def _ns(record_start, start, stop, **extra):
    return types.SimpleNamespace(
        record_start=record_start, data=types.SimpleNamespace(start=start, stop=stop), **extra
    )


def _adjusted(records, offset):
    before = [id(r) for r in records]
    result = sio.adjust_offsets(records, offset)
    return {
        "type": type(result).__name__,
        "same objects": [id(r) for r in result] == before,
        "result": result,
        "input afterwards": list(records),
    }


@case("adjust_offsets/two")
def _():
    return _adjusted([_ns(1, 4, 6), _ns(6, 9, 11)], 12)


@case("adjust_offsets/three")
def _():
    return _adjusted([_ns(3, 5, 9), _ns(9, 11, 15), _ns(15, 17, 21)], 3)


@case("adjust_offsets/empty")
def _():
    return _adjusted([], 3)


@case("adjust_offsets/zero-and-negative")
def _():
    return [_adjusted([_ns(3, 5, 9)], 0), _adjusted([_ns(30, 50, 90)], -7)]


@case("adjust_offsets/tuple-input")
def _():
    return _adjusted((_ns(3, 5, 9, other="x"), _ns(4, 6, 10)), 720)


@case("adjust_offsets/generator-input")
def _():
    records = [_ns(3, 5, 9), _ns(4, 6, 10)]
    result = sio.adjust_offsets((r for r in records), 5)
    return [type(result).__name__, result, records]


@case("adjust_offsets/float-offset")
def _():
    return _adjusted([_ns(3, 5, 9)], 1.5)


@case("adjust_offsets/shared-record-is-adjusted-twice")
def _():
    record = _ns(1, 2, 3)
    return _adjusted([record, record], 10)


@case("adjust_offsets/list-valued-fields-are-extended-in-place")
def _():
    record = _ns([1], [2], [3])
    alias = record.record_start
    result = sio.adjust_offsets([record], [9])
    return [result, alias]


@case("adjust_offsets/failure-in-the-middle")
def _():
    records = [_ns(1, 2, 3), types.SimpleNamespace(record_start=5, data=None), _ns(7, 8, 9)]
    try:
        sio.adjust_offsets(records, 10)
    except AttributeError as e:
        return [str(e), records]
    return "no error"


@case("adjust_offsets/missing-stop")
def _():
    records = [types.SimpleNamespace(record_start=5, data=types.SimpleNamespace(start=1))]
    try:
        sio.adjust_offsets(records, 10)
    except AttributeError as e:
        return [str(e), records]
    return "no error"


@case("adjust_offsets/containers")
def _():
    records = sio.parse_chunk(processed_record(1, 1, 8) + processed_record(2, 5, 8), 200)
    result = sio.adjust_offsets(records, 720)
    return [type(result).__name__, to_dict(result), [type(r).__name__ for r in result]]


@case("adjust_offsets/str-offset")
def _():
    return _adjusted([_ns(3, 5, 9)], "1")


# --------------------------------------------------------------------------
# read_metadata
# --------------------------------------------------------------------------
def _read(content, *args, coerce=False, **kwargs):
    f = LoggingFile(content, coerce=coerce)
    try:
        header, metadata = sio.read_metadata(f, *args, **kwargs)
    except Exception as e:  # noqa: BLE001
        return {"error": "{}: {}".format(type(e).__name__, e), "requests": f.log}
    return {
        "types": [type(header).__name__, type(metadata).__name__],
        "header": header,
        "metadata": metadata,
        "requests": f.log,
    }


_processed_7 = image_file("processed", 7, 8)
_signal_4 = image_file("signal", 4, 16, type_code="C*8", n_pixels=2)

for _rpc in (1, 2, 3, 4, 6, 7, 8, 1024, 2.0, 3.5, 7.0, True):

    @case(f"read_metadata/processed-7/rpc={_rpc!r}")
    def _(rpc=_rpc):
        return _read(_processed_7, rpc)

    @case(f"read_metadata/processed-7/kw-rpc={_rpc!r}")
    def _(rpc=_rpc):
        return _read(_processed_7, records_per_chunk=rpc)


for _rpc in (2.0, 3.5, 7.0, 0.5, 0.1, 1e-3, -2.5, float("inf")):

    @case(f"read_metadata/processed-7/lenient-file/rpc={_rpc!r}")
    def _(rpc=_rpc):
        return _read(_processed_7, rpc, coerce=True)


for _rpc in (1, 3, 4, 5):

    @case(f"read_metadata/signal-4/rpc={_rpc!r}")
    def _(rpc=_rpc):
        return _read(_signal_4, rpc)


@case("read_metadata/default-rpc")
def _():
    return _read(_processed_7)


@case("read_metadata/default-rpc/more-than-one-chunk")
def _():
    result = _read(image_file("processed", 1030, 2))
    return [result["requests"], result["metadata"][1023:1026], len(result["metadata"])]


for _rpc in (0, -1, -2, -7, -8, None, "auto", "2", 0.0, -2.5, float("inf"), float("nan")):

    @case(f"read_metadata/processed-7/odd-rpc={_rpc!r}")
    def _(rpc=_rpc):
        return _read(_processed_7, rpc)


@case("read_metadata/no-records")
def _():
    return [_read(file_descriptor(0, 200), rpc) for rpc in (1, 2, 1024)]


@case("read_metadata/blank-counts")
def _():
    # blank fields are decoded as -1
    content = file_descriptor("", "") + processed_record(1, 1, 8)
    return [_read(content, rpc) for rpc in (1, 2, 1024)]


@case("read_metadata/blank-record-length")
def _():
    content = file_descriptor(2, "") + processed_record(1, 1, 8)
    return [_read(content, rpc) for rpc in (1, 2, 1024)]


@case("read_metadata/fewer-records-than-advertised")
def _():
    content = file_descriptor(5, 200) + b"".join(processed_record(i, i, 8) for i in range(1, 4))
    return [_read(content, rpc) for rpc in (1, 2, 3, 4, 5, 1024)]


@case("read_metadata/more-records-than-advertised")
def _():
    content = file_descriptor(2, 200) + b"".join(processed_record(i, i, 8) for i in range(1, 6))
    return [_read(content, rpc) for rpc in (1, 2, 3)]


@case("read_metadata/wrong-record-length")
def _():
    content = file_descriptor(3, 150) + b"".join(processed_record(i, i, 8) for i in range(1, 4))
    return [_read(content, rpc) for rpc in (1, 2, 4)]


@case("read_metadata/unknown-record-type-in-second-chunk")
def _():
    content = (
        file_descriptor(3, 200)
        + processed_record(1, 1, 8)
        + preamble(2, 50, 200)
        + b"\x00" * 188
        + processed_record(3, 3, 8)
    )
    return [_read(content, rpc) for rpc in (1, 2, 3)]


@case("read_metadata/mixed-record-types")
def _():
    content = file_descriptor(2, 560) + signal_record(1, 1, 16) + processed_record(2, 2, 368)
    return [_read(content, rpc) for rpc in (1, 2)]


@case("read_metadata/truncated-descriptor")
def _():
    return [_read(file_descriptor(1, 200)[:size]) for size in (0, 100, 719)]


@case("read_metadata/memory-filesystem")
def _():
    fs = fsspec.filesystem("memory")
    fs.pipe_file("/eq1/IMG-HH", _processed_7)
    with fs.open("/eq1/IMG-HH", mode="rb") as f:
        header, metadata = sio.read_metadata(f, 3)
        position = f.tell()
    return [header, metadata, position]


def _patched(header, record_types, content, rpc):
    """the way the test-suite drives read_metadata: replaced descriptor reader and table"""
    calls = []

    def read_file_descriptor(f):
        calls.append("read_file_descriptor")
        f.read(2)
        return copy.deepcopy(header)

    originals = (sio.read_file_descriptor, sio.record_types)
    sio.read_file_descriptor = read_file_descriptor
    sio.record_types = record_types
    try:
        result = _read(content, rpc)
    finally:
        sio.read_file_descriptor, sio.record_types = originals
    result["calls"] = calls
    return result


_small_types = {
    11: Struct(
        "preamble" / record_preamble,
        "record_start" / Tell,
        "a" / Int8ub,
        "data" / Struct("start" / Tell, "stop" / Seek(this.start + 4)),
    ),
}
_small_content = (
    b"\x03\x0E"
    + b"\x00\x00\x00\x01\x00\x0B\x00\x00\x00\x00\x00\x11\x03\x00\x00\x00\x00"
    + b"\x00\x00\x00\x02\x00\x0B\x00\x00\x00\x00\x00\x11\x04\x00\x00\x00\x00"
    + b"\x00\x00\x00\x03\x00\x0B\x00\x00\x00\x00\x00\x11\x05\x00\x00\x00\x00"
)

for _rpc in (1, 2, 3, 5):

    @case(f"read_metadata/replaced-parts/rpc={_rpc}")
    def _(rpc=_rpc):
        header = {"number_of_sar_data_records": 3, "sar_data_record_length": 17}
        return _patched(header, _small_types, _small_content, rpc)


@case("read_metadata/replaced-parts/record-length-None")
def _():
    return [
        _patched(
            {"number_of_sar_data_records": n, "sar_data_record_length": None},
            _small_types,
            _small_content,
            2,
        )
        for n in (0, 3)
    ]


@case("read_metadata/replaced-parts/record-length-float")
def _():
    header = {"number_of_sar_data_records": 3, "sar_data_record_length": 17.0}
    return _patched(header, _small_types, _small_content, 2)


@case("read_metadata/replaced-parts/float-count")
def _():
    header = {"number_of_sar_data_records": 3.0, "sar_data_record_length": 17}
    return _patched(header, _small_types, _small_content, 2)


@case("read_metadata/replaced-parts/missing-keys")
def _():
    return [
        _patched({"sar_data_record_length": 17}, _small_types, _small_content, 2),
        _patched({"number_of_sar_data_records": 3}, _small_types, _small_content, 2),
        _patched({}, _small_types, _small_content, 2),
    ]


@case("read_metadata/replaced-parts/key-order")
def _():
    # which key is looked up first is visible through the error
    class Header(dict):
        def __getitem__(self, key):
            raise KeyError("looked up " + key)

    return _patched(Header(), _small_types, _small_content, 2)


@case("read_metadata/replaced-helpers-are-looked-up-at-call-time")
def _():
    seen = []
    originals = (sio.parse_chunk, sio.adjust_offsets)

    def parse_chunk(content, element_size):
        seen.append(("parse_chunk", len(content), element_size))
        return originals[0](content, element_size)

    def adjust_offsets(records, offset):
        seen.append(("adjust_offsets", len(records), offset))
        return originals[1](records, offset)

    sio.parse_chunk, sio.adjust_offsets = parse_chunk, adjust_offsets
    try:
        result = _read(_processed_7, 3)
    finally:
        sio.parse_chunk, sio.adjust_offsets = originals
    return [seen, result["requests"], [m["record_start"] for m in result["metadata"]]]


# --------------------------------------------------------------------------
# recorded from the unchanged code (git HEAD) with `python equiv.py --record`
# --------------------------------------------------------------------------
EXPECTED = \
{'parse_chunk/processed/1': 'sha256:e7e9a382cec4eebdac240b268b7c712290c68bc23088c7c5a16e76b35abf35ac '
                            '(len 2925)',
 'parse_chunk/signal/1': 'sha256:a8e61f8c725046a21c017b296552b76a01488d0f9f4d7503c8ae420f409d6c7c '
                         '(len 3906)',
 'parse_chunk/processed/2': 'sha256:bbffa6d5da82c55a00bda7c4b3204fffe6f3d2620db7b185cb411da212225abf '
                            '(len 5821)',
 'parse_chunk/signal/2': 'sha256:88b948cf5884eb7da1185718486a60b292812cace0d02e70af064433b5c88911 '
                         '(len 7785)',
 'parse_chunk/processed/3': 'sha256:66d1283436654fb8582451ae88acab6ddaa330080161117ea7fe301442e5e4da '
                            '(len 8717)',
 'parse_chunk/signal/3': 'sha256:756ce64e6fdd8068087d6b4b007fdc3cff0f456c03ea1fe1cb9bffb8ea2c3835 '
                         '(len 11665)',
 'parse_chunk/processed/5': 'sha256:43724a6072348aabc7db13647082e625828768b2b7dfac46ddd552036cb0dd61 '
                            '(len 14534)',
 'parse_chunk/signal/5': 'sha256:6b523d7e9be30b02e8817b45b72c454ec54c35bec382f4df07de4c72a2f5ff68 '
                         '(len 19455)',
 'parse_chunk/empty-data-part': 'sha256:e1c5abae4daa770a8abe0ddfc85e7574997c570c50c34a5a108dfb9cb095822a '
                                '(len 5832)',
 'parse_chunk/record_length-shorter-than-element': 'sha256:3c6fa9b2d113e2e9f09916696d1e17f210c379c13243c15df26571f3cbbc11ab '
                                                   '(len 5863)',
 'parse_chunk/element-size-mismatch/too-long': 'raised ValueError: sizes mismatch: chunksize is '
                                               '200 but got 201 bytes',
 'parse_chunk/element-size-mismatch/too-short': 'raised ValueError: sizes mismatch: chunksize is 0 '
                                                'but got 199 bytes',
 'parse_chunk/element-size-mismatch/3-by-2': 'raised ValueError: sizes mismatch: chunksize is 2 '
                                             'but got 3 bytes',
 'parse_chunk/element-size-mismatch/shorter-than-element': 'raised ValueError: sizes mismatch: '
                                                           'chunksize is 0 but got 5 bytes',
 'parse_chunk/element-size-mismatch/float': 'raised ValueError: sizes mismatch: chunksize is 4.0 '
                                            'but got 5 bytes',
 'parse_chunk/unknown-record-type/0': 'raised ValueError: unknown record type code: 0',
 'parse_chunk/unknown-record-type/50': 'raised ValueError: unknown record type code: 50',
 'parse_chunk/unknown-record-type/element-larger-than-content-is-fine': 'raised ValueError: sizes '
                                                                        'mismatch: chunksize is 0 '
                                                                        'but got 12 bytes',
 'parse_chunk/empty-content': 'raised StreamError: Error in path (parsing) -> '
                              'record_sequence_number\n'
                              'stream read less than specified amount, expected 4, found 0',
 'parse_chunk/short-content': 'raised StreamError: Error in path (parsing) -> '
                              'second_record_subtype\n'
                              'stream read less than specified amount, expected 1, found 0',
 'parse_chunk/zero-element-size': 'raised ZeroDivisionError: integer division or modulo by zero',
 'parse_chunk/negative-element-size': 'raised RangeError: Error in path (parsing)\n'
                                      'invalid count -1',
 'parse_chunk/float-element-size': 'raised ConstructError: subcon[N] syntax expects integer or '
                                   'context lambda',
 'parse_chunk/none-element-size': "raised TypeError: unsupported operand type(s) for //: 'int' and "
                                  "'NoneType'",
 'parse_chunk/str-content': "raised TypeError: a bytes-like object is required, not 'str'",
 'parse_chunk/bytearray-content': 'sha256:25752ad30bf0bf4e419a5dd0f7909ce34cd37256c32fcd48970592faca12ee36 '
                                  '(len 5819)',
 'parse_chunk/memoryview-content': 'sha256:25752ad30bf0bf4e419a5dd0f7909ce34cd37256c32fcd48970592faca12ee36 '
                                   '(len 5819)',
 'parse_chunk/truncated-second-record': 'sha256:c4f521f6b6ad243431ae2758483ce51280e8f0c2a96a5a33117e8b862a63b24f '
                                        '(len 5834)',
 'parse_chunk/replaced-table/10': 'sha256:288028637487213f7830c663e730c0efd4b2781578fd0af46e296b933f8d5255 '
                                  '(len 583)',
 'parse_chunk/replaced-table/11': 'sha256:b059b20892f5d5bed8cd77b2faeed4e1da28d1f4e45b27f5ab3e0f1610a90812 '
                                  '(len 549)',
 'parse_chunk/replaced-table/entry-is-None': 'raised ValueError: unknown record type code: 12',
 'parse_chunk/replaced-table/empty': 'raised ValueError: unknown record type code: 11',
 'adjust_offsets/two': 'sha256:2932ab3c7b325ecc8580e4bae526546e766f2ae75af72a8899ba3498bee5d97d '
                       '(len 626)',
 'adjust_offsets/three': 'sha256:affc2cce60757a3ed65e84b157edd67c41a8f635129491ccc69a4fc6243387d0 '
                         '(len 876)',
 'adjust_offsets/empty': "returned dict{str:'type': str:'list', str:'same objects': bool:True, "
                         "str:'result': list[], str:'input afterwards': list[]}",
 'adjust_offsets/zero-and-negative': 'sha256:f761304fb869a2955f91739ec2f2f43c794e98656b9edc7aa57dc0a8dd1d116d '
                                     '(len 737)',
 'adjust_offsets/tuple-input': 'sha256:8bf9d8333f65732203f5e912be163a5805e5839618f9316c2c60454da4760a0b '
                               '(len 682)',
 'adjust_offsets/generator-input': 'sha256:f29789b05282fdc5b47b8045465d8e6f8ca577679be6b39161dffb9d0d80f8cb '
                                   '(len 541)',
 'adjust_offsets/float-offset': 'sha256:99096644bb390063d97270ee2eb2dec6e9237ba13b78b2dd9bd1948b04c37498 '
                                '(len 392)',
 'adjust_offsets/shared-record-is-adjusted-twice': 'sha256:4f3a5e6bfa1dc27f6f83442abeb2635bd50b2590983efa598a7dbf941beafcd8 '
                                                   '(len 626)',
 'adjust_offsets/list-valued-fields-are-extended-in-place': 'sha256:f61428410577ddd811cf5af8e8f6cfc05e46160828ca1c5188de31d778b21efe '
                                                            '(len 202)',
 'adjust_offsets/failure-in-the-middle': 'sha256:9ddc9d920484bacb2652f6dcbf67fd1dd2ab42792828ab7e47573931fca027e3 '
                                         '(len 398)',
 'adjust_offsets/missing-stop': 'returned list[str:"\'types.SimpleNamespace\' object has no '
                                'attribute \'stop\'", '
                                "list[SimpleNamespace<dict{str:'record_start': int:15, str:'data': "
                                "SimpleNamespace<dict{str:'start': int:11}>}>]]",
 'adjust_offsets/containers': 'sha256:35f6b98f18cef12c8f02c2ae5c0f1429b7d651887b8a75d04099e72f82480851 '
                              '(len 5863)',
 'adjust_offsets/str-offset': "raised TypeError: unsupported operand type(s) for +=: 'int' and "
                              "'str'",
 'read_metadata/processed-7/rpc=1': 'sha256:88b000857174e5a11da81cd33018ef36b3427d6e2b6bf08f552ca7babb672001 '
                                    '(len 23876)',
 'read_metadata/processed-7/kw-rpc=1': 'sha256:88b000857174e5a11da81cd33018ef36b3427d6e2b6bf08f552ca7babb672001 '
                                       '(len 23876)',
 'read_metadata/processed-7/rpc=2': 'sha256:90f35e626e3a3773a909c6550ac95b91eeca64d44c40509eafc0e1ad385cccb8 '
                                    '(len 23763)',
 'read_metadata/processed-7/kw-rpc=2': 'sha256:90f35e626e3a3773a909c6550ac95b91eeca64d44c40509eafc0e1ad385cccb8 '
                                       '(len 23763)',
 'read_metadata/processed-7/rpc=3': 'sha256:c3ff347b170a435e6d9afd64304747d491d13f6f77db8d111836726177540073 '
                                    '(len 23725)',
 'read_metadata/processed-7/kw-rpc=3': 'sha256:c3ff347b170a435e6d9afd64304747d491d13f6f77db8d111836726177540073 '
                                       '(len 23725)',
 'read_metadata/processed-7/rpc=4': 'sha256:1cf67423f7d6846df1586f59b0e31879bafe020e681b72cd21e399aadcba919e '
                                    '(len 23687)',
 'read_metadata/processed-7/kw-rpc=4': 'sha256:1cf67423f7d6846df1586f59b0e31879bafe020e681b72cd21e399aadcba919e '
                                       '(len 23687)',
 'read_metadata/processed-7/rpc=6': 'sha256:49f45fc1d45fe88843d6c11afd0ad2df45354f7514d5e4f950cf18db824dfe10 '
                                    '(len 23688)',
 'read_metadata/processed-7/kw-rpc=6': 'sha256:49f45fc1d45fe88843d6c11afd0ad2df45354f7514d5e4f950cf18db824dfe10 '
                                       '(len 23688)',
 'read_metadata/processed-7/rpc=7': 'sha256:7ae1ef173ec6260ce01710e3a70e0c8f4f970841f20d70039552c9bc115cd33a '
                                    '(len 23650)',
 'read_metadata/processed-7/kw-rpc=7': 'sha256:7ae1ef173ec6260ce01710e3a70e0c8f4f970841f20d70039552c9bc115cd33a '
                                       '(len 23650)',
 'read_metadata/processed-7/rpc=8': 'sha256:7ae1ef173ec6260ce01710e3a70e0c8f4f970841f20d70039552c9bc115cd33a '
                                    '(len 23650)',
 'read_metadata/processed-7/kw-rpc=8': 'sha256:7ae1ef173ec6260ce01710e3a70e0c8f4f970841f20d70039552c9bc115cd33a '
                                       '(len 23650)',
 'read_metadata/processed-7/rpc=1024': 'sha256:7ae1ef173ec6260ce01710e3a70e0c8f4f970841f20d70039552c9bc115cd33a '
                                       '(len 23650)',
 'read_metadata/processed-7/kw-rpc=1024': 'sha256:7ae1ef173ec6260ce01710e3a70e0c8f4f970841f20d70039552c9bc115cd33a '
                                          '(len 23650)',
 'read_metadata/processed-7/rpc=2.0': 'returned dict{str:\'error\': str:"TypeError: argument '
                                      'should be integer or None, not \'float\'", '
                                      "str:'requests': list[tuple[str:'read', int:720, int:0], "
                                      "tuple[str:'read', float:400.0, int:720]]}",
 'read_metadata/processed-7/kw-rpc=2.0': 'returned dict{str:\'error\': str:"TypeError: argument '
                                         'should be integer or None, not \'float\'", '
                                         "str:'requests': list[tuple[str:'read', int:720, int:0], "
                                         "tuple[str:'read', float:400.0, int:720]]}",
 'read_metadata/processed-7/rpc=3.5': 'returned dict{str:\'error\': str:"TypeError: argument '
                                      'should be integer or None, not \'float\'", '
                                      "str:'requests': list[tuple[str:'read', int:720, int:0], "
                                      "tuple[str:'read', float:700.0, int:720]]}",
 'read_metadata/processed-7/kw-rpc=3.5': 'returned dict{str:\'error\': str:"TypeError: argument '
                                         'should be integer or None, not \'float\'", '
                                         "str:'requests': list[tuple[str:'read', int:720, int:0], "
                                         "tuple[str:'read', float:700.0, int:720]]}",
 'read_metadata/processed-7/rpc=7.0': 'returned dict{str:\'error\': str:"TypeError: argument '
                                      'should be integer or None, not \'float\'", '
                                      "str:'requests': list[tuple[str:'read', int:720, int:0], "
                                      "tuple[str:'read', float:1400.0, int:720]]}",
 'read_metadata/processed-7/kw-rpc=7.0': 'returned dict{str:\'error\': str:"TypeError: argument '
                                         'should be integer or None, not \'float\'", '
                                         "str:'requests': list[tuple[str:'read', int:720, int:0], "
                                         "tuple[str:'read', float:1400.0, int:720]]}",
 'read_metadata/processed-7/rpc=True': 'sha256:88b000857174e5a11da81cd33018ef36b3427d6e2b6bf08f552ca7babb672001 '
                                       '(len 23876)',
 'read_metadata/processed-7/kw-rpc=True': 'sha256:88b000857174e5a11da81cd33018ef36b3427d6e2b6bf08f552ca7babb672001 '
                                          '(len 23876)',
 'read_metadata/processed-7/lenient-file/rpc=2.0': 'sha256:c967a5a84495b7013992cb7ecb93f2c0a1bf586eec5594d2b4cddf5bd86ec4d4 '
                                                   '(len 23839)',
 'read_metadata/processed-7/lenient-file/rpc=3.5': "returned dict{str:'error': str:'ValueError: "
                                                   'sizes mismatch: chunksize is 600 but got 700 '
                                                   "bytes', str:'requests': list[tuple[str:'read', "
                                                   "int:720, int:0], tuple[str:'read', "
                                                   'float:700.0, int:720]]}',
 'read_metadata/processed-7/lenient-file/rpc=7.0': 'sha256:4301a40b3e292599d0a379cf6f288e75dd76abae04d77854bae0f560f77a9c8b '
                                                   '(len 23654)',
 'read_metadata/processed-7/lenient-file/rpc=0.5': "returned dict{str:'error': str:'ValueError: "
                                                   'sizes mismatch: chunksize is 0 but got 100 '
                                                   "bytes', str:'requests': list[tuple[str:'read', "
                                                   "int:720, int:0], tuple[str:'read', "
                                                   'float:100.0, int:720]]}',
 'read_metadata/processed-7/lenient-file/rpc=0.1': "returned dict{str:'error': str:'ValueError: "
                                                   'sizes mismatch: chunksize is 0 but got 20 '
                                                   "bytes', str:'requests': list[tuple[str:'read', "
                                                   "int:720, int:0], tuple[str:'read', float:20.0, "
                                                   'int:720]]}',
 'read_metadata/processed-7/lenient-file/rpc=0.001': 'sha256:bd6e02e6fa430451f4df275586a3fed381d346dc372f32490c0f6597a7a9f34e '
                                                     '(len 253)',
 'read_metadata/processed-7/lenient-file/rpc=-2.5': 'sha256:ee5c3d7a5a0668d53a6f02e8ed913331949fd54f3f422585fd17fa36f38bcd83 '
                                                    '(len 3297)',
 'read_metadata/processed-7/lenient-file/rpc=inf': 'sha256:ee5c3d7a5a0668d53a6f02e8ed913331949fd54f3f422585fd17fa36f38bcd83 '
                                                   '(len 3297)',
 'read_metadata/signal-4/rpc=1': 'sha256:1dfdf45dbcfa1b715aac201453b1e650f42d2dbfbf90efba9d17753d0c5380b3 '
                                 '(len 18980)',
 'read_metadata/signal-4/rpc=3': 'sha256:04c6af35b421df06025cf3df1935d0271fd4ec5ad41ac2a7da64fe884540cc65 '
                                 '(len 18905)',
 'read_metadata/signal-4/rpc=4': 'sha256:dc32f50dea675c23eaf248181a812d339307abd55b77b886862b3f2669f7b1b6 '
                                 '(len 18867)',
 'read_metadata/signal-4/rpc=5': 'sha256:dc32f50dea675c23eaf248181a812d339307abd55b77b886862b3f2669f7b1b6 '
                                 '(len 18867)',
 'read_metadata/default-rpc': 'sha256:7ae1ef173ec6260ce01710e3a70e0c8f4f970841f20d70039552c9bc115cd33a '
                              '(len 23650)',
 'read_metadata/default-rpc/more-than-one-chunk': 'sha256:ec62a19ad5139bccc09775ec9da9ed4c9f6cee11931cc0875ebe8bb7c83fc5f3 '
                                                  '(len 8881)',
 'read_metadata/processed-7/odd-rpc=0': "returned dict{str:'error': str:'ZeroDivisionError: "
                                        "division by zero', str:'requests': list[tuple[str:'read', "
                                        'int:720, int:0]]}',
 'read_metadata/processed-7/odd-rpc=-1': 'sha256:ee5c3d7a5a0668d53a6f02e8ed913331949fd54f3f422585fd17fa36f38bcd83 '
                                         '(len 3297)',
 'read_metadata/processed-7/odd-rpc=-2': 'sha256:ee5c3d7a5a0668d53a6f02e8ed913331949fd54f3f422585fd17fa36f38bcd83 '
                                         '(len 3297)',
 'read_metadata/processed-7/odd-rpc=-7': 'sha256:ee5c3d7a5a0668d53a6f02e8ed913331949fd54f3f422585fd17fa36f38bcd83 '
                                         '(len 3297)',
 'read_metadata/processed-7/odd-rpc=-8': 'sha256:ee5c3d7a5a0668d53a6f02e8ed913331949fd54f3f422585fd17fa36f38bcd83 '
                                         '(len 3297)',
 'read_metadata/processed-7/odd-rpc=None': 'returned dict{str:\'error\': str:"TypeError: '
                                           "unsupported operand type(s) for /: 'int' and "
                                           '\'NoneType\'", str:\'requests\': '
                                           "list[tuple[str:'read', int:720, int:0]]}",
 "read_metadata/processed-7/odd-rpc='auto'": 'returned dict{str:\'error\': str:"TypeError: '
                                             "unsupported operand type(s) for /: 'int' and "
                                             '\'str\'", str:\'requests\': list[tuple[str:\'read\', '
                                             'int:720, int:0]]}',
 "read_metadata/processed-7/odd-rpc='2'": 'returned dict{str:\'error\': str:"TypeError: '
                                          "unsupported operand type(s) for /: 'int' and "
                                          '\'str\'", str:\'requests\': list[tuple[str:\'read\', '
                                          'int:720, int:0]]}',
 'read_metadata/processed-7/odd-rpc=0.0': "returned dict{str:'error': str:'ZeroDivisionError: "
                                          "float division by zero', str:'requests': "
                                          "list[tuple[str:'read', int:720, int:0]]}",
 'read_metadata/processed-7/odd-rpc=-2.5': 'sha256:ee5c3d7a5a0668d53a6f02e8ed913331949fd54f3f422585fd17fa36f38bcd83 '
                                           '(len 3297)',
 'read_metadata/processed-7/odd-rpc=inf': 'sha256:ee5c3d7a5a0668d53a6f02e8ed913331949fd54f3f422585fd17fa36f38bcd83 '
                                          '(len 3297)',
 'read_metadata/processed-7/odd-rpc=nan': "returned dict{str:'error': str:'ValueError: cannot "
                                          "convert float NaN to integer', str:'requests': "
                                          "list[tuple[str:'read', int:720, int:0]]}",
 'read_metadata/no-records': 'sha256:66819dfebe3c0039a8bbd2958ef6777c7c2dc8a62dcffeb9b1af3a9519b9b420 '
                             '(len 9883)',
 'read_metadata/blank-counts': 'sha256:08dfa80480cda306d1d5dff76538ffd4dd8c7ba5257af8c3727b6d7e35b39b41 '
                               '(len 9886)',
 'read_metadata/blank-record-length': 'sha256:5c7e422dea530c97660c397f6dcc2e593ecbb405ed828f47d52f3b235e56fad2 '
                                      '(len 538)',
 'read_metadata/fewer-records-than-advertised': 'sha256:162810bee37dbe05a4ebb615caf8e02b3c8c360946a0e276623a3c9fc2331313 '
                                                '(len 25330)',
 'read_metadata/more-records-than-advertised': 'sha256:cb858db09bd2c68d7c574b06afd53d29fe42bf399062996aa6eaa986d8bb408e '
                                               '(len 27440)',
 'read_metadata/wrong-record-length': 'sha256:9d76f049a1b29a6504a9844181e0a9bd1d562abe6ff2cd672c4728a6b66cff25 '
                                      '(len 739)',
 'read_metadata/unknown-record-type-in-second-chunk': 'sha256:399c20ec4247e1bfef3a786de4fdf9fbe90de19ae5b6b035bfb90792059279b1 '
                                                      '(len 521)',
 'read_metadata/mixed-record-types': 'sha256:5f5d6e9111e48f20514a69298387ff1bdfdd3e71c0dee986db60a6eed5e3127a '
                                     '(len 22106)',
 'read_metadata/truncated-descriptor': 'sha256:615d93e124e4c1f2273db0978fc27c7ae19fe8d75febbdb3dae58762b1c9fbb9 '
                                       '(len 668)',
 'read_metadata/memory-filesystem': 'sha256:3b0d4d36cbfc09622ea4a42225a9d04b7e779cfb05b354d683919042f9913a33 '
                                    '(len 23492)',
 'read_metadata/replaced-parts/rpc=1': 'sha256:7a77ada460664733c8234dc18eb84135be9c179eca8a53ba528c5147cd327294 '
                                       '(len 1382)',
 'read_metadata/replaced-parts/rpc=2': 'sha256:055aaff738ace133d3b87244d61aa05f18e28c45f6804a03a88896c41df84868 '
                                       '(len 1347)',
 'read_metadata/replaced-parts/rpc=3': 'sha256:7519142bdb5779954f1ad69805d169dad5286a6c15e30c52006969d37fcd9633 '
                                       '(len 1312)',
 'read_metadata/replaced-parts/rpc=5': 'sha256:7519142bdb5779954f1ad69805d169dad5286a6c15e30c52006969d37fcd9633 '
                                       '(len 1312)',
 'read_metadata/replaced-parts/record-length-None': 'sha256:94a7dcfd78b3f190570c9f225d69f7db3b58ae2d3a93dae6a59b5d85e7497b26 '
                                                    '(len 403)',
 'read_metadata/replaced-parts/record-length-float': 'sha256:793311db68d053f8ec181dd9e6f6afe9810d7c50a10ffcee70046c8247de4ba8 '
                                                     '(len 232)',
 'read_metadata/replaced-parts/float-count': 'sha256:e852f31f00d5920bb62e19d4fddd58002ded7fff37a664cecc1eec727223fa88 '
                                             '(len 267)',
 'read_metadata/replaced-parts/missing-keys': 'sha256:9f28ad1201eeff1ba8176e58ccb5a4bdae11cadf938e6ec1cac74299c16954cf '
                                              '(len 510)',
 'read_metadata/replaced-parts/key-order': 'returned dict{str:\'error\': str:"KeyError: \'looked '
                                           'up number_of_sar_data_records\'", str:\'requests\': '
                                           "list[tuple[str:'read', int:2, int:0]], str:'calls': "
                                           "list[str:'read_file_descriptor']}",
 'read_metadata/replaced-helpers-are-looked-up-at-call-time': 'sha256:eb143fa83e989c2e76644cdc217ecd879062f4041157aecfd5410929d713b2d9 '
                                                              '(len 516)'}

if __name__ == "__main__":
    sys.exit(main(EXPECTED))
