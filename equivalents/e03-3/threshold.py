"""one-off measurement: largest JSON nesting depth that caching.decode accepts"""
from ceos_alos2.sar_image import caching


def ok(depth, opener, closer):
    try:
        caching.decode('{"a": ' + opener * depth + "1" * (closer == "}") + closer * depth + "}", 2)
    except RecursionError:
        return False
    return True


def threshold(opener, closer):
    lo, hi = 1, 400000
    while lo < hi:
        mid = (lo + hi + 1) // 2
        if ok(mid, opener, closer):
            lo = mid
        else:
            hi = mid - 1
    return lo


print("lists  :", threshold("[", "]"))
print("objects:", threshold('{"k": ', "}"))
