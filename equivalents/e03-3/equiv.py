"""Equivalence check for refactoring 3 (caching/__init__.py, caching/path.py).

Run from the repository root:

    PYTHONPATH=. python _eq/3/equiv.py          # check against the recorded values
    PYTHONPATH=. python _eq/3/equiv.py --print  # print the observed values

The EXPECTED table was recorded with the unchanged code (clean HEAD); the
script has to pass both with and without patch.diff applied.

The local cache root is redirected to a temporary directory (the same way the
test suite does it: by rebinding ``caching.path.cache_root``), remote caches
live in fsspec's in-memory file system.
"""

import json
import pathlib
import shutil
import sys
import tempfile
import warnings

import fsspec
import numpy as np

from ceos_alos2.array import Array
from ceos_alos2.hierarchy import Group, Variable
from ceos_alos2.sar_image import caching


def describe(obj):
    if isinstance(obj, Group):
        return {
            "Group": {
                "path": obj.path,
                "url": obj.url,
                "attrs": describe(obj.attrs),
                "data": {k: describe(v) for k, v in obj.data.items()},
            }
        }
    if isinstance(obj, Variable):
        return {"Variable": {"dims": obj.dims, "attrs": obj.attrs, "data": describe(obj.data)}}
    if isinstance(obj, Array):
        return {
            "Array": {
                "fs": f"{type(obj.fs).__name__}(path={obj.fs.path!r}, "
                f"fs={type(obj.fs.fs).__name__})",
                "url": obj.url,
                "byte_ranges": obj.byte_ranges,
                "shape": obj.shape,
                "dtype": obj.dtype,
                "type_code": obj.type_code,
                "records_per_chunk": obj.records_per_chunk,
            }
        }
    if isinstance(obj, np.ndarray):
        return {"ndarray": {"dtype": str(obj.dtype), "data": obj.tolist()}}
    if isinstance(obj, dict):
        return {k: describe(v) for k, v in obj.items()}
    if isinstance(obj, (list, tuple)):
        return type(obj)(describe(v) for v in obj)
    return obj


def observe(func):
    try:
        result = func()
    except RecursionError as e:
        # the message is the same, but keep it short and robust
        return f"RAISES builtins.RecursionError (cause={e.__cause__!r})"
    except Exception as e:  # noqa: BLE001 - the exception *is* the observation
        cause = e.__cause__
        context = e.__context__
        return (
            f"RAISES {type(e).__module__}.{type(e).__qualname__}: {e}"
            f" [args={e.args!r}"
            f" cause={type(cause).__qualname__ if cause is not None else None}"
            f" context={type(context).__qualname__ if context is not None else None}"
            f" suppress_context={e.__suppress_context__}"
            f" is_FileNotFoundError={isinstance(e, FileNotFoundError)}]"
        )
    return f"{type(result).__name__}: {describe(result)!r}"


# ----------------------------------------------------------------------------------
# fixtures


def cache_document(url="file", attrs=None):
    return {
        "__type__": "group",
        "url": None,
        "data": {
            "v": {
                "__type__": "variable",
                "dims": ["x", "y"],
                "data": {
                    "__type__": "backend_array",
                    "root": "memory:///path/to",
                    "url": url,
                    "shape": {"__type__": "tuple", "data": [4, 3]},
                    "dtype": "complex64",
                    "byte_ranges": [
                        {"__type__": "tuple", "data": [5, 10]},
                        {"__type__": "tuple", "data": [15, 20]},
                        {"__type__": "tuple", "data": [25, 30]},
                        {"__type__": "tuple", "data": [35, 40]},
                    ],
                    "type_code": "C*8",
                },
                "attrs": {},
            }
        },
        "path": "/",
        "attrs": attrs or {},
    }


LOCAL_DOC = json.dumps(cache_document(url="from-local-cache", attrs={"t": {"__type__": "tuple", "data": [1]}}))
REMOTE_DOC = json.dumps(cache_document(url="from-remote-cache"))


def small_group():
    return Group(
        path=None,
        url="s3://bucket/data",
        data={
            "a": Variable("x", np.array([1, 2, 3], dtype="int8"), {"u": (1, 2)}),
            "g": Group(path=None, url=None, data={}, attrs={"n": [1, (2,)]}),
        },
        attrs={"shape": (4, 3)},
    )


class Formatted:
    """object whose f-string rendering differs from str()"""

    def __repr__(self):
        return "Formatted()"

    def __str__(self):
        return "from/str"

    def __format__(self, spec):
        return "from/format"


class Env:
    """temporary local cache root + private in-memory remote store"""

    counter = 0

    def __init__(self):
        Env.counter += 1
        self.tmp = pathlib.Path(tempfile.mkdtemp(prefix="eq3-"))
        self.cache_root = self.tmp / "cache"
        self.remote_root = f"memory://eq3-remote-{Env.counter}"
        self.mapper = fsspec.get_mapper(self.remote_root)
        self._saved = caching.path.cache_root
        caching.path.cache_root = self.cache_root

    def local(self, path):
        return caching.local_cache_location(self.mapper.root, path)

    def put_local(self, path, content):
        target = self.local(path)
        target.parent.mkdir(parents=True, exist_ok=True)
        if isinstance(content, bytes):
            target.write_bytes(content)
        else:
            target.write_text(content)

    def put_remote(self, name, content):
        self.mapper[name] = content if isinstance(content, bytes) else content.encode()

    def listing(self):
        """all local files below the temporary directory, with their content"""
        if not self.tmp.exists():
            return {}
        hashed = caching.path.hashsum(self.mapper.root)
        result = {}
        for p in sorted(self.tmp.rglob("*")):
            rel = p.relative_to(self.tmp).as_posix().replace(hashed, "<hash>")
            result[rel] = "<dir>" if p.is_dir() else p.read_text()
        return result

    def close(self):
        caching.path.cache_root = self._saved
        shutil.rmtree(self.tmp, ignore_errors=True)
        fs = self.mapper.fs
        if fs.exists(self.mapper.root):
            fs.rm(self.mapper.root, recursive=True)


def with_env(func):
    def wrapper():
        env = Env()
        try:
            return func(env)
        finally:
            env.close()

    return wrapper


# ----------------------------------------------------------------------------------
# scenarios


def location(remote_root, path):
    saved = caching.path.cache_root
    caching.path.cache_root = pathlib.PurePosixPath("/cache-root")
    try:
        return caching.local_cache_location(remote_root, path).as_posix()
    finally:
        caching.path.cache_root = saved


@with_env
def read_no_cache(env):
    return caching.read_cache(env.mapper, "image", records_per_chunk=2)


@with_env
def read_remote_only(env):
    env.put_remote("image.index", REMOTE_DOC)
    return caching.read_cache(env.mapper, "image", records_per_chunk=3)


@with_env
def read_local_only(env):
    env.put_local("image", LOCAL_DOC)
    return caching.read_cache(env.mapper, "image", records_per_chunk=4)


@with_env
def read_local_wins(env):
    env.put_local("image", LOCAL_DOC)
    env.put_remote("image.index", REMOTE_DOC)
    return caching.read_cache(env.mapper, "image", records_per_chunk=None)


@with_env
def read_other_image_not_used(env):
    env.put_local("other", LOCAL_DOC)
    env.put_remote("other.index", REMOTE_DOC)
    return caching.read_cache(env.mapper, "image", 2)


@with_env
def read_broken_local_does_not_fall_back(env):
    env.put_local("image", LOCAL_DOC[:50])
    env.put_remote("image.index", REMOTE_DOC)
    return caching.read_cache(env.mapper, "image", 2)


@with_env
def read_empty_local_does_not_fall_back(env):
    env.put_local("image", "")
    env.put_remote("image.index", REMOTE_DOC)
    return caching.read_cache(env.mapper, "image", 2)


@with_env
def read_local_directory_is_ignored(env):
    env.local("image").mkdir(parents=True)
    env.put_remote("image.index", REMOTE_DOC)
    return caching.read_cache(env.mapper, "image", 2)


@with_env
def read_local_directory_no_remote(env):
    env.local("image").mkdir(parents=True)
    return caching.read_cache(env.mapper, "image", 2)


@with_env
def read_broken_remote(env):
    env.put_remote("image.index", REMOTE_DOC[:-20])
    return caching.read_cache(env.mapper, "image", 2)


@with_env
def read_remote_invalid_utf8(env):
    env.put_remote("image.index", b"\xff\xfe{}")
    return caching.read_cache(env.mapper, "image", 2)


@with_env
def read_local_invalid_utf8(env):
    env.put_local("image", b'{"a": "\xff"}')
    return caching.read_cache(env.mapper, "image", 2)


@with_env
def read_remote_valid_json_but_undecodable(env):
    env.put_remote("image.index", '{"__type__": "variable", "dims": ["x"], "attrs": {}}')
    return caching.read_cache(env.mapper, "image", 2)


@with_env
def read_remote_json_scalar(env):
    env.put_remote("image.index", "null")
    return caching.read_cache(env.mapper, "image", 2)


@with_env
def read_nested_path(env):
    env.put_remote("sub/dir/image.index", REMOTE_DOC)
    return caching.read_cache(env.mapper, "sub/dir/image", 2)


@with_env
def read_nested_path_local(env):
    # the local location only uses the last component
    env.put_local("image", LOCAL_DOC)
    return caching.read_cache(env.mapper, "sub/dir/image", 2)


@with_env
def read_nested_path_missing(env):
    env.put_remote("image.index", REMOTE_DOC)
    return caching.read_cache(env.mapper, "sub/dir/image", 2)


def read_mapper_without_root():
    return caching.read_cache({"image.index": b"{}"}, "image", 2)


@with_env
def read_keyword_call(env):
    env.put_remote("image.index", REMOTE_DOC)
    return caching.read_cache(mapper=env.mapper, path="image", records_per_chunk="auto")


@with_env
def create_new(env):
    result = caching.create_cache(env.mapper, "image", small_group())
    return result, env.listing()


@with_env
def create_nested_path(env):
    result = caching.create_cache(env.mapper, "sub/dir/image", small_group())
    return result, env.listing()


@with_env
def create_overwrites(env):
    env.put_local("image", "stale content that is longer than the new one" * 20)
    caching.create_cache(env.mapper, "image", {"plain": (1, 2)})
    return env.listing()


@with_env
def create_unserialisable_leaves_directory(env):
    try:
        caching.create_cache(env.mapper, "image", Variable("x", np.array([1j]), {}))
    except TypeError as e:
        return f"TypeError: {e}", env.listing()
    return "no error", env.listing()


@with_env
def create_then_read(env):
    caching.create_cache(env.mapper, "image", small_group())
    return caching.read_cache(env.mapper, "image", 2)


def deep_json(depth):
    return "[" * depth + "]" * depth


def nesting_depth(obj):
    depth = 0
    while isinstance(obj, list) and obj:
        obj = obj[0]
        depth += 1
    return depth


CASES = {
    # --- path.local_cache_location / remote_cache_location --------------------------------
    **{
        f"location/{path!r}": (lambda path=path: location("s3://bucket/data", path))
        for path in [
            "image1",
            "dir/image1",
            "a/b/c",
            "",
            "/",
            "trailing/",
            "//x",
            "/abs/IMG-HH-ALOS2",
            "back\\slash",
            "sp ace/ü.img",
            "a\nb/c\n",
            pathlib.PurePosixPath("a/b"),
            5,
            None,
            Formatted(),
            ("a/b", "c"),
        ]
    },
    "location/other-root": lambda: location("file:///path/to/data", "image1"),
    "location/empty-root": lambda: location("", "image1"),
    "location/non-str-root": lambda: location(None, "a/b"),
    "location/bytes-root": lambda: location(b"root", "a/b"),
    "location/remote": lambda: [
        caching.remote_cache_location("r", p) for p in ["image1", "a/b", "", Formatted(), 5]
    ],
    # --- encode -------------------------------------------------------------------------------
    "encode/group": lambda: caching.encode(small_group()),
    "encode/variable": lambda: caching.encode(Variable("x", np.array([1.5]), {"t": (1,)})),
    "encode/passthrough": lambda: caching.encode({"a": (1, [2, ()])}),
    "encode/scalar": lambda: caching.encode(None),
    "encode/unserialisable": lambda: caching.encode(Variable("x", np.array([1j]), {})),
    "encode/broken-group": lambda: caching.encode(Group(path=None, url=None, data={}, attrs={1j})),
    # --- decode -------------------------------------------------------------------------------
    "decode/document": lambda: caching.decode(REMOTE_DOC, 3),
    "decode/document-keyword": lambda: caching.decode(cache=LOCAL_DOC, records_per_chunk=None),
    "decode/bytes": lambda: caching.decode(REMOTE_DOC.encode(), 2),
    "decode/bytearray": lambda: caching.decode(bytearray(b'{"a": 1}'), 2),
    "decode/utf16-bytes": lambda: caching.decode('{"a": "ü"}'.encode("utf-16"), 2),
    "decode/empty": lambda: caching.decode("", 2),
    "decode/whitespace": lambda: caching.decode("  \n", 2),
    "decode/truncated": lambda: caching.decode(REMOTE_DOC[:120], 2),
    "decode/trailing-garbage": lambda: caching.decode(REMOTE_DOC + "}", 2),
    "decode/single-quotes": lambda: caching.decode("{'a': 1}", 2),
    "decode/nan-is-accepted": lambda: caching.decode('{"a": NaN}', 2)["a"] != 0,
    "decode/invalid-utf8-bytes": lambda: caching.decode(b'{"a": "\xff"}', 2),
    "decode/plain-object": lambda: caching.decode('{"a": {"__type__": "tuple", "data": [1]}}', 2),
    "decode/empty-object": lambda: caching.decode("{}", 2),
    "decode/null": lambda: caching.decode("null", 2),
    "decode/list": lambda: caching.decode("[1]", 2),
    "decode/string": lambda: caching.decode('"abc"', 2),
    "decode/not-text-int": lambda: caching.decode(1, 2),
    "decode/not-text-None": lambda: caching.decode(None, 2),
    "decode/not-text-dict": lambda: caching.decode({"a": 1}, 2),
    "decode/hook-KeyError": lambda: caching.decode('{"__type__": "tuple"}', 2),
    "decode/hook-TypeError": lambda: caching.decode('{"__type__": "tuple", "data": 1}', 2),
    "decode/late-ValueError-not-translated": lambda: caching.decode(
        '{"__type__": "variable", "dims": ["x"], "attrs": {}, "data":'
        ' {"__type__": "array", "dtype": "int16", "data": ["x"], "encoding": {}}}',
        2,
    ),
    "decode/late-KeyError": lambda: caching.decode('{"__type__": "group"}', 2),
    "decode/unhashable-type": lambda: caching.decode('{"__type__": []}', 2),
    "decode/huge-int-literal": lambda: caching.decode("[" + "9" * 5000 + "]", 2),
    "decode/deep-500": lambda: nesting_depth(caching.decode('{"a": ' + deep_json(500) + "}", 2)["a"]),
    "decode/deep-200000": lambda: caching.decode('{"a": ' + deep_json(200000) + "}", 2),
    "CachingError/bases": lambda: [c.__name__ for c in caching.CachingError.__mro__],
    # --- read_cache ---------------------------------------------------------------------------
    "read/no-cache": read_no_cache,
    "read/remote-only": read_remote_only,
    "read/local-only": read_local_only,
    "read/local-wins": read_local_wins,
    "read/other-image-not-used": read_other_image_not_used,
    "read/broken-local-does-not-fall-back": read_broken_local_does_not_fall_back,
    "read/empty-local-does-not-fall-back": read_empty_local_does_not_fall_back,
    "read/local-directory-is-ignored": read_local_directory_is_ignored,
    "read/local-directory-no-remote": read_local_directory_no_remote,
    "read/broken-remote": read_broken_remote,
    "read/remote-invalid-utf8": read_remote_invalid_utf8,
    "read/local-invalid-utf8": read_local_invalid_utf8,
    "read/remote-valid-json-but-undecodable": read_remote_valid_json_but_undecodable,
    "read/remote-json-scalar": read_remote_json_scalar,
    "read/nested-path": read_nested_path,
    "read/nested-path-local": read_nested_path_local,
    "read/nested-path-missing": read_nested_path_missing,
    "read/mapper-without-root": read_mapper_without_root,
    "read/keyword-call": read_keyword_call,
    # --- create_cache -----------------------------------------------------------------------
    "create/new": create_new,
    "create/nested-path": create_nested_path,
    "create/overwrites": create_overwrites,
    "create/unserialisable-leaves-directory": create_unserialisable_leaves_directory,
    "create/then-read": create_then_read,
}


EXPECTED = {
    "location/'image1'": (
        "str: '/cache-root/397b84d867d3f09b9d405ff5bb0c566b08aec08890e38c676e38e2e0df78a380/image1.index'"
    ),
    "location/'dir/image1'": (
        "str: '/cache-root/397b84d867d3f09b9d405ff5bb0c566b08aec08890e38c676e38e2e0df78a380/image1.index'"
    ),
    "location/'a/b/c'": (
        "str: '/cache-root/397b84d867d3f09b9d405ff5bb0c566b08aec08890e38c676e38e2e0df78a380/c.index'"
    ),
    "location/''": (
        "str: '/cache-root/397b84d867d3f09b9d405ff5bb0c566b08aec08890e38c676e38e2e0df78a380/.index'"
    ),
    "location/'/'": (
        "str: '/cache-root/397b84d867d3f09b9d405ff5bb0c566b08aec08890e38c676e38e2e0df78a380/.index'"
    ),
    "location/'trailing/'": (
        "str: '/cache-root/397b84d867d3f09b9d405ff5bb0c566b08aec08890e38c676e38e2e0df78a380/.index'"
    ),
    "location/'//x'": (
        "str: '/cache-root/397b84d867d3f09b9d405ff5bb0c566b08aec08890e38c676e38e2e0df78a380/x.index'"
    ),
    "location/'/abs/IMG-HH-ALOS2'": (
        "str: '/cache-root/397b84d867d3f09b9d405ff5bb0c566b08aec08890e38c676e38e2e0df78a380/IMG-HH-ALOS2.index'"
    ),
    "location/'back\\\\slash'": (
        "str: '/cache-root/397b84d867d3f09b9d405ff5bb0c566b08aec08890e38c676e38e2e0df78a380/back\\\\slash.index'"
    ),
    "location/'sp ace/ü.img'": (
        "str: '/cache-root/397b84d867d3f09b9d405ff5bb0c566b08aec08890e38c676e38e2e0df78a380/ü.img.index'"
    ),
    "location/'a\\nb/c\\n'": (
        "str: '/cache-root/397b84d867d3f09b9d405ff5bb0c566b08aec08890e38c676e38e2e0df78a380/c\\n.index'"
    ),
    "location/PurePosixPath('a/b')": (
        "str: '/cache-root/397b84d867d3f09b9d405ff5bb0c566b08aec08890e38c676e38e2e0df78a380/b.index'"
    ),
    'location/5': (
        "str: '/cache-root/397b84d867d3f09b9d405ff5bb0c566b08aec08890e38c676e38e2e0df78a380/5.index'"
    ),
    'location/None': (
        "str: '/cache-root/397b84d867d3f09b9d405ff5bb0c566b08aec08890e38c676e38e2e0df78a380/None.index'"
    ),
    'location/Formatted()': (
        "str: '/cache-root/397b84d867d3f09b9d405ff5bb0c566b08aec08890e38c676e38e2e0df78a380/format.index'"
    ),
    "location/('a/b', 'c')": (
        'str: "/cache-root/397b84d867d3f09b9d405ff5bb0c566b08aec08890e38c676e38e2e0df78a380/b\', \'c\').index"'
    ),
    'location/other-root': (
        "str: '/cache-root/9506f2b2ddfa8498bc4c1d3cc50d02ee5f799f6716710ff4dd31a9f6e41eac45/image1.index'"
    ),
    'location/empty-root': (
        "str: '/cache-root/e3b0c44298fc1c149afbf4c8996fb92427ae41e4649b934ca495991b7852b855/image1.index'"
    ),
    'location/non-str-root': (
        'RAISES builtins.AttributeError: \'NoneType\' object has no attribute \'encode\' [args=("\'NoneType\' object has no attribute \'encode\'",) cause=None context=None suppress_context=False is_FileNotFoundError=False]'
    ),
    'location/bytes-root': (
        'RAISES builtins.AttributeError: \'bytes\' object has no attribute \'encode\' [args=("\'bytes\' object has no attribute \'encode\'",) cause=None context=None suppress_context=False is_FileNotFoundError=False]'
    ),
    'location/remote': (
        "list: ['image1.index', 'a/b.index', '.index', 'from/format.index', '5.index']"
    ),
    'encode/group': (
        'str: \'{"__type__": "group", "url": "s3://bucket/data", "data": {"a": {"__type__": "variable", "dims": ["x"], "data": {"__type__": "array", "dtype": "int8", "data": [1, 2, 3], "encoding": {}}, "attrs": {"u": {"__type__": "tuple", "data": [1, 2]}}}, "g": {"__type__": "group", "url": "s3://bucket/data", "data": {}, "path": "/g", "attrs": {"n": [1, {"__type__": "tuple", "data": [2]}]}}}, "path": "/", "attrs": {"shape": {"__type__": "tuple", "data": [4, 3]}}}\''
    ),
    'encode/variable': (
        'str: \'{"__type__": "variable", "dims": ["x"], "data": {"__type__": "array", "dtype": "float64", "data": [1.5], "encoding": {}}, "attrs": {"t": {"__type__": "tuple", "data": [1]}}}\''
    ),
    'encode/passthrough': (
        'str: \'{"a": {"__type__": "tuple", "data": [1, [2, {"__type__": "tuple", "data": []}]]}}\''
    ),
    'encode/scalar': (
        "str: 'null'"
    ),
    'encode/unserialisable': (
        "RAISES builtins.TypeError: Object of type complex is not JSON serializable [args=('Object of type complex is not JSON serializable',) cause=None context=None suppress_context=False is_FileNotFoundError=False]"
    ),
    'encode/broken-group': (
        "RAISES builtins.TypeError: Object of type set is not JSON serializable [args=('Object of type set is not JSON serializable',) cause=None context=None suppress_context=False is_FileNotFoundError=False]"
    ),
    'decode/document': (
        'Group: {\'Group\': {\'path\': \'/\', \'url\': None, \'attrs\': {}, \'data\': {\'v\': {\'Variable\': {\'dims\': [\'x\', \'y\'], \'attrs\': {}, \'data\': {\'Array\': {\'fs\': "DirFileSystem(path=\'/path/to\', fs=MemoryFileSystem)", \'url\': \'from-remote-cache\', \'byte_ranges\': [(5, 10), (15, 20), (25, 30), (35, 40)], \'shape\': (4, 3), \'dtype\': \'complex64\', \'type_code\': \'C*8\', \'records_per_chunk\': 3}}}}}}}'
    ),
    'decode/document-keyword': (
        'Group: {\'Group\': {\'path\': \'/\', \'url\': None, \'attrs\': {\'t\': (1,)}, \'data\': {\'v\': {\'Variable\': {\'dims\': [\'x\', \'y\'], \'attrs\': {}, \'data\': {\'Array\': {\'fs\': "DirFileSystem(path=\'/path/to\', fs=MemoryFileSystem)", \'url\': \'from-local-cache\', \'byte_ranges\': [(5, 10), (15, 20), (25, 30), (35, 40)], \'shape\': (4, 3), \'dtype\': \'complex64\', \'type_code\': \'C*8\', \'records_per_chunk\': 1024}}}}}}}'
    ),
    'decode/bytes': (
        'Group: {\'Group\': {\'path\': \'/\', \'url\': None, \'attrs\': {}, \'data\': {\'v\': {\'Variable\': {\'dims\': [\'x\', \'y\'], \'attrs\': {}, \'data\': {\'Array\': {\'fs\': "DirFileSystem(path=\'/path/to\', fs=MemoryFileSystem)", \'url\': \'from-remote-cache\', \'byte_ranges\': [(5, 10), (15, 20), (25, 30), (35, 40)], \'shape\': (4, 3), \'dtype\': \'complex64\', \'type_code\': \'C*8\', \'records_per_chunk\': 2}}}}}}}'
    ),
    'decode/bytearray': (
        "dict: {'a': 1}"
    ),
    'decode/utf16-bytes': (
        "dict: {'a': 'ü'}"
    ),
    'decode/empty': (
        "RAISES ceos_alos2.sar_image.caching.CachingError: invalid or incomplete cache file [args=('invalid or incomplete cache file',) cause=JSONDecodeError context=JSONDecodeError suppress_context=True is_FileNotFoundError=True]"
    ),
    'decode/whitespace': (
        "RAISES ceos_alos2.sar_image.caching.CachingError: invalid or incomplete cache file [args=('invalid or incomplete cache file',) cause=JSONDecodeError context=JSONDecodeError suppress_context=True is_FileNotFoundError=True]"
    ),
    'decode/truncated': (
        "RAISES ceos_alos2.sar_image.caching.CachingError: invalid or incomplete cache file [args=('invalid or incomplete cache file',) cause=JSONDecodeError context=JSONDecodeError suppress_context=True is_FileNotFoundError=True]"
    ),
    'decode/trailing-garbage': (
        "RAISES ceos_alos2.sar_image.caching.CachingError: invalid or incomplete cache file [args=('invalid or incomplete cache file',) cause=JSONDecodeError context=JSONDecodeError suppress_context=True is_FileNotFoundError=True]"
    ),
    'decode/single-quotes': (
        "RAISES ceos_alos2.sar_image.caching.CachingError: invalid or incomplete cache file [args=('invalid or incomplete cache file',) cause=JSONDecodeError context=JSONDecodeError suppress_context=True is_FileNotFoundError=True]"
    ),
    'decode/nan-is-accepted': (
        'bool: True'
    ),
    'decode/invalid-utf8-bytes': (
        "RAISES ceos_alos2.sar_image.caching.CachingError: invalid or incomplete cache file [args=('invalid or incomplete cache file',) cause=UnicodeDecodeError context=UnicodeDecodeError suppress_context=True is_FileNotFoundError=True]"
    ),
    'decode/plain-object': (
        "dict: {'a': (1,)}"
    ),
    'decode/empty-object': (
        'dict: {}'
    ),
    'decode/null': (
        'RAISES builtins.AttributeError: \'NoneType\' object has no attribute \'get\' [args=("\'NoneType\' object has no attribute \'get\'",) cause=None context=None suppress_context=False is_FileNotFoundError=False]'
    ),
    'decode/list': (
        'RAISES builtins.AttributeError: \'list\' object has no attribute \'get\' [args=("\'list\' object has no attribute \'get\'",) cause=None context=None suppress_context=False is_FileNotFoundError=False]'
    ),
    'decode/string': (
        'RAISES builtins.AttributeError: \'str\' object has no attribute \'get\' [args=("\'str\' object has no attribute \'get\'",) cause=None context=None suppress_context=False is_FileNotFoundError=False]'
    ),
    'decode/not-text-int': (
        "RAISES builtins.TypeError: the JSON object must be str, bytes or bytearray, not int [args=('the JSON object must be str, bytes or bytearray, not int',) cause=None context=None suppress_context=False is_FileNotFoundError=False]"
    ),
    'decode/not-text-None': (
        "RAISES builtins.TypeError: the JSON object must be str, bytes or bytearray, not NoneType [args=('the JSON object must be str, bytes or bytearray, not NoneType',) cause=None context=None suppress_context=False is_FileNotFoundError=False]"
    ),
    'decode/not-text-dict': (
        "RAISES builtins.TypeError: the JSON object must be str, bytes or bytearray, not dict [args=('the JSON object must be str, bytes or bytearray, not dict',) cause=None context=None suppress_context=False is_FileNotFoundError=False]"
    ),
    'decode/hook-KeyError': (
        "RAISES builtins.KeyError: 'data' [args=('data',) cause=None context=None suppress_context=False is_FileNotFoundError=False]"
    ),
    'decode/hook-TypeError': (
        'RAISES builtins.TypeError: \'int\' object is not iterable [args=("\'int\' object is not iterable",) cause=None context=None suppress_context=False is_FileNotFoundError=False]'
    ),
    'decode/late-ValueError-not-translated': (
        'RAISES builtins.ValueError: invalid literal for int() with base 10: \'x\' [args=("invalid literal for int() with base 10: \'x\'",) cause=None context=None suppress_context=False is_FileNotFoundError=False]'
    ),
    'decode/late-KeyError': (
        "RAISES builtins.KeyError: 'data' [args=('data',) cause=None context=None suppress_context=False is_FileNotFoundError=False]"
    ),
    'decode/unhashable-type': (
        'RAISES builtins.TypeError: unhashable type: \'list\' [args=("unhashable type: \'list\'",) cause=None context=None suppress_context=False is_FileNotFoundError=False]'
    ),
    'decode/huge-int-literal': (
        "RAISES ceos_alos2.sar_image.caching.CachingError: invalid or incomplete cache file [args=('invalid or incomplete cache file',) cause=ValueError context=ValueError suppress_context=True is_FileNotFoundError=True]"
    ),
    'decode/deep-500': (
        'int: 499'
    ),
    'decode/deep-200000': (
        'RAISES builtins.RecursionError (cause=None)'
    ),
    'CachingError/bases': (
        "list: ['CachingError', 'FileNotFoundError', 'OSError', 'Exception', 'BaseException', 'object']"
    ),
    'read/no-cache': (
        "RAISES ceos_alos2.sar_image.caching.CachingError: no cache found for image [args=('no cache found for image',) cause=None context=None suppress_context=False is_FileNotFoundError=True]"
    ),
    'read/remote-only': (
        'Group: {\'Group\': {\'path\': \'/\', \'url\': None, \'attrs\': {}, \'data\': {\'v\': {\'Variable\': {\'dims\': [\'x\', \'y\'], \'attrs\': {}, \'data\': {\'Array\': {\'fs\': "DirFileSystem(path=\'/path/to\', fs=MemoryFileSystem)", \'url\': \'from-remote-cache\', \'byte_ranges\': [(5, 10), (15, 20), (25, 30), (35, 40)], \'shape\': (4, 3), \'dtype\': \'complex64\', \'type_code\': \'C*8\', \'records_per_chunk\': 3}}}}}}}'
    ),
    'read/local-only': (
        'Group: {\'Group\': {\'path\': \'/\', \'url\': None, \'attrs\': {\'t\': (1,)}, \'data\': {\'v\': {\'Variable\': {\'dims\': [\'x\', \'y\'], \'attrs\': {}, \'data\': {\'Array\': {\'fs\': "DirFileSystem(path=\'/path/to\', fs=MemoryFileSystem)", \'url\': \'from-local-cache\', \'byte_ranges\': [(5, 10), (15, 20), (25, 30), (35, 40)], \'shape\': (4, 3), \'dtype\': \'complex64\', \'type_code\': \'C*8\', \'records_per_chunk\': 4}}}}}}}'
    ),
    'read/local-wins': (
        'Group: {\'Group\': {\'path\': \'/\', \'url\': None, \'attrs\': {\'t\': (1,)}, \'data\': {\'v\': {\'Variable\': {\'dims\': [\'x\', \'y\'], \'attrs\': {}, \'data\': {\'Array\': {\'fs\': "DirFileSystem(path=\'/path/to\', fs=MemoryFileSystem)", \'url\': \'from-local-cache\', \'byte_ranges\': [(5, 10), (15, 20), (25, 30), (35, 40)], \'shape\': (4, 3), \'dtype\': \'complex64\', \'type_code\': \'C*8\', \'records_per_chunk\': 1024}}}}}}}'
    ),
    'read/other-image-not-used': (
        "RAISES ceos_alos2.sar_image.caching.CachingError: no cache found for image [args=('no cache found for image',) cause=None context=None suppress_context=False is_FileNotFoundError=True]"
    ),
    'read/broken-local-does-not-fall-back': (
        "RAISES ceos_alos2.sar_image.caching.CachingError: invalid or incomplete cache file [args=('invalid or incomplete cache file',) cause=JSONDecodeError context=JSONDecodeError suppress_context=True is_FileNotFoundError=True]"
    ),
    'read/empty-local-does-not-fall-back': (
        "RAISES ceos_alos2.sar_image.caching.CachingError: invalid or incomplete cache file [args=('invalid or incomplete cache file',) cause=JSONDecodeError context=JSONDecodeError suppress_context=True is_FileNotFoundError=True]"
    ),
    'read/local-directory-is-ignored': (
        'Group: {\'Group\': {\'path\': \'/\', \'url\': None, \'attrs\': {}, \'data\': {\'v\': {\'Variable\': {\'dims\': [\'x\', \'y\'], \'attrs\': {}, \'data\': {\'Array\': {\'fs\': "DirFileSystem(path=\'/path/to\', fs=MemoryFileSystem)", \'url\': \'from-remote-cache\', \'byte_ranges\': [(5, 10), (15, 20), (25, 30), (35, 40)], \'shape\': (4, 3), \'dtype\': \'complex64\', \'type_code\': \'C*8\', \'records_per_chunk\': 2}}}}}}}'
    ),
    'read/local-directory-no-remote': (
        "RAISES ceos_alos2.sar_image.caching.CachingError: no cache found for image [args=('no cache found for image',) cause=None context=None suppress_context=False is_FileNotFoundError=True]"
    ),
    'read/broken-remote': (
        "RAISES ceos_alos2.sar_image.caching.CachingError: invalid or incomplete cache file [args=('invalid or incomplete cache file',) cause=JSONDecodeError context=JSONDecodeError suppress_context=True is_FileNotFoundError=True]"
    ),
    'read/remote-invalid-utf8': (
        "RAISES builtins.UnicodeDecodeError: 'utf-8' codec can't decode byte 0xff in position 0: invalid start byte [args=('utf-8', b'\\xff\\xfe{}', 0, 1, 'invalid start byte') cause=None context=None suppress_context=False is_FileNotFoundError=False]"
    ),
    'read/local-invalid-utf8': (
        'RAISES builtins.UnicodeDecodeError: \'utf-8\' codec can\'t decode byte 0xff in position 7: invalid start byte [args=(\'utf-8\', b\'{"a": "\\xff"}\', 7, 8, \'invalid start byte\') cause=None context=None suppress_context=False is_FileNotFoundError=False]'
    ),
    'read/remote-valid-json-but-undecodable': (
        "RAISES builtins.KeyError: 'data' [args=('data',) cause=None context=None suppress_context=False is_FileNotFoundError=False]"
    ),
    'read/remote-json-scalar': (
        'RAISES builtins.AttributeError: \'NoneType\' object has no attribute \'get\' [args=("\'NoneType\' object has no attribute \'get\'",) cause=None context=None suppress_context=False is_FileNotFoundError=False]'
    ),
    'read/nested-path': (
        'Group: {\'Group\': {\'path\': \'/\', \'url\': None, \'attrs\': {}, \'data\': {\'v\': {\'Variable\': {\'dims\': [\'x\', \'y\'], \'attrs\': {}, \'data\': {\'Array\': {\'fs\': "DirFileSystem(path=\'/path/to\', fs=MemoryFileSystem)", \'url\': \'from-remote-cache\', \'byte_ranges\': [(5, 10), (15, 20), (25, 30), (35, 40)], \'shape\': (4, 3), \'dtype\': \'complex64\', \'type_code\': \'C*8\', \'records_per_chunk\': 2}}}}}}}'
    ),
    'read/nested-path-local': (
        'Group: {\'Group\': {\'path\': \'/\', \'url\': None, \'attrs\': {\'t\': (1,)}, \'data\': {\'v\': {\'Variable\': {\'dims\': [\'x\', \'y\'], \'attrs\': {}, \'data\': {\'Array\': {\'fs\': "DirFileSystem(path=\'/path/to\', fs=MemoryFileSystem)", \'url\': \'from-local-cache\', \'byte_ranges\': [(5, 10), (15, 20), (25, 30), (35, 40)], \'shape\': (4, 3), \'dtype\': \'complex64\', \'type_code\': \'C*8\', \'records_per_chunk\': 2}}}}}}}'
    ),
    'read/nested-path-missing': (
        "RAISES ceos_alos2.sar_image.caching.CachingError: no cache found for sub/dir/image [args=('no cache found for sub/dir/image',) cause=None context=None suppress_context=False is_FileNotFoundError=True]"
    ),
    'read/mapper-without-root': (
        'RAISES builtins.AttributeError: \'dict\' object has no attribute \'root\' [args=("\'dict\' object has no attribute \'root\'",) cause=None context=None suppress_context=False is_FileNotFoundError=False]'
    ),
    'read/keyword-call': (
        'Group: {\'Group\': {\'path\': \'/\', \'url\': None, \'attrs\': {}, \'data\': {\'v\': {\'Variable\': {\'dims\': [\'x\', \'y\'], \'attrs\': {}, \'data\': {\'Array\': {\'fs\': "DirFileSystem(path=\'/path/to\', fs=MemoryFileSystem)", \'url\': \'from-remote-cache\', \'byte_ranges\': [(5, 10), (15, 20), (25, 30), (35, 40)], \'shape\': (4, 3), \'dtype\': \'complex64\', \'type_code\': \'C*8\', \'records_per_chunk\': np.int64(4)}}}}}}}'
    ),
    'create/new': (
        'tuple: (None, {\'cache\': \'<dir>\', \'cache/<hash>\': \'<dir>\', \'cache/<hash>/image.index\': \'{"__type__": "group", "url": "s3://bucket/data", "data": {"a": {"__type__": "variable", "dims": ["x"], "data": {"__type__": "array", "dtype": "int8", "data": [1, 2, 3], "encoding": {}}, "attrs": {"u": {"__type__": "tuple", "data": [1, 2]}}}, "g": {"__type__": "group", "url": "s3://bucket/data", "data": {}, "path": "/g", "attrs": {"n": [1, {"__type__": "tuple", "data": [2]}]}}}, "path": "/", "attrs": {"shape": {"__type__": "tuple", "data": [4, 3]}}}\'})'
    ),
    'create/nested-path': (
        'tuple: (None, {\'cache\': \'<dir>\', \'cache/<hash>\': \'<dir>\', \'cache/<hash>/image.index\': \'{"__type__": "group", "url": "s3://bucket/data", "data": {"a": {"__type__": "variable", "dims": ["x"], "data": {"__type__": "array", "dtype": "int8", "data": [1, 2, 3], "encoding": {}}, "attrs": {"u": {"__type__": "tuple", "data": [1, 2]}}}, "g": {"__type__": "group", "url": "s3://bucket/data", "data": {}, "path": "/g", "attrs": {"n": [1, {"__type__": "tuple", "data": [2]}]}}}, "path": "/", "attrs": {"shape": {"__type__": "tuple", "data": [4, 3]}}}\'})'
    ),
    'create/overwrites': (
        'dict: {\'cache\': \'<dir>\', \'cache/<hash>\': \'<dir>\', \'cache/<hash>/image.index\': \'{"plain": {"__type__": "tuple", "data": [1, 2]}}\'}'
    ),
    'create/unserialisable-leaves-directory': (
        "tuple: ('TypeError: Object of type complex is not JSON serializable', {'cache': '<dir>', 'cache/<hash>': '<dir>'})"
    ),
    'create/then-read': (
        "Group: {'Group': {'path': '/', 'url': 's3://bucket/data', 'attrs': {'shape': (4, 3)}, 'data': {'a': {'Variable': {'dims': ['x'], 'attrs': {'u': (1, 2)}, 'data': {'ndarray': {'dtype': 'int8', 'data': [1, 2, 3]}}}}, 'g': {'Group': {'path': '/g', 'url': 's3://bucket/data', 'attrs': {'n': [1, (2,)]}, 'data': {}}}}}}"
    ),
}


def main():
    warnings.simplefilter("ignore", DeprecationWarning)
    observed = {name: observe(func) for name, func in CASES.items()}

    if "--print" in sys.argv[1:]:
        print("EXPECTED = {")
        for name, value in observed.items():
            print(f"    {name!r}: (\n        {value!r}\n    ),")
        print("}")
        return 0

    failures = 0
    assert set(observed) == set(EXPECTED), sorted(set(observed) ^ set(EXPECTED))
    for name, value in observed.items():
        if value != EXPECTED[name]:
            failures += 1
            print(f"MISMATCH {name}:\n  expected: {EXPECTED[name]}\n  observed: {value}")
    assert failures == 0, f"{failures} of {len(observed)} cases differ"
    print(f"OK: {len(observed)} cases identical to the recorded behaviour")
    return 0


if __name__ == "__main__":
    sys.exit(main())
